#!/venv/bin/python
"""Witnesses for the open findings of C08 (warn mode) and C06-K2, against the real code.
Run:  cd /repo && /venv/bin/python /verif/findings/repro_warn_mode.py
Each case prints the exception class that escapes Binary.marshal(..., abort_on_error=False)."""
import sys
sys.path.insert(0, "/repo/src")
from tpmstream.io.binary import Binary
from tpmstream.spec.commands import Command, Response
from tpmstream.spec.structures.constants import TPM_CC
from tpmstream.spec.structures.algorithm_parameters_and_structures import TPMT_SYM_DEF
from tpmstream.common.event import WarningEvent


def run(name, **kw):
    try:
        ev = list(Binary.marshal(abort_on_error=False, **kw))
        w = [type(e.error).__name__ for e in ev if isinstance(e, WarningEvent)]
        print(f"{name}: completed, {len(ev)} events, warnings={w}")
    except BaseException as e:  # noqa
        print(f"{name}: ESCAPED {type(e).__name__}: {str(e)[:90]}")


# K4: union selector without member -> AssertionError (property: ValueConstraintViolatedError)
run("K4 TPMT_SYM_DEF selector 0x9999", tpm_type=TPMT_SYM_DEF, buffer=bytes.fromhex("9999" + "0080" + "0043"))
# K5: session area truncated by authSize -> recovery returns None -> iterated
run("K5 authSize 5 < session", tpm_type=Command,
    buffer=bytes.fromhex("8002" + "0000001b" + "00000126" + "4000000a" + "00000005" + "40000009" + "0000" + "00" + "0000"))
# K8: processor completes on a byte send (padding of a short region)
run("K8 Startup commandSize 13 with one pad byte", tpm_type=Command, buffer=bytes.fromhex("8001" + "0000000d" + "00000144" + "0000" + "00"))
# K6: nested region not retired / outer over-charged after an inner overrun (ReadPublic response, outPublic.size too small)
rp = bytes.fromhex("8001" + "00000000" + "00000000" + "000b" + "0001000b00060072" + "0000" * 8)
rp = rp[:2] + len(rp).to_bytes(4, "big") + rp[6:]
run("K6 ReadPublic outPublic.size=11", tpm_type=Response, command_code=TPM_CC.ReadPublic, buffer=rp)
# K2 (strict or warn): response with encrypt bit decoded standalone
run("K2 GetRandom response, encrypt bit, standalone", tpm_type=Response, command_code=TPM_CC.GetRandom,
    buffer=bytes.fromhex("8002" + "00000019" + "00000000" + "00000006" + "0004aabbccdd" + "0000" + "40" + "0000"))


def warn_list(name, **kw):
    try:
        ev = list(Binary.marshal(abort_on_error=False, **kw))
        print(f"{name}: completed; warnings:")
        for e in ev:
            if isinstance(e, WarningEvent):
                print("    ", type(e.error).__name__, str(e.error)[:140])
    except BaseException as e:  # noqa
        print(f"{name}: ESCAPED {type(e).__name__}: {str(e)[:140]}")


def response(body):
    return bytes.fromhex("8001") + (10 + len(body)).to_bytes(4, "big") + bytes(4) + body


# K6a: 4 pad bytes inside outPublic (size 18, content 14): one real problem, but the padding is not charged to
#      responseSize -> bogus `.responseSize 30 of 34` shortfall and bogus InputStreamBytesDepleted
pub = bytes.fromhex("0008" + "000b" + "00000000" + "0000" + "0010" + "0000")
warn_list("K6a padding not charged", tpm_type=Response, command_code=TPM_CC.ReadPublic,
          buffer=response((len(pub) + 4).to_bytes(2, "big") + pub + bytes(4) + bytes.fromhex("0000" + "0000")))
# K6b: outPublic.size 11 cuts authPolicy (size 32): the stale inner region .authPolicy.size later raises
#      SizeConstraintExceededError out of warn mode
warn_list("K6b stale nested region", tpm_type=Response, command_code=TPM_CC.ReadPublic,
          buffer=response(bytes.fromhex("000b" + "0001" + "000b" + "00060072" + "0020") + bytes(range(1, 4)) + bytes.fromhex("0022") + bytes(0x22) + bytes.fromhex("0000")))
# K6c: outPublic.size 9 cuts the 2-byte authPolicy.size: responseSize was charged 2 bytes, 1 was consumed ->
#      bogus responseSize overrun and bogus superfluous byte on an input of exactly responseSize bytes
warn_list("K6c outer region over-charged", tpm_type=Response, command_code=TPM_CC.ReadPublic,
          buffer=response(bytes.fromhex("0009" + "0008" + "000b" + "00000000" + "00") + bytes.fromhex("0002aabb" + "0002ccdd")))
