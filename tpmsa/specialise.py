"""E2 - loop specialiser / abstract trace extractor for the walkers of io/binary/marshal.py.

`for field in fields(T)` loops are unrolled statically with the field list of T taken from the
layout model L; conditions on `field.name` / `field.type` fold to constants, conditions on
decoded values fork (consistently: the same condition text gets the same outcome within one
trace).  The result is a small set of abstract traces of events
    container | process(field, type, kwargs) | arm(region) | register(region) | close(region)
    | final_check | return
per variant.  This is partial evaluation with respect to static data: no byte is ever supplied
and nothing is executed.
"""
from __future__ import annotations

import ast
import copy

from .project import AnalysisError, call_name, kwarg, norm
from .specmodel import ANY, ClassV, DictV, EnumMember, ListT, TupleV

MAX_TRACES = 256


class Ev:
    __slots__ = ("kind", "data", "node")

    def __init__(self, kind, node=None, **data):
        self.kind, self.data, self.node = kind, data, node

    def __repr__(self):
        return f"{self.kind}({', '.join(f'{k}={v}' for k, v in self.data.items())})"


class State:
    def __init__(self):
        self.env = {}
        self.values = {}  # name -> dict var: set of constant keys
        self.trace = []
        self.decisions = {}
        self.decision_values = {}  # decision text -> what the tested expression stood for when it was decided
        self.status = "run"  # run | continue | break | return | raise
        self.field = None

    def fork(self):
        s = State()
        s.env = dict(self.env)
        s.values = {k: set(v) for k, v in self.values.items()}
        s.trace = list(self.trace)
        s.decisions = dict(self.decisions)
        s.decision_values = dict(self.decision_values)
        s.status = self.status
        s.field = self.field
        return s


def render(v):
    if not isinstance(v, tuple):
        return repr(v)
    k = v[0]
    if k == "const":
        return repr(v[1])
    if k == "type":
        t = v[1]
        return "Any" if t is ANY else (t.name if isinstance(t, ClassV) else repr(t))
    if k in ("param", "region", "sym", "value", "local"):
        return f"{k}:{v[1]}"
    if k == "result":
        return f"result[{v[2]}] of process({v[1]})"
    if k == "path":
        return f"{render(v[1])}/{render(v[2])}"
    if k == "pathnode":
        return f"PathNode({render(v[1])})"
    if k == "tabletype":
        return f"{v[1]}[{render(v[2])}]"
    if k == "ornone":
        return f"({render(v[1])} or None)"
    if k == "encreq":
        return f"[{v[3][1]} if a session of {render(v[1])} sets {v[2]}, {v[3][2]} if none does, {v[3][0]} without session area]"
    if k == "penc":
        return "is_parameter_encryption(" + ", ".join(f"{a}={render(b)}" for a, b in v[1]) + ")"
    return repr(v)


class Specialiser:
    def __init__(self, L, mod, fn, type_cls=None, dispatcher="process", env=None):
        self.L, self.mod, self.fn = L, mod, fn
        self.init_env = dict(env or {})
        self.type_cls = type_cls
        self.dispatcher = dispatcher
        self.done = []
        self.notes = []
        # locals that are only keyword-argument bundles: splatted as `**name` into a call other than the object constructor
        self.kwdict_names = {k.value.id for c in ast.walk(fn) if isinstance(c, ast.Call) and not (isinstance(c.func, ast.Name) and c.func.id == "tpm_type")
                             for k in c.keywords if k.arg is None and isinstance(k.value, ast.Name)}

    # ------------------------------------------------------------------ encryption requests (tpmsa.encreq)
    def enc_request(self, e, s):
        """abstract value of an expression that calls into the encryption-request functions of the project: its normal form
        ("encreq", <area value>, bit, (absent, any, none)), a ("kwdict", ...) for a method handing back keyword arguments, or
        None when the expression is nothing of the kind"""
        project = getattr(self, "project", None) or getattr(self.L.m, "project", None)
        if project is None:
            return None
        from . import encreq
        sess = getattr(project, "_session_functions", None)
        if sess is None:
            sess = project._session_functions = encreq.session_functions({n: m.tree for n, m in project.modules.items()})
        called = {(c.func.id if isinstance(c.func, ast.Name) else c.func.attr if isinstance(c.func, ast.Attribute) else None)
                  for c in ast.walk(e) if isinstance(c, ast.Call)}
        if not (called & sess) or "is_parameter_encryption" in called:
            return None
        free = {n.id for n in ast.walk(e) if isinstance(n, ast.Name) and n.id in s.env}
        try:
            r = encreq.evaluate(project, self.mod, e, free)
        except encreq.Unsupported as ex:
            self.notes.append(f"encryption request `{norm(e)[:60]}` not evaluated: {ex}")
            return None
        if r is None:
            return None
        if isinstance(r, dict):
            return ("encreq", self.ev(r["area"], s), r["bit"], (r["absent"], r["any"], r["none"]))
        # keyword arguments: one abstract value per key
        keys = None
        for _a, v in r:
            if v[0] != "dict":
                return None
            keys = set(v[1]) if keys is None else keys
            if set(v[1]) != keys:
                return None
        out = []
        for k in sorted(keys or ()):
            vals = [(a, v[1][k]) for a, v in r]
            texts = {(x[0], norm(x[1]) if x[0] == "sym" else repr(x[1:])) for _a, x in vals}
            if len(texts) == 1:
                x = vals[0][1]
                if x[0] == "sym":
                    out.append((k, self.ev(x[1], s), e))
                elif x[0] == "const":
                    out.append((k, ("const", x[1]), e))
                else:
                    return None
                continue
            t = encreq.table(vals)
            if t is None:
                return None
            out.append((k, ("encreq", self.ev(t["area"], s), t["bit"], (t["absent"], t["any"], t["none"])), e))
        return ("kwdict", tuple(out))

    # ------------------------------------------------------------------ driver
    def run(self):
        st = State()
        for a in self.fn.args.args + self.fn.args.kwonlyargs:
            st.env[a.arg] = ("param", a.arg)
        if self.type_cls is not None and self.fn.args.args and self.fn.args.args[0].arg == "tpm_type":
            st.env["tpm_type"] = ("type", self.type_cls)
        st.env.update(self.init_env)
        outs = self.block(self.fn.body, [st])
        for s in outs:
            if s.status == "run":
                s.trace.append(Ev("return", None, value=None, implicit=True))
                s.status = "return"
            self.done.append(s)
        return self.done

    def block(self, stmts, states):
        for stmt in stmts:
            nxt = []
            for s in states:
                if s.status != "run":
                    nxt.append(s)
                else:
                    nxt.extend(self.stmt(stmt, s))
            states = nxt
            if len(states) > MAX_TRACES:
                raise AnalysisError(f"specialiser: more than {MAX_TRACES} traces in {self.fn.name}")
        return states

    # ------------------------------------------------------------------ statements
    def stmt(self, st, s):
        if isinstance(st, ast.Assert):
            s.trace.append(Ev("assertion", st, src=norm(st.test)[:120]))   # evaluated on this trace (no effect on the state)
            return [s]
        if isinstance(st, ast.Pass) or (isinstance(st, ast.Expr) and isinstance(st.value, ast.Constant)):
            return [s]
        if isinstance(st, ast.Assign):
            return self.assign(st, s)
        if isinstance(st, ast.AugAssign):
            if isinstance(st.target, ast.Name):
                s.env[st.target.id] = ("sym", norm(st))
            return [s]
        if isinstance(st, ast.Expr):
            return self.expr_stmt(st.value, s, st)
        if isinstance(st, ast.If):
            out = []
            for outcome, s2 in self.decide(st.test, s):
                out.extend(self.block(st.body if outcome else st.orelse, [s2]))
            return out
        if isinstance(st, ast.For):
            return self.for_loop(st, s)
        if isinstance(st, ast.While):
            return self.while_loop(st, s)
        if isinstance(st, ast.Try):
            s.trace.append(Ev("try", st, handlers=[norm(h.type) if h.type is not None else "*" for h in st.handlers]))
            out = self.block(st.body, [s])
            if st.orelse:
                out = self.block(st.orelse, out)
            for o in out:
                o.trace.append(Ev("endtry", st))
            return out
        if isinstance(st, ast.Continue):
            s.status = "continue"
            return [s]
        if isinstance(st, ast.Break):
            s.status = "break"
            return [s]
        if isinstance(st, ast.Return):
            s.trace.append(Ev("return", st, value=self.ev(st.value, s) if st.value is not None else None))
            s.status = "return"
            return [s]
        if isinstance(st, ast.Raise):
            s.trace.append(Ev("raise", st, exc=norm(st.exc) if st.exc is not None else None))
            s.status = "raise"
            return [s]
        raise AnalysisError(f"specialiser: unmodelled statement `{norm(st).splitlines()[0][:70]}` in {self.fn.name}")

    def assign(self, st, s):
        tgt = st.targets[0]
        val = st.value
        if isinstance(val, ast.YieldFrom):
            r = self.yield_from(val, s, st)
            if isinstance(tgt, (ast.Tuple, ast.List)):
                for i, e in enumerate(tgt.elts):
                    if isinstance(e, ast.Name):
                        s.env[e.id] = ("result", r, i) if r is not None else ("sym", "yield from")
            elif isinstance(tgt, ast.Name):
                s.env[tgt.id] = ("result", r, None) if r is not None else ("sym", "yield from")
            return [s]
        if isinstance(val, ast.Yield):
            self.yield_(val, s, st)
            if isinstance(tgt, ast.Name):
                s.env[tgt.id] = ("sym", "sent")
            return [s]
        if isinstance(tgt, ast.Name) and tgt.id in self.kwdict_names and isinstance(val, ast.Dict) \
                and all(k is not None and isinstance(k, ast.Constant) and isinstance(k.value, str) for k in val.keys):
            s.env[tgt.id] = ("kwdict", tuple((k.value, self.ev(v_, s), v_) for k, v_ in zip(val.keys, val.values)))
            return [s]
        if isinstance(tgt, ast.Subscript) and isinstance(tgt.value, ast.Name) and s.env.get(tgt.value.id, ("?",))[0] == "kwdict" \
                and isinstance(tgt.slice, ast.Constant) and isinstance(tgt.slice.value, str):
            old = [x for x in s.env[tgt.value.id][1] if x[0] != tgt.slice.value]
            s.env[tgt.value.id] = ("kwdict", tuple(old + [(tgt.slice.value, self.ev(val, s), val)]))
            return [s]
        v = self.ev(val, s)
        if isinstance(tgt, ast.Name):
            if isinstance(val, ast.Call) and call_name(val) == "SizeConstraint":
                v = ("region", tgt.id)
                s.trace.append(Ev("create", st, region=tgt.id))
            if isinstance(val, ast.Call) and call_name(val) == "SizeConstraintList":
                members = []
                if val.args:
                    a0 = val.args[0]
                    elts = a0.elts if isinstance(a0, (ast.Tuple, ast.List)) else []
                    for e in elts:
                        ev = self.ev(e, s)
                        if ev[0] == "region":
                            members.append(ev[1])
                            s.trace.append(Ev("register", st, region=ev[1], list=tgt.id, at_creation=True))
                        else:
                            raise AnalysisError(f"specialiser: SizeConstraintList member `{norm(e)}` is not a region")
                    if not isinstance(a0, (ast.Tuple, ast.List)):
                        raise AnalysisError("specialiser: SizeConstraintList(...) argument is not a literal tuple")
                v = ("rlist", tgt.id)
            if isinstance(val, ast.Dict) and not val.keys:
                s.values[tgt.id] = set()
                v = ("dict", tgt.id)
            elif isinstance(val, ast.Dict) and all(k is not None for k in val.keys):
                # a display with entries = an empty dict followed by one store per entry, in order
                s.values[tgt.id] = set()
                for kx, vx in zip(val.keys, val.values):
                    k = self.ev(kx, s)
                    if k[0] == "const":
                        s.values[tgt.id].add(k[1])
                    s.trace.append(Ev("store", st, key=k[1] if k[0] == "const" else render(k), value=self.ev(vx, s), dict=tgt.id,
                                      static=k[0] == "const"))
                v = ("dict", tgt.id)
            s.env[tgt.id] = v
            return [s]
        if isinstance(tgt, ast.Subscript) and isinstance(tgt.value, ast.Name) and tgt.value.id in s.values:
            k = self.ev(tgt.slice, s)
            if k[0] == "const":
                s.values[tgt.value.id].add(k[1])
            s.trace.append(Ev("store", st, key=k[1] if k[0] == "const" else render(k), value=v, dict=tgt.value.id,
                              static=k[0] == "const"))
            return [s]
        if isinstance(tgt, (ast.Tuple, ast.List)):
            for i, e in enumerate(tgt.elts):
                if isinstance(e, ast.Name):
                    # unpacking the whole result of a delegated decode = its i-th component
                    s.env[e.id] = ("result", v[1], i) if (v[0] == "result" and v[2] is None) else ("unpack", v, i)
            return [s]
        raise AnalysisError(f"specialiser: unmodelled assignment `{norm(st)[:70]}` in {self.fn.name}")

    def expr_stmt(self, e, s, st):
        if isinstance(e, ast.YieldFrom):
            self.yield_from(e, s, st)
            return [s]
        if isinstance(e, ast.Yield):
            self.yield_(e, s, st)
            return [s]
        if isinstance(e, ast.Call) and isinstance(e.func, ast.Attribute):
            recv = self.ev(e.func.value, s)
            if recv[0] == "cset" and isinstance(e.func.value, ast.Name) and e.func.attr in ("update", "add", "discard") and len(e.args) == 1:
                a = self.ev(e.args[0], s)
                if e.func.attr == "update" and a[0] == "const" and isinstance(a[1], tuple):
                    s.env[e.func.value.id] = ("cset", recv[1] | frozenset(a[1]))
                    return [s]
                if e.func.attr == "update" and a[0] == "cset":
                    s.env[e.func.value.id] = ("cset", recv[1] | a[1])
                    return [s]
                if e.func.attr in ("add", "discard") and a[0] == "const":
                    s.env[e.func.value.id] = ("cset", recv[1] | {a[1]} if e.func.attr == "add" else recv[1] - {a[1]})
                    return [s]
                raise AnalysisError(f"specialiser: `{norm(e)[:70]}` puts a value into a tracked set that is not known for this layout")
            if e.func.attr == "append" and len(e.args) == 1:
                a = self.ev(e.args[0], s)
                if a[0] == "region":
                    s.trace.append(Ev("register", st, region=a[1], list=recv[1] if recv[0] in ("rlist", "param") else render(recv),
                                      at_creation=False))
                    return [s]
                if recv[0] == "rlist":
                    raise AnalysisError(f"specialiser: `{norm(e)}` appends a non-region")
                return [s]
            if e.func.attr == "assert_done" and recv[0] == "rlist":
                s.trace.append(Ev("final_check", st, list=recv[1]))
                return [s]
            if e.func.attr == "append":
                return [s]
        if isinstance(e, ast.Call):
            # a call evaluated for its side effect only: harmless to the traces if it cannot touch the tracked objects,
            # i.e. none of its arguments / its receiver is a region, a region list or the values dict
            parts = [self.ev(a, s) for a in e.args] + [self.ev(k.value, s) for k in e.keywords]
            if isinstance(e.func, ast.Attribute):
                parts.append(self.ev(e.func.value, s))
            if not any(isinstance(p, tuple) and p and p[0] in ("region", "rlist", "dict") for p in parts):
                s.trace.append(Ev("effect", st, src=norm(e)[:80]))
                return [s]
        raise AnalysisError(f"specialiser: unmodelled expression statement `{norm(e)[:70]}` in {self.fn.name}")

    def yield_(self, y, s, st):
        v = y.value
        if v is None or (isinstance(v, ast.Constant) and v.value is None):
            s.trace.append(Ev("byte_request", st))
        elif isinstance(v, ast.Call) and call_name(v) == "MarshalEvent":
            args = [self.ev(a, s) for a in v.args]
            s.trace.append(Ev("event", st, args=args, src=norm(v)))
        elif isinstance(v, ast.Call) and call_name(v) == "WarningEvent":
            s.trace.append(Ev("warning", st, src=norm(v)))
        else:
            r = self.ev(v, s)
            s.trace.append(Ev("event", st, args=[r], src=norm(v)))

    def yield_from(self, yf, s, st):
        c = yf.value
        if not isinstance(c, ast.Call):
            raise AnalysisError(f"specialiser: `yield from {norm(c)[:50]}` is not a call")
        name = call_name(c)
        kws = {k.arg: self.ev(k.value, s) for k in c.keywords if k.arg}
        kw_nodes = {k.arg: k.value for k in c.keywords if k.arg}
        for k in c.keywords:
            if k.arg is None:
                d = self.ev(k.value, s)
                if d[0] == "kwdict":
                    for key, absval, node in d[1]:
                        kws[key] = absval
                        kw_nodes[key] = node
                elif d[0] != "emptydict":
                    raise AnalysisError(f"specialiser: `**{norm(k.value)}` in `{norm(c)[:60]}` is not a tracked keyword bundle")
        if name == self.dispatcher:
            args = [self.ev(a, s) for a in c.args]
            idx = sum(1 for e in s.trace if e.kind == "process")
            fld = s.field[0] if s.field else None
            ev = Ev("process", c, index=idx, field=fld, type=args[0] if args else None, path=args[1] if len(args) > 1 else kws.get("path"),
                    kwargs=kws, kw_nodes=kw_nodes)
            s.trace.append(ev)
            return (fld, idx)
        if isinstance(c.func, ast.Attribute):
            recv = self.ev(c.func.value, s)
            if c.func.attr == "set_constraint":
                s.trace.append(Ev("arm", c, region=recv, kwargs=kws))
                return None
            if c.func.attr == "assert_done":
                s.trace.append(Ev("close", c, region=recv, kwargs=kws))
                return None
            if c.func.attr == "bytes_parsed":
                args = [self.ev(a, s) for a in c.args]
                s.trace.append(Ev("charge", c, target=recv, args=args, kwargs=kws))
                return None
        if name == "consume_bytes":
            s.trace.append(Ev("consume", c, count=self.ev(c.args[0], s) if c.args else None))
            return None
        s.trace.append(Ev("delegate", c, callee=name, kwargs=kws))
        return None

    def for_loop(self, st, s):
        it = st.iter
        if isinstance(it, ast.Call) and call_name(it) == "fields" and len(it.args) == 1 and isinstance(st.target, ast.Name):
            t = self.ev(it.args[0], s)
            if t[0] == "type" and isinstance(t[1], ClassV) and self.L.is_dataclass(t[1]):
                flds = self.L.fields(t[1])
                s.trace.append(Ev("loop", st, over=t[1].name, count=len(flds)))
                states = [s]
                for fname, ftype in flds:
                    nxt = []
                    for x in states:
                        if x.status in ("return", "raise", "break"):
                            nxt.append(x)
                            continue
                        x.status = "run"
                        x.field = (fname, ftype)
                        x.env[st.target.id] = ("field", fname, ftype)
                        x.trace.append(Ev("iter", st, field=fname))
                        nxt.extend(self.block(st.body, [x]))
                    states = nxt
                for x in states:
                    if x.status in ("continue", "break"):
                        x.status = "run"
                    x.field = None
                return states
            # fields(<dynamic type>): one abstract iteration with an unknown field
            s.trace.append(Ev("loop", st, over=None, count=None))
            return self.abstract_iteration(st, s)
        return self.abstract_iteration(st, s)

    def abstract_iteration(self, st, s):
        """zero or one abstract pass through the body (the typestate rules need order, not count)."""
        zero = s.fork()
        for n in ast.walk(st.target) if hasattr(st, "target") else []:
            if isinstance(n, ast.Name):
                s.env[n.id] = ("sym", n.id)
        s.trace.append(Ev("iter", st, field=None))
        outs = self.block(st.body, [s])
        for x in outs:
            if x.status in ("continue", "break"):
                x.status = "run"
        zero.trace.append(Ev("skiploop", st))
        return outs + [zero]

    def while_loop(self, st, s):
        return self.abstract_iteration(st, s)

    # ------------------------------------------------------------------ conditions
    def decide(self, test, s):
        """yield (outcome, state) pairs; unknown atoms fork consistently."""
        if isinstance(test, ast.BoolOp):
            isand = isinstance(test.op, ast.And)
            results = []
            frontier = [(s, 0)]
            while frontier:
                cur, i = frontier.pop()
                if i == len(test.values):
                    results.append((isand, cur))
                    continue
                for outcome, nxt in self.decide(test.values[i], cur):
                    if outcome != isand:
                        results.append((outcome, nxt))  # short circuit
                    else:
                        frontier.append((nxt, i + 1))
            return results
        if isinstance(test, ast.UnaryOp) and isinstance(test.op, ast.Not):
            return [(not o, x) for o, x in self.decide(test.operand, s)]
        v = self.static_cond(test, s)
        if v is not None:
            return [(v, s)]
        key = self.cond_key(test, s)
        if key in s.decisions:
            return [(s.decisions[key], s)]
        if isinstance(test, ast.Call):
            try:
                s.decision_values[key] = self.ev(test, s)
            except AnalysisError:
                pass
        a, b = s, s.fork()
        a.decisions[key] = True
        b.decisions[key] = False
        return [(True, a), (False, b)]

    def cond_key(self, test, s):
        """the text a dynamic condition is remembered under.  A comparison of a decoded field with a layout constant
        (`values['tag'] != TPM_ST.SESSIONS`, or the same through a local that holds the field's decode result) gets one
        spelling, so the framing rules recognise it however the walker gets hold of the value."""
        if isinstance(test, ast.Compare) and len(test.ops) == 1 and isinstance(test.ops[0], (ast.Eq, ast.NotEq)):
            try:
                a, b = self.ev(test.left, s), self.ev(test.comparators[0], s)
            except AnalysisError:
                return norm(test)

            def field_of(v):
                if v[0] == "value" and isinstance(v[1], str):
                    return v[1]
                if v[0] == "result" and isinstance(v[1], tuple) and v[2] == 1 and isinstance(v[1][0], str):
                    return v[1][0]
                return None
            for x, y, y_node in ((a, b, test.comparators[0]), (b, a, test.left)):
                f = field_of(x)
                const_like = y[0] == "member" or (isinstance(y_node, ast.Attribute) and isinstance(y_node.value, ast.Name)
                                                  and y_node.value.id.isupper() and y_node.attr.isupper())
                if f is not None and const_like:
                    return f"values['{f}'] {'==' if isinstance(test.ops[0], ast.Eq) else '!='} {norm(y_node)}"
        return norm(test)

    def region_member(self, region_expr, list_expr, s):
        """is the region registered in the list?  Decided for regions created in this walker: such an object is in a list
        exactly if a registration of it in that list lies on the trace (a list handed in by the caller cannot hold it)."""
        a, b = self.ev(region_expr, s), self.ev(list_expr, s)
        if a[0] != "region" or b[0] not in ("rlist", "param"):
            return None
        if not any(e.kind == "create" and e.data.get("region") == a[1] for e in s.trace):
            return None
        return any(e.kind == "register" and e.data.get("region") == a[1] and e.data.get("list") == b[1] for e in s.trace)

    def static_cond(self, test, s):
        if isinstance(test, ast.Constant):
            return bool(test.value)
        if isinstance(test, ast.Call) and call_name(test) == "any" and len(test.args) == 1 and isinstance(test.args[0], ast.GeneratorExp):
            g = test.args[0]
            if len(g.generators) == 1 and not g.generators[0].ifs and isinstance(g.generators[0].target, ast.Name) and \
                    isinstance(g.elt, ast.Compare) and len(g.elt.ops) == 1 and isinstance(g.elt.ops[0], (ast.Is, ast.Eq)):
                c = g.generators[0].target.id
                l, r = g.elt.left, g.elt.comparators[0]
                other = r if isinstance(l, ast.Name) and l.id == c else l if isinstance(r, ast.Name) and r.id == c else None
                if other is not None:
                    m = self.region_member(other, g.generators[0].iter, s)
                    if m is not None:
                        return m
        if isinstance(test, ast.Compare) and len(test.ops) == 1 and isinstance(test.ops[0], (ast.In, ast.NotIn)):
            m = self.region_member(test.left, test.comparators[0], s)
            if m is not None:
                return m if isinstance(test.ops[0], ast.In) else not m
        if isinstance(test, ast.Compare) and len(test.ops) == 1:
            op = test.ops[0]
            a, b = self.ev(test.left, s), self.ev(test.comparators[0], s)
            if isinstance(op, (ast.In, ast.NotIn)):
                rhs = test.comparators[0]
                if a[0] == "const" and isinstance(rhs, ast.Dict) and all(isinstance(x, ast.Constant) for x in rhs.keys):
                    r = a[1] in [x.value for x in rhs.keys]
                    return r if isinstance(op, ast.In) else not r
                if b[0] == "dict" and a[0] == "const":
                    r = a[1] in s.values.get(b[1], set())
                    return r if isinstance(op, ast.In) else not r
                if a[0] == "const" and b[0] == "const" and isinstance(b[1], tuple):
                    r = a[1] in b[1]
                    return r if isinstance(op, ast.In) else not r
                if a[0] == "const" and b[0] == "ldict":
                    r = any(k == a[1] for k in b[1].keys())
                    return r if isinstance(op, ast.In) else not r
                if b[0] == "emptydict":
                    return isinstance(op, ast.NotIn)
                if b[0] == "cset" and a[0] == "const":
                    r = a[1] in b[1]
                    return r if isinstance(op, ast.In) else not r
                if b[0] == "kwdict" and a[0] == "const":
                    r = any(x[0] == a[1] for x in b[1])
                    return r if isinstance(op, ast.In) else not r
                return None
            if isinstance(op, (ast.Is, ast.IsNot)):
                if a[0] == "type" and b[0] == "type":
                    r = a[1] is b[1]
                    return r if isinstance(op, ast.Is) else not r
                if a[0] in ("tabletype",) and b[0] == "type":
                    return isinstance(op, ast.IsNot)
                if b == ("const", None) and a[0] in ("const", "region", "type", "tabletype", "result", "tuple"):
                    r = a == ("const", None)
                    return r if isinstance(op, ast.Is) else not r
                return None
            if isinstance(op, (ast.Eq, ast.NotEq)) and a[0] == "const" and b[0] == "const":
                r = a[1] == b[1]
                return r if isinstance(op, ast.Eq) else not r
            return None
        if isinstance(test, ast.Call) and call_name(test) == "is_list" and len(test.args) == 1:
            a = self.ev(test.args[0], s)
            if a[0] == "type":
                return isinstance(a[1], ListT)
            return None
        if isinstance(test, ast.Call) and call_name(test) == "hasattr" and len(test.args) == 2:
            a, b = self.ev(test.args[0], s), self.ev(test.args[1], s)
            if a[0] == "type" and isinstance(a[1], ClassV) and b[0] == "const":
                return a[1].has(b[1])
            return None
        if isinstance(test, ast.Name):
            v = self.ev(test, s)
            if v[0] == "const":
                return bool(v[1])
            return None
        return None

    # ------------------------------------------------------------------ expressions
    def ev(self, e, s):
        if e is None:
            return ("const", None)
        if isinstance(e, ast.Constant):
            return ("const", e.value)
        if isinstance(e, ast.Name):
            if e.id in s.env:
                return s.env[e.id]
            if e.id == "Any":
                return ("type", ANY)
            t = self.global_type(e.id)
            if t is not None:
                return ("type", t)
            return ("global", e.id)
        if isinstance(e, (ast.Tuple, ast.List)):
            items = [self.ev(x, s) for x in e.elts]
            if all(i[0] == "const" for i in items):
                return ("const", tuple(i[1] for i in items))
            return ("tuple", tuple(items))
        if isinstance(e, ast.Attribute):
            b = self.ev(e.value, s)
            if b[0] == "field":
                if e.attr == "name":
                    return ("const", b[1])
                if e.attr == "type":
                    return ("type", b[2])
            if b[0] == "type" and isinstance(b[1], ClassV):
                v = b[1].lookup(e.attr)
                if isinstance(v, DictV):
                    return ("ldict", v, f"{b[1].name}.{e.attr}")
                if isinstance(v, EnumMember):
                    return ("member", v.cls.name, v.name, v.value)
                if isinstance(v, TupleV) and all(isinstance(x, (str, int)) for x in v.items):
                    return ("const", tuple(v.items))   # a table of names kept on the layout class
                if e.attr == "__name__":
                    return ("const", b[1].name)
            if b[0] == "global":
                return ("global", f"{b[1]}.{e.attr}")
            return ("attr", b, e.attr)
        if isinstance(e, ast.Subscript) and isinstance(e.value, ast.Dict) and e.value.keys and \
                all(isinstance(x, ast.Constant) for x in e.value.keys):
            # a lookup in a literal table with a key that is known for this layout
            k = self.ev(e.slice, s)
            if k[0] == "const":
                for kx, vx in zip(e.value.keys, e.value.values):
                    if kx.value == k[1]:
                        return self.ev(vx, s)
                return ("missing", "<literal table>", k[1])
        if isinstance(e, ast.Subscript) and isinstance(e.value, ast.Dict) and e.value.keys and \
                all(isinstance(x, (ast.Name, ast.Attribute)) for x in e.value.keys):
            # a literal table keyed by types / members (`{Command: (...), Response: (...)}[tpm_type]`)
            k = self.ev(e.slice, s)
            if k[0] in ("type", "member"):
                hits = [vx for kx, vx in zip(e.value.keys, e.value.values) if self.ev(kx, s) == k]
                if len(hits) == 1:
                    return self.ev(hits[0], s)
                if not hits and all(self.ev(kx, s)[0] == k[0] for kx in e.value.keys):
                    return ("missing", "<literal table>", render(k))
        if isinstance(e, ast.Subscript):
            b = self.ev(e.value, s)
            k = self.ev(e.slice, s)
            if b[0] == "ldict":
                if k[0] == "const":
                    v = b[1].get(k[1])
                    if isinstance(v, str):
                        return ("const", v)
                    if isinstance(v, DictV):
                        return ("ldict", v, self.L.table_name(v))
                    if v is None:
                        return ("missing", b[2], k[1])
                    return ("sym", norm(e))
                return ("tabletype", b[2], k)
            if b[0] == "dict":
                if k[0] == "const":
                    if k[1] not in s.values.get(b[1], set()):
                        s.trace.append(Ev("unbound_key", e, key=k[1], dict=b[1]))
                    return ("value", k[1])
                return ("value", render(k))
            return ("index", b, k)
        if isinstance(e, ast.BinOp) and isinstance(e.op, (ast.Div, ast.Add)):
            return ("path", self.ev(e.left, s), self.ev(e.right, s))
        if isinstance(e, (ast.BoolOp, ast.Call, ast.IfExp)):
            er = self.enc_request(e, s)
            if er is not None:
                return er
        if isinstance(e, ast.BoolOp) and isinstance(e.op, ast.Or) and len(e.values) == 2 and \
                isinstance(e.values[1], ast.Constant) and e.values[1].value is None:
            return ("ornone", self.ev(e.values[0], s))
        if isinstance(e, ast.Call):
            name = call_name(e)
            if name == "getattr" and len(e.args) in (2, 3) and isinstance(e.args[1], ast.Constant) and isinstance(e.args[1].value, str):
                b = self.ev(e.args[0], s)
                if b[0] == "type" and isinstance(b[1], ClassV):
                    if b[1].has(e.args[1].value):
                        return self.ev(ast.Attribute(value=e.args[0], attr=e.args[1].value, ctx=ast.Load()), s)
                    if len(e.args) == 3:
                        return self.ev(e.args[2], s)
            if name == "PathNode":
                a = e.args[0] if e.args else kwarg(e, "name")
                return ("pathnode", self.ev(a, s))
            if name in ("set", "frozenset") and not e.keywords and len(e.args) <= 1:
                # a set of names kept by the walker (which fields are absent ...): tracked when its contents are constants
                if not e.args:
                    return ("cset", frozenset())
                a0 = self.ev(e.args[0], s)
                if a0[0] == "const" and isinstance(a0[1], tuple):
                    return ("cset", frozenset(a0[1]))
            if name == "is_parameter_encryption":
                kws = tuple(sorted((k.arg, self.ev(k.value, s)) for k in e.keywords if k.arg))
                args = tuple(self.ev(a, s) for a in e.args)
                return ("penc", kws, args)
            if name == "next" and e.args and isinstance(e.args[0], ast.GeneratorExp):
                return ("sym", norm(e)[:80])
            return ("call", name, tuple(self.ev(a, s) for a in e.args),
                    tuple(sorted((k.arg, self.ev(k.value, s)) for k in e.keywords if k.arg)))
        if isinstance(e, ast.Dict) and not e.keys:
            return ("emptydict",)
        if isinstance(e, ast.Set) and all(isinstance(x, ast.Constant) for x in e.elts):
            return ("cset", frozenset(x.value for x in e.elts))
        if isinstance(e, ast.IfExp):
            c = self.static_cond(e.test, s)
            if c is None and isinstance(e.test, ast.BoolOp):
                vals = [self.static_cond(v, s) for v in e.test.values]
                if isinstance(e.test.op, ast.And):
                    c = False if False in vals else (True if all(v is True for v in vals) else None)
                else:
                    c = True if True in vals else (False if all(v is False for v in vals) else None)
            if c is not None:
                return self.ev(e.body if c else e.orelse, s)
        return ("sym", norm(e)[:80])

    def global_type(self, name):
        L = self.L
        if name == "Command":
            return L.Command
        if name == "Response":
            return L.Response
        if name == L.Stream.name:
            return L.Stream
        c = L.struct_types.get(name)
        if c is not None:
            return c
        if name == "TPMS_PARAMS":
            return L.TPMS_PARAMS
        return None
