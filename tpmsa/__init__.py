"""tpmsa - repository-specific static analysis of joholl/tpmstream (properties C01-C20)."""
