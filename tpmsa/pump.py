"""Typestate analysis of the byte pump `marshal()` (shared by C05, C10, C13, C06, C08).

Abstract state (B, D, E, W):
  B  look-ahead byte:  INIT (nothing pulled yet) | FRESH (pulled, not yet pushed) | SENT (pushed) | EMPTY (the variable holds
     the None that `next(it, None)` gave for an exhausted source - only in pumps that use the variable itself as the marker)
  D  depleted flag / source iterator exhausted (correlated: D is set exactly where next() raised)
  E  last thing the processor yielded: NONE (= asks for a byte) | EVENT
  W  the pump itself has yielded a warning (it is about to return in warn mode)
The analysis runs to a fixpoint over the pump's CFG (exception edges included); nothing is executed.
"""
from __future__ import annotations

import ast

from .cfg import CFG, Node, catcher, run_typestate
from .flow import ExcHierarchy, ReachingDefs
from .project import AnalysisError, call_name, norm, walk_no_nested
from .roles import MarshalRoles


class PumpFacts:
    def __init__(self):
        self.send_byte = []  # (node, state)
        self.send_none = []
        self.send_other = []
        self.cleared = []  # (node, state): look-ahead variable reset to None
        self.next = []
        self.yields = []  # (node, state, what)
        self.returns = []  # (node, state)
        self.raises = []  # (node, state, class)
        self.attach = []  # (node, state, expr, via)
        self.asserts = []  # (node, state, ok)
        self.stopiter_escape = []  # (node, state): StopIteration of send() not caught
        self.loop_exit = []  # (node, state)
        self.errors_built = []  # (node, class, call)


def analyse(project, roles: MarshalRoles = None):
    roles = roles or MarshalRoles(project)
    fn = roles.pump
    cfg = CFG(fn)
    rd = ReachingDefs(cfg)
    hier = ExcHierarchy(project)
    F = PumpFacts()
    F.cfg, F.rd, F.roles, F.hier = cfg, rd, roles, hier
    proc, it, byte, ev, dep = roles.proc_var, roles.iter_var, roles.byte_var, roles.event_var, roles.depleted_var

    def classify_send(call):
        if len(call.args) != 1:
            raise AnalysisError("pump: send() with unexpected arguments")
        a = call.args[0]
        if isinstance(a, ast.Name) and a.id == byte:
            return "byte"
        if isinstance(a, ast.Constant) and a.value is None:
            return "none"
        if isinstance(a, ast.Name):
            # a fresh copy of the look-ahead variable (`sent = lookahead; processor.send(sent)`): every definition of the
            # argument that reaches the send is such a copy, and the look-ahead variable was not re-bound in between
            node = cfg.node_of(call)
            if node is not None:
                defs = rd.reaching(node, a.id)
                ok = bool(defs)
                for d in defs:
                    rec = rd.defs[d.id].get(a.id)
                    if not (rec and rec[0] == "expr" and isinstance(rec[1], ast.Name) and rec[1].id == byte):
                        ok = False
                        break
                    if {x.id for x in rd.reaching(node, byte)} != {x.id for x in rd.reaching(d, byte)}:
                        ok = False
                        break
                if ok:
                    return "byte"
        return "other"

    def raised_class(node):
        exc = node.ast.exc
        if exc is None:
            h = node.ast
            while h is not None and not isinstance(h, ast.ExceptHandler):
                h = getattr(h, "_parent", None)
            return norm(h.type) if h is not None and h.type is not None else "Exception"
        if isinstance(exc, ast.Call):
            return call_name(exc) or "Exception"
        if isinstance(exc, ast.Name):
            recs = rd.value_exprs(node, exc.id)
            classes = set()
            for r in recs:
                if r[0] == "handler":
                    classes.add(norm(r[1].type) if r[1].type is not None else "Exception")
                elif r[0] == "expr" and isinstance(r[1], ast.Call):
                    classes.add(call_name(r[1]) or "Exception")
                else:
                    classes.add("Exception")
            if len(classes) == 1:
                return classes.pop()
            raise AnalysisError(f"pump: cannot resolve the class raised at line {node.lineno}: {classes}")
        return "Exception"

    def exc_edge(node, cls, st):
        return (catcher(cfg, node, cls, hier.is_subclass), st)

    def refine_test(test, st, outcome):
        """-> refined state or None if this outcome is infeasible in st."""
        B, D, E, W = st
        t = test
        neg = False
        while isinstance(t, ast.UnaryOp) and isinstance(t.op, ast.Not):
            neg = not neg
            t = t.operand
        if isinstance(t, ast.Constant):
            return st if (bool(t.value) != neg) == outcome else None
        if dep is not None and isinstance(t, ast.Name) and t.id == dep:
            val = D != neg
            return st if val == outcome else None
        if isinstance(t, ast.Compare) and len(t.ops) == 1 and isinstance(t.left, ast.Name) and t.left.id == byte \
                and isinstance(t.ops[0], (ast.Is, ast.IsNot)) and isinstance(t.comparators[0], ast.Constant) \
                and t.comparators[0].value is None:
            isnone = isinstance(t.ops[0], ast.Is)
            val = ((B in ("INIT", "EMPTY")) == isnone) != neg
            return st if val == outcome else None
        if isinstance(t, ast.Compare) and len(t.ops) == 1 and isinstance(t.left, ast.Name) and t.left.id == ev \
                and isinstance(t.comparators[0], ast.Constant) and t.comparators[0].value is None:
            isnone = isinstance(t.ops[0], ast.Is)
            if not isinstance(t.ops[0], (ast.Is, ast.IsNot)):
                return st
            val = ((E == "NONE") == isnone) != neg
            return st if val == outcome else None
        if isinstance(t, ast.BoolOp) and isinstance(t.op, ast.And) and not neg:
            if outcome:
                for v in t.values:
                    st = refine_test(v, st, True)
                    if st is None:
                        return None
                return st
            return st  # some conjunct false: no refinement
        return st

    def transfer(node: Node, st):
        B, D, E, W = st
        out = []
        if node.kind in ("entry", "handler"):
            if node.kind == "handler":
                # handler of next(): the depleted flag is assigned in its body (ordinary statements)
                pass
            return [(s, st) for _, s in node.succ]
        if node.kind == "test":
            for lab, s in node.succ:
                ns = refine_test(node.ast, st, lab == "true")
                if ns is not None:
                    out.append((s, ns))
            return out
        if node.kind == "for":
            return [(s, st) for _, s in node.succ]
        a = node.ast
        nxt = [s for lab, s in node.succ]
        # ---- classify the statement
        calls = [c for c in ([a.value] if isinstance(a, (ast.Assign, ast.Expr)) and isinstance(a.value, ast.Call) else [])]
        if isinstance(a, ast.Assign) and isinstance(a.value, ast.Call) and norm(a.value.func) == f"{proc}.send":
            kind = classify_send(a.value)
            if kind == "other":
                F.send_other.append((node, st))
                kind = "byte"
            (F.send_byte if kind == "byte" else F.send_none).append((node, st))
            nb = "SENT" if (kind == "byte" and B == "FRESH") else B
            for e2 in ("NONE", "EVENT"):
                for s in nxt:
                    out.append((s, (nb, D, e2, W)))
            tgt = catcher(cfg, node, "StopIteration", hier.is_subclass)
            if tgt is cfg.raise_exit:
                F.stopiter_escape.append((node, st, kind))
            out.append((tgt, (nb, D, E, W)))
            out.append(exc_edge(node, "ConstraintViolatedError", (nb, D, E, W)))
            return out
        if isinstance(a, ast.Assign) and isinstance(a.value, ast.Call) and call_name(a.value) == "next" \
                and a.value.args and norm(a.value.args[0]) == it:
            F.next.append((node, st))
            if not D:
                for s in nxt:
                    out.append((s, ("FRESH", D, E, W)))
            if len(a.value.args) == 2:
                # next(it, None): an exhausted source gives the default - the variable itself marks depletion
                if B == "FRESH":
                    F.cleared.append((node, st))
                for s in nxt:
                    out.append((s, ("EMPTY", True, E, W)))
                return out
            out.append(exc_edge(node, "StopIteration", st))
            return out
        if isinstance(a, ast.Assign) and len(a.targets) == 1 and isinstance(a.targets[0], ast.Name):
            tname = a.targets[0].id
            if dep is not None and tname == dep:
                if not (isinstance(a.value, ast.Constant) and isinstance(a.value.value, bool)):
                    raise AnalysisError(f"pump: depleted flag assigned a non-constant at line {a.lineno}")
                # the flag may only become True where next() has just raised (correlation)
                F.asserts.append((node, st, "flag", a.value.value))
                return [(s, (B, a.value.value, E, W)) for s in nxt]
            if tname == ev:
                if isinstance(a.value, ast.Constant) and a.value.value is None:
                    return [(s, (B, D, "NONE", W)) for s in nxt]
                raise AnalysisError(f"pump: event variable assigned from `{norm(a.value)}` at line {a.lineno}")
            if tname == byte:
                if isinstance(a.value, ast.Constant) and a.value.value is None and B == "INIT":
                    return [(s, st) for s in nxt]
                if isinstance(a.value, ast.Constant) and a.value.value is None:
                    # the variable stops holding a byte: harmless after the byte was consumed (SENT), a dropped byte
                    # while it is still unconsumed (FRESH) - recorded for C10-T1 / C13
                    F.cleared.append((node, st))
                    return [(s, ("INIT", D, E, W)) for s in nxt]
                raise AnalysisError(f"pump: look-ahead variable assigned from `{norm(a.value)}` at line {a.lineno}")
            if tname in (proc, it):
                if B != "INIT":
                    raise AnalysisError(f"pump: {tname} re-bound inside the loop at line {a.lineno}")
        if isinstance(a, ast.Assert):
            t = a.test
            if isinstance(t, ast.Compare) and isinstance(t.left, ast.Name) and t.left.id == ev:
                ok = refine_test(t, st, True) is not None
                F.asserts.append((node, st, "assert", ok))
                if not ok:
                    return []
            return [(s, st) for s in nxt]
        if isinstance(a, ast.Expr) and isinstance(a.value, (ast.Yield, ast.YieldFrom)):
            v = a.value.value
            what = "event" if isinstance(v, ast.Name) and v.id == ev else norm(v) if v is not None else "None"
            F.yields.append((node, st, what))
            if what != "event":
                return [(s, (B, D, E, True)) for s in nxt]
            return [(s, st) for s in nxt]
        if isinstance(a, ast.Return):
            F.returns.append((node, st))
            return [(cfg.exit, st)]
        if isinstance(a, ast.Raise):
            cls = raised_class(node)
            F.raises.append((node, st, cls))
            return [exc_edge(node, cls, st)]
        # attach sites: <err>.set_bytes_remaining(X)
        for c in [n for n in walk_no_nested(a) if isinstance(n, ast.Call)] + ([a.value] if isinstance(a, ast.Expr) and isinstance(a.value, ast.Call) else []):
            if isinstance(c.func, ast.Attribute) and c.func.attr == "set_bytes_remaining" and len(c.args) == 1:
                if not any(c is x[2] for x in F.attach if x[0] is node and x[1] == st):
                    F.attach.append((node, st, c, "set_bytes_remaining"))
            if call_name(c) and any(k.arg == "bytes_remaining" for k in c.keywords):
                kw = next(k for k in c.keywords if k.arg == "bytes_remaining")
                if not any(kw is x[2] for x in F.attach if x[0] is node and x[1] == st):
                    F.attach.append((node, st, kw, call_name(c)))
        return [(s, st) for s in nxt]

    F.states = run_typestate(cfg, ("INIT", False, "NONE", False), transfer)
    F.loop_exit = []
    return F


def expr_of_attach(F: PumpFacts, node, expr):
    """Resolve the attached expression to its constituents: returns ('iter',) | ('chain', [items])
    after following single-definition locals and bytes(...) wrappers."""
    roles, rd = F.roles, F.rd
    e = expr.args[0] if isinstance(expr, ast.Call) else expr.value
    depth = 0
    while depth < 8:
        depth += 1
        if isinstance(e, ast.Name):
            if e.id == roles.iter_var:
                return ("iter",)
            d = rd.single_expr(node, e.id)
            if d is None:
                raise AnalysisError(f"pump: cannot resolve `{e.id}` attached at line {node.lineno}")
            e = d
            continue
        if isinstance(e, ast.Call) and call_name(e) in ("bytes", "bytearray", "iter", "list", "tuple") and len(e.args) == 1:
            e = e.args[0]
            continue
        if isinstance(e, ast.Call) and call_name(e) in ("itertools.chain", "chain"):
            items = []
            for a in e.args:
                if isinstance(a, (ast.Tuple, ast.List)):
                    items.extend(("elt", norm(x)) for x in a.elts)
                elif isinstance(a, ast.Name) and a.id == roles.iter_var:
                    items.append(("iter",))
                else:
                    items.append(("other", norm(a)))
            return ("chain", items)
        break
    return ("other", norm(e))
