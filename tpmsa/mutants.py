"""Mutant corpus for the both-ways self-test.

Every entry: id, props (properties whose check must fire), rule (expected rule id, optionally per
property), edits [(path, old, new[, expected occurrence count])], names (fragment the report must
contain), benign (True for twins that must stay silent on every listed property).
"""

S = "src/tpmstream/"
MARSHAL = S + "io/binary/marshal.py"
CONSTR = S + "common/constraints.py"
VALUES = S + "spec/common/values.py"
BASE = S + "spec/common/base_type.py"
RC = S + "spec/common/tpm_rc.py"
ATTR = S + "spec/structures/attribute_structures.py"
STRUCT = S + "spec/structures/structures.py"
ALGO = S + "spec/structures/algorithm_parameters_and_structures.py"
CONST = S + "spec/structures/constants.py"
IFACE = S + "spec/structures/interface_types.py"
HANDLES = S + "spec/structures/handles.py"
BASET = S + "spec/structures/base_types.py"
NV = S + "spec/structures/nv_storage_structures.py"
CMDP = S + "spec/commands/commands_params.py"
CMDH = S + "spec/commands/commands_handles.py"
RSPP = S + "spec/commands/responses_params.py"
RSPH = S + "spec/commands/responses_handles.py"
CMDI = S + "spec/commands/__init__.py"
PRETTY = S + "io/pretty/unmarshal.py"
EVENTS = S + "io/events/unmarshal.py"
OBJECT = S + "common/object.py"
MAIN = S + "__main__.py"
HEX = S + "io/hex/marshal.py"
SWTPM = S + "io/swtpm_log/marshal.py"
PCAP = S + "io/pcapng/marshal.py"
AUTO = S + "io/auto/marshal.py"
PARAMS = S + "spec/commands/params_common.py"
BINUN = S + "io/binary/unmarshal.py"

MUTANTS = [
    # ------------------------------------------------------------------ C17
    dict(id="c17-overlap", props=["C17"], rule="M1", names="TPMA_OBJECT",
         edits=[(ATTR, "    stClear = 0x00000004\n", "    stClear = 0x00000006\n")]),
    dict(id="c17-hole", props=["C17"], rule="M1", names="TPMA_NV",
         edits=[(NV, "    reserved0 = 0x00000300\n", "    reserved0 = 0x00000100\n")]),
    dict(id="c17-locality-regress", props=["C17"], rule="M1", names="TPMA_LOCALITY",
         edits=[(ATTR, "    extended = 0xE0\n", "    extended = 0x60\n")]),
    dict(id="c17-wide-mask", props=["C17"], rule="M1", names="TPMA_SESSION",
         edits=[(ATTR, "    audit = 0x80\n", "    audit = 0x180\n")]),
    dict(id="c17-accessor-noshift", props=["C17"], rule="M2", names="shift",
         edits=[(VALUES, "                            bits >>= 1\n", "                            pass\n")]),
    dict(id="c17-accessor-nomask", props=["C17"], rule="M2",
         edits=[(VALUES, "bits = obj._value & self._mask", "bits = obj._value")]),
    dict(id="c17-row-inverted", props=["C17"], rule="M2", names="rows",
         edits=[(PRETTY, '            "." if m == "0" else v for m, v in zip(mask_padded, value_padded)', '            "." if m == "1" else v for m, v in zip(mask_padded, value_padded)')]),
    dict(id="c17-row-padding", props=["C17"], rule="M2", names="rows",
         edits=[(PRETTY, "        bit_size = size * 8\n", "        bit_size = size * 4\n")]),
    dict(id="c17-row-skip", props=["C17"], rule="M2",
         edits=[(PRETTY, "        mask = attribute._value\n", "        mask = attribute._value\n        if mask == 1:\n            continue\n")]),
    dict(id="c17-benign-reorder", props=["C17", "C20"], benign=True,
         edits=[(ATTR, "    continueSession = 0x01\n    auditExclusive = 0x02\n", "    auditExclusive = 0x02\n    continueSession = 0x01\n")]),
    # ------------------------------------------------------------------ C18
    dict(id="c18-param-bit", props=["C18"], rule="N1", names="__format__",
         edits=[(RC, "mask_fmt0_param = 0x40", "mask_fmt0_param = 0x20")]),
    dict(id="c18-swap-maps", props=["C18"], rule="N1",
         edits=[(RC, "                name, _description = TPM_RC_FMT0_WARN_MAP[self._value & mask_fmt1_code]",
                 "                name, _description = TPM_RC_FMT0_ERROR_MAP[self._value & mask_fmt1_code]")]),
    dict(id="c18-rename", props=["C18"], rule="N2", names="0x3",
         edits=[(RC, '0x003: ("SEQUENCE"', '0x003: ("SEQUENCES"')]),
    dict(id="c18-handle-mask", props=["C18"], rule="N1",
         edits=[(RC, "mask_fmt0_handle_num = 0x700", "mask_fmt0_handle_num = 0xF00")]),
    dict(id="c18-vendor-order", props=["C18"], rule="N1",
         edits=[(RC, "            if self.are_bits_set(mask_fmt1_vendor):\n                return f\"{type(self).__name__}.UNKNOWN (Vendor-defined)\"\n",
                 "            if self.are_bits_set(mask_fmt1_vendor) and self.are_bits_unset(mask_fmt1_spec_warning):\n                return f\"{type(self).__name__}.UNKNOWN (Vendor-defined)\"\n")]),
    dict(id="c18-row-overlap", props=["C18"], rule="N1", names="attributes",
         edits=[(RC, 'bits.append(TPM_RC(mask_fmt1_reserved, name="reserved1"))', 'bits.append(TPM_RC(0x300, name="reserved1"))')]),
    dict(id="c18-helper", props=["C18"], rule="N1", names="are_bits_set",
         edits=[(RC, "return bool(self._value & mask == mask)", "return bool(self._value & mask != 0)")]),
    dict(id="c18-dup-key", props=["C18"], rule="N2",
         edits=[(RC, '        0x00B: ("PRIVATE", "not currently used"),', '        0x00B: ("PRIVATE", "not currently used"),\n        0x003: ("PRIVATE", "shadow"),')]),
    dict(id="c18-attr-disagree", props=["C18"], rule="N1", names="attributes",
         edits=[(RC, "        name, description = TPM_RC_FMT1_MAP[self._value & mask_fmt0_code]\n        bits.append(",
                 "        name, description = TPM_RC_FMT1_MAP[self._value & mask_fmt1_code]\n        bits.append(")]),
    dict(id="c18-benign-rename-local", props=["C18"], benign=True,
         edits=[(RC, "            param_num = (self._value & mask_fmt0_param_num) >> shift_fmt0_param_num\n            details = f\"Parameter No. {param_num}\"",
                 "            pnum = (self._value & mask_fmt0_param_num) >> shift_fmt0_param_num\n            details = f\"Parameter No. {pnum}\"")]),
    # ------------------------------------------------------------------ C20 (tables)
    dict(id="c20-swap-fields", props=["C20", "C01"], rule={"C20": "T6", "C01": "W0"}, names="TPMS_NV_CERTIFY_INFO",
         edits=[(STRUCT, "    indexName: TPM2B_NAME\n    offset: UINT16\n", "    offset: UINT16\n    indexName: TPM2B_NAME\n")]),
    dict(id="c20-width", props=["C20", "C01"], rule={"C20": "T6", "C01": "W0"}, names="TPMS_CLOCK_INFO",
         edits=[(STRUCT, "    clock: UINT64\n", "    clock: UINT32\n")]),
    dict(id="c20-wrong-map", props=["C20"], rule="T1", names="PolicyNV",
         edits=[(CMDP, "    TPM_CC.PolicyNV: TPMS_COMMAND_PARAMS_POLICY_NV,", "    TPM_CC.PolicyNV: TPMS_COMMAND_PARAMS_POLICY_OR,")]),
    dict(id="c20-dup-key", props=["C20"], rule="T1", names="duplicate",
         edits=[(RSPP, "    TPM_CC.GetRandom: TPMS_RESPONSE_PARAMS_GET_RANDOM,", "    TPM_CC.GetRandom: TPMS_RESPONSE_PARAMS_GET_RANDOM,\n    TPM_CC.StirRandom: TPMS_RESPONSE_PARAMS_GET_RANDOM,")]),
    dict(id="c20-cc-number", props=["C20", "C04"], rule={"C20": "T6", "C04": "V5"}, names="TPM_CC",
         edits=[(CONST, "    Startup = 0x00000144\n", "    Startup = 0x00000145\n")]),
    dict(id="c20-list-size", props=["C20"], rule="T5", names="sha3_512",
         edits=[(STRUCT, '        "sha3_512": 64,\n    }\n    _selected_by', '    }\n    _selected_by')]),
    dict(id="c20-selector-later", props=["C20"], rule="T4", names="TPMT_HA",
         edits=[(STRUCT, '        "digest": "hashAlg",', '        "digest": "digest",')]),
    dict(id="c20-fourth-handle", props=["C20"], rule="T2", names="POLICY_SECRET",
         edits=[(CMDH, "class TPMS_COMMAND_HANDLES_POLICY_SECRET:\n", "class TPMS_COMMAND_HANDLES_POLICY_SECRET:\n    h0: TPMI_DH_OBJECT\n    h1: TPMI_DH_OBJECT\n")]),
    dict(id="c20-count-after-list", props=["C20"], rule="T3", names="TPML_DIGEST",
         edits=[(STRUCT, "class TPML_DIGEST:\n    count: UINT32\n    digests: list[TPM2B_DIGEST]\n", "class TPML_DIGEST:\n    digests: list[TPM2B_DIGEST]\n    count: UINT32\n")]),
    dict(id="c20-drop-valid", props=["C20", "C04"], rule={"C20": "T6", "C04": "V5"}, names="TPMI_RH_HIERARCHY",
         edits=[(IFACE, "class TPMI_RH_HIERARCHY(TPM_HANDLE):\n    _valid_values = ValidValues(\n        TPM_RH.OWNER,\n        TPM_RH.PLATFORM,\n        TPM_RH.ENDORSEMENT,\n        TPM_RH.NULL,  # TODO is optional\n",
                 "class TPMI_RH_HIERARCHY(TPM_HANDLE):\n    _valid_values = ValidValues(\n        TPM_RH.OWNER,\n        TPM_RH.PLATFORM,\n        TPM_RH.ENDORSEMENT,\n")]),
    dict(id="c20-range-bound", props=["C20", "C04"], rule={"C20": "T6", "C04": "V5"}, names="TPM_HR",
         edits=[(HANDLES, "PERSISTENT = range(0x81000000, 0x81FFFFFF)", "PERSISTENT = range(0x81000000, 0x82000000)")]),
    dict(id="c20-signed-base", props=["C20", "C16"], rule={"C20": "T6", "C16": "O3"}, names="INT32",
         edits=[(BASET, "class INT32(_INT):", "class INT32(_UINT):")]),
    dict(id="c20-uncovered-selector", props=["C20"], rule="T4", names="TPMU_KDF_SCHEME",
         edits=[(ALGO, "class TPMI_ALG_KDF_PLACEHOLDER", "class X", 0)], skip_if_missing=True),
    dict(id="c20-handles-subclass-params", props=["C20"], rule="T2",
         edits=[(RSPH, "@tpm_dataclass\nclass TPMS_RESPONSE_HANDLES_LOAD:\n", "from .params_common import TPMS_PARAMS\n\n\n@tpm_dataclass\nclass TPMS_RESPONSE_HANDLES_LOAD(TPMS_PARAMS):\n")]),
    dict(id="c20-namedrange-wrap", props=["C20"], rule="G", names="NamedRange",
         edits=[(VALUES, "cls, attr_name, attr_value.start, attr_value.stop\n", "cls, attr_name, attr_value.start, attr_value.stop + 1\n")]),
    dict(id="c20-benign-reorder-classes", props=["C20", "C01", "C04"], benign=True,
         edits=[(STRUCT, "@tpm_dataclass\nclass TPMS_EMPTY:\n    pass\n\n\n@tpm_dataclass\nclass TPMS_ALGORITHM_DESCRIPTION:\n    alg: TPM_ALG_ID\n    attributes: TPMA_ALGORITHM\n",
                 "@tpm_dataclass\nclass TPMS_ALGORITHM_DESCRIPTION:\n    alg: TPM_ALG_ID\n    attributes: TPMA_ALGORITHM\n\n\n@tpm_dataclass\nclass TPMS_EMPTY:\n    pass\n")]),
    dict(id="c20-benign-new-struct", props=["C20", "C01"], benign=True,
         edits=[(STRUCT, "@tpm_dataclass\nclass TPMS_EMPTY:\n    pass\n", "@tpm_dataclass\nclass TPMS_EMPTY:\n    pass\n\n\n@tpm_dataclass\nclass TPMS_UNREFERENCED_EXTRA:\n    a: UINT16\n    b: UINT32\n")]),
]

PUMP_MUTANTS = [
    # ------------------------------------------------------------------ C13
    dict(id="c13-stale-regress", props=["C13"], rule="A1", names="stale",
         edits=[(MARSHAL, """                if buffer_depleted:
                    # the look-ahead byte was already consumed by the processor
                    bytes_remaining = b""
                else:
                    bytes_remaining = bytes(itertools.chain((byte,), buffer_iter))
""", """                bytes_remaining = bytes(itertools.chain((byte,), buffer_iter))
""")]),
    dict(id="c13-prepend-on-send", props=["C13"], rule="A1", names="stale",
         edits=[(MARSHAL, "            error.set_bytes_remaining(buffer_iter)\n", "            error.set_bytes_remaining(itertools.chain((byte,), buffer_iter))\n")]),
    dict(id="c13-drop-fresh", props=["C13"], rule="A1", names="dropped",
         edits=[(MARSHAL, "                    bytes_remaining = bytes(itertools.chain((byte,), buffer_iter))\n                error.set_bytes_remaining",
                 "                    bytes_remaining = bytes(buffer_iter)\n                error.set_bytes_remaining")]),
    dict(id="c13-no-attach", props=["C13"], rule="A2",
         edits=[(MARSHAL, "            error.set_bytes_remaining(buffer_iter)\n            raise error", "            raise error")]),
    dict(id="c13-raise-before-skip", props=["C13"], rule="A3",
         edits=[(CONSTR, "                yield from consume_bytes(self.size_max - self.size_already)\n                raise SizeConstraintExceededError(", "                raise SizeConstraintExceededError(")]),
    dict(id="c13-benign-ifexp", props=["C13", "C05", "C10"], benign=True,
         edits=[(MARSHAL, """                if buffer_depleted:
                    # the look-ahead byte was already consumed by the processor
                    bytes_remaining = b""
                else:
                    bytes_remaining = bytes(itertools.chain((byte,), buffer_iter))
""", """                bytes_remaining = b"" if buffer_depleted else bytes(itertools.chain((byte,), buffer_iter))
""")]),
    dict(id="c13-benign-rename", props=["C13", "C05", "C10"], benign=True,
         edits=[(MARSHAL, "buffer_iter", "src_it", 0), (MARSHAL, "buffer_depleted", "exhausted", 0)]),
    # ------------------------------------------------------------------ C05
    dict(id="c05-absorb-surplus", props=["C05"], rule="E1", names="return obj",
         edits=[(MARSHAL, """                    if abort_on_error:
                        raise error
                    else:
                        yield WarningEvent(error=error)
                        return obj
""", """                    return obj
""")]),
    dict(id="c05-drop-cc", props=["C05"], rule="E2", names="InputStreamBytesDepletedError",
         edits=[(MARSHAL, "    error = InputStreamBytesDepletedError(command_code=command_code)", "    error = InputStreamBytesDepletedError()")]),
    dict(id="c05-silent-regress", props=["C05"], rule="E3", names="stream-type",
         edits=[(MARSHAL, "                    tpm_type is CommandResponseStream\n                    and buffer_depleted", "                    buffer_depleted")]),
    dict(id="c05-absorb-depleted", props=["C05"], rule="E1", names="warning",
         edits=[(MARSHAL, "    error = InputStreamBytesDepletedError(command_code=command_code)\n    if abort_on_error:\n        raise error",
                 "    error = InputStreamBytesDepletedError(command_code=command_code)\n    if abort_on_error and command_code is not None:\n        raise error")]),
    dict(id="c05-surplus-without-lookahead", props=["C05"], rule="E1", names="bytes_remaining",
         edits=[(MARSHAL, "                    bytes_remaining = bytes(itertools.chain((byte,), buffer_iter))\n                    error = InputStreamSuperfluousBytesError(",
                 "                    bytes_remaining = bytes(buffer_iter)\n                    error = InputStreamSuperfluousBytesError(")]),
    dict(id="c05-cc-from-any-event", props=["C05"], rule="E2",
         edits=[(MARSHAL, "                if event.path == command_code_path:\n                    command_code = event.value", "                if event.path[-1].name.endswith(\"Code\"):\n                    command_code = event.value")]),
    # ------------------------------------------------------------------ C10
    dict(id="c10-double-pull", props=["C10"], rule="T1",
         edits=[(MARSHAL, "            byte = next(buffer_iter)\n", "            byte = next(buffer_iter)\n            byte = next(buffer_iter)\n")]),
    dict(id="c10-discard-pull", props=["C10"], rule="T1",
         edits=[(MARSHAL, "            byte = next(buffer_iter)\n", "            byte = next(buffer_iter)\n            next(buffer_iter, None)\n")]),
    dict(id="c10-materialise", props=["C10"], rule="T2", names="bytes(buffer)",
         edits=[(MARSHAL, "    buffer_iter = iter(buffer)\n", "    buffer = bytes(buffer)\n    buffer_iter = iter(buffer)\n")]),
    dict(id="c10-len", props=["C10"], rule="T2",
         edits=[(HEX, "    buffer = iter(buffer)\n", "    if len(buffer) % 2:\n        pass\n    buffer = iter(buffer)\n")]),
    dict(id="c10-hand-iterator", props=["C10"], rule="T3",
         edits=[(MARSHAL, "            event = processor.send(byte)\n", "            event = processor.send((byte, buffer_iter)[0])\n")]),
    dict(id="c10-late-event", props=["C10"], rule="T1", names="byte request after event",
         edits=[(MARSHAL, "    none = yield event\n    assert none is None\n\n    if error:", "    none = yield event\n    assert none is None\n    _peek = yield None\n\n    if error:")]),
    dict(id="c10-prefetch-list", props=["C10"], rule="T1",
         edits=[(MARSHAL, "    command_code = None\n    byte = None\n", "    command_code = None\n    prefetched = list(buffer_iter)\n    buffer_iter = iter(prefetched)\n    byte = None\n")]),
]
MUTANTS += PUMP_MUTANTS

MODE_MUTANTS = [
    dict(id="c07-omit-thread", props=["C07"], rule="NI-2", names="process_tpms",
         edits=[(MARSHAL, """                selector=selector_value,
                size_constraints=size_constraints,
                abort_on_error=abort_on_error,
""", """                selector=selector_value,
                size_constraints=size_constraints,
""")]),
    dict(id="c07-const-thread", props=["C07"], rule="NI-2", names="process_array",
         edits=[(MARSHAL, """            parent_path / child_node,
            size_constraints=size_constraints,
            abort_on_error=abort_on_error,
        )
        elements.append(element)""", """            parent_path / child_node,
            size_constraints=size_constraints,
            abort_on_error=True,
        )
        elements.append(element)""")]),
    dict(id="c07-early-return", props=["C07"], rule="NI-1", names="process_tpmu",
         edits=[(MARSHAL, "    # TODO _selected_by\n", "    if not abort_on_error:\n        return 0, None\n    # TODO _selected_by\n")]),
    dict(id="c07-new-error-object", props=["C07"], rule="NI-3", names="assert_done",
         edits=[(CONSTR, "        if abort_on_error:\n            raise error\n        yield WarningEvent(error=error)\n\n        yield from consume_bytes",
                 "        if abort_on_error:\n            raise error\n        yield WarningEvent(error=SizeConstraintSubceededError(self))\n\n        yield from consume_bytes")]),
    dict(id="c07-drop-warning", props=["C07"], rule="NI-3", names="set_constraint",
         edits=[(CONSTR, "            if abort_on_error:\n                raise error\n            yield WarningEvent(error=error)\n", "            if abort_on_error:\n                raise error\n            pass\n")]),
    dict(id="c07-store-mode", props=["C07"], rule="NI-1", names="set_constraint",
         edits=[(CONSTR, "        self.constraint_path = constraint_path\n        self.size_max = size_max\n", "        self.constraint_path = constraint_path\n        self.size_max = size_max\n        self.strict = abort_on_error\n")]),
    dict(id="c07-conditional-warning", props=["C07"], rule="NI-3", names="process_primitive",
         edits=[(MARSHAL, "    if error:\n        none = yield WarningEvent(error=error)", "    if error and not tpm_type._signed:\n        none = yield WarningEvent(error=error)")]),
    dict(id="c07-raise-new", props=["C07"], rule="NI-1", names="strict branch",
         edits=[(MARSHAL, "        if abort_on_error:\n            raise error\n\n    none = yield event", "        if abort_on_error:\n            raise ValueConstraintViolatedError(constraint=value_constraint, value=value_typed)\n\n    none = yield event")]),
    dict(id="c07-extra-warning", props=["C07"], rule="NI-3", names="WarningEvent",
         edits=[(MARSHAL, "    elements = tpm_type()\n    parent_path = path[:-1]\n    index = 0\n", "    elements = tpm_type()\n    parent_path = path[:-1]\n    index = 0\n    if not array_size_constraint.size_max:\n        yield WarningEvent(error=None)\n")]),
    dict(id="c07-default-warn", props=["C07"], rule="NI-1", names="default",
         edits=[(MARSHAL, "def process_tpm2b(tpm_type, path, size_constraints=None, abort_on_error=True):", "def process_tpm2b(tpm_type, path, size_constraints=None, abort_on_error=False):")]),
    dict(id="c07-benign-rename-error", props=["C07", "C08", "C06"], benign=True,
         edits=[(MARSHAL, """    except SizeConstraintExceededError as error:
        if abort_on_error or error.constraint != tpm2b_size_constraint:
            raise error
        yield WarningEvent(error=error)""", """    except SizeConstraintExceededError as exc:
        if abort_on_error or exc.constraint != tpm2b_size_constraint:
            raise exc
        yield WarningEvent(error=exc)""")]),
    dict(id="c07-benign-kw-order", props=["C07", "C03"], benign=True,
         edits=[(MARSHAL, """            count=buffer_size_exp,
            size_constraints=size_constraints,
            abort_on_error=abort_on_error,""", """            abort_on_error=abort_on_error,
            count=buffer_size_exp,
            size_constraints=size_constraints,""")]),
]
MUTANTS += MODE_MUTANTS

VALUE_MUTANTS = [
    dict(id="c04-drop-test", props=["C04"], rule="V1",
         edits=[(MARSHAL, "    if not value_typed.is_valid():\n", "    if value < 0:\n")]),
    dict(id="c04-raise-after-event", props=["C04"], rule="V1", names="raise after event",
         edits=[(MARSHAL, """        error = ValueConstraintViolatedError(constraint=value_constraint, value=value)
        if abort_on_error:
            raise error

    none = yield event
    assert none is None
""", """        error = ValueConstraintViolatedError(constraint=value_constraint, value=value)

    none = yield event
    assert none is None
    if error and abort_on_error:
        raise error
""")]),
    dict(id="c04-second-conversion", props=["C04"], rule="V3", names="process_tpm2b",
         edits=[(MARSHAL, "    values[size_field.name] = buffer_size_exp\n", "    values[size_field.name] = buffer_size_exp\n    _raw = int.from_bytes(bytes(2), byteorder=\"big\")\n")]),
    dict(id="c04-is-valid-true", props=["C04"], rule="V4", names="is_valid",
         edits=[(BASE, "        return self._value in self._valid_values\n", "        return self._value in self._valid_values or self._value == 0\n")]),
    dict(id="c04-contains-inverted", props=["C04"], rule="V4", names="__contains__",
         edits=[(VALUES, "        return self.get(value) is not None\n", "        return self.get(value) is None\n")]),
    dict(id="c04-get-identity", props=["C04"], rule="V4", names="item decision",
         edits=[(VALUES, "            if value == v:\n                return v\n", "            if value is v:\n                return v\n")]),
    dict(id="c04-namedrange-closed", props=["C04", "C16"], rule={"C04": "V4", "C16": "O4"}, names="NamedRange.__contains__",
         edits=[(VALUES, "        return self._start <= item < self._end\n", "        return self._start <= item <= self._end\n")]),
    dict(id="c04-cc-valid-set", props=["C04"], rule="V6", names="command code",
         edits=[(MARSHAL, """                    constraint_path=path + PathNode(selector_name),
                    tpm_type=selector_type,
                    valid_values=ValidValues(TPM_CC),
                )
                raise ValueConstraintViolatedError(
                    constraint=value_constraint,
                    value=selector_value,""", """                    constraint_path=path + PathNode(selector_name),
                    tpm_type=selector_type,
                    valid_values=ValidValues(TPM_ST),
                )
                raise ValueConstraintViolatedError(
                    constraint=value_constraint,
                    value=selector_value,""")]),
    dict(id="c04-error-path", props=["C04"], rule="V2", names="constraint_path",
         edits=[(MARSHAL, "        constraint_path=path, tpm_type=tpm_type, valid_values=value_typed._valid_values", "        constraint_path=path[:-1], tpm_type=tpm_type, valid_values=value_typed._valid_values")]),
    dict(id="c04-keyerror-swallowed", props=["C04"], rule="V6",
         edits=[(MARSHAL, """                raise ValueConstraintViolatedError(
                    constraint=value_constraint,
                    value=selector_value,
                ) from error
""", """                field_type = TPMS_AUTH_COMMAND
""")]),
    dict(id="c04-benign-local-rename", props=["C04", "C01", "C02", "C10"], benign=True,
         edits=[(MARSHAL, "value_typed", "typed", 0)]),
]
MUTANTS += VALUE_MUTANTS

INT_MUTANTS = [
    dict(id="c02-little-endian", props=["C02", "C01", "C16"], rule={"C02": "B1", "C01": "W2", "C16": "B1"}, names="byteorder",
         edits=[(MARSHAL, 'value = int.from_bytes(data, byteorder="big", signed=tpm_type._signed)', 'value = int.from_bytes(data, byteorder="little", signed=tpm_type._signed)')]),
    dict(id="c02-unsigned-const", props=["C02", "C01"], rule={"C02": "B1", "C01": "W2"}, names="signed",
         edits=[(MARSHAL, 'value = int.from_bytes(data, byteorder="big", signed=tpm_type._signed)', 'value = int.from_bytes(data, byteorder="big", signed=False)')]),
    dict(id="c02-writer-width", props=["C02", "C16"], rule="B1", names="width",
         edits=[(BASE, "        if size is None:\n            size = self._int_size\n", "        if size is None:\n            size = max(1, (int(self._value).bit_length() + 7) // 8)\n")]),
    dict(id="c02-writer-order-default", props=["C02", "C16"], rule="B1", names="byteorder",
         edits=[(BASE, 'def to_bytes(self, size=None, byteorder="big", signed=None):', 'def to_bytes(self, size=None, byteorder="little", signed=None):')]),
    dict(id="c02-info-bytes", props=["C02"], rule="B2", names="InfoEvent",
         edits=[(BINUN, '    if isinstance(event, InfoEvent):\n        return b""\n\n', '')]),
    dict(id="c02-filtering-unmarshal", props=["C02"], rule="B3",
         edits=[(BINUN, "    yield from (to_bytes(event) for event in events)", "    yield from (to_bytes(event) for event in events if event.value is not ...)")]),
    dict(id="c02-override", props=["C02", "C16"], rule="B4", names="to_bytes",
         edits=[(CONST, "class TPM_ALG_ID(TPM_ALG):\n    pass\n", "class TPM_ALG_ID(TPM_ALG):\n    def to_bytes(self):\n        return int(self).to_bytes(2, \"little\")\n")]),
    dict(id="c02-valid-too-wide", props=["C02"], rule="B5", names="TPMI_YES_NO",
         edits=[(IFACE, "class TPMI_YES_NO(BOOL):\n    _valid_values = ValidValues(\n        0,\n        1,\n    )", "class TPMI_YES_NO(BOOL):\n    _valid_values = ValidValues(\n        0,\n        1,\n        256,\n    )")]),
    dict(id="c02-algvalue-narrow", props=["C02", "C16"], rule="B1", names="AlgValue",
         edits=[(CONST, "        return self._value.to_bytes(*args, **kwargs)", "        return self._value.to_bytes(2, \"big\")")]),
    # ------------------------------------------------------------------ C16
    dict(id="c16-rsub", props=["C16"], rule="O1", names="__rsub__",
         edits=[(BASE, "    def __rsub__(self, other):\n        return other - int(self)\n", "    def __rsub__(self, other):\n        return int(self) - other\n")]),
    dict(id="c16-delete-rxor", props=["C16"], rule="O1", names="__rxor__",
         edits=[(BASE, '    setattr(cls, "__rxor__", __rxor__)\n', '')]),
    dict(id="c16-wrong-slot", props=["C16"], rule="O1", names="__le__",
         edits=[(BASE, '    setattr(cls, "__le__", __le__)\n', '    setattr(cls, "__le__", __lt__)\n')]),
    dict(id="c16-hash", props=["C16"], rule="O1", names="__hash__",
         edits=[(BASE, "        return hash(int(self))\n", "        return hash(id(self))\n")]),
    dict(id="c16-floordiv", props=["C16"], rule="O1", names="__floordiv__",
         edits=[(BASE, "    def __floordiv__(self, other):\n        return int(self) // other\n", "    def __floordiv__(self, other):\n        return int(self) / other\n")]),
    dict(id="c16-name-offset", props=["C16"], rule="O4", names="by_number",
         edits=[(VALUES, "            index=int(number) - self._start,\n", "            index=int(number),\n")]),
    dict(id="c16-enum-format", props=["C16"], rule="O4", names="__format__",
         edits=[(VALUES, '            return f"{type(self).__name__}.{self._name}"\n\n        setattr(cls, "__format__", __format__)\n        setattr(cls, "__str__", __format__)\n        setattr(cls, "__repr__", __format__)\n\n        setattr(cls, "_valid_values"',
                 '            return f"{self._name}"\n\n        setattr(cls, "__format__", __format__)\n        setattr(cls, "__str__", __format__)\n        setattr(cls, "__repr__", __format__)\n\n        setattr(cls, "_valid_values"')]),
    dict(id="c16-width", props=["C16", "C20"], rule={"C16": "O3", "C20": "T6"}, names="UINT16",
         edits=[(BASET, "class UINT16(_UINT):\n    _int_size = 2\n", "class UINT16(_UINT):\n    _int_size = 4\n")]),
    dict(id="c16-own-width", props=["C16"], rule="O3", names="TPM_KEY_BITS",
         edits=[(BASET, "class TPM_KEY_BITS(UINT16):\n    pass\n", "class TPM_KEY_BITS(UINT16):\n    _int_size = 4\n")]),
    dict(id="c16-member-rename", props=["C16", "C20"], rule={"C16": "O6", "C20": "T6"}, names="TPM_SU",
         edits=[(CONST, "class TPM_SU(UINT16):\n    CLEAR = 0x0000\n", "class TPM_SU(UINT16):\n    CLEARED = 0x0000\n")]),
    dict(id="c16-benign-param-rename", props=["C16", "C02"], benign=True,
         edits=[(BASE, "    def __rsub__(self, other):\n        return other - int(self)\n", "    def __rsub__(self, rhs):\n        return rhs - int(self)\n")]),
]
MUTANTS += INT_MUTANTS

REGION_MUTANTS = [
    dict(id="c03-drop-thread", props=["C03"], rule="R4", names="process_tpms",
         edits=[(MARSHAL, """                path / PathNode(field.name),
                count=count,
                size_constraints=size_constraints,
""", """                path / PathNode(field.name),
                count=count,
""")]),
    dict(id="c03-drop-register", props=["C03"], rule="R1", names="tpm2b_size_constraint",
         edits=[(MARSHAL, "    size_constraints.append(tpm2b_size_constraint)\n", "")]),
    dict(id="c03-drop-close", props=["C03"], rule="R1", names="not closed",
         edits=[(MARSHAL, """        values[buffer_field.name] = buffer_value
        yield from tpm2b_size_constraint.assert_done(
            all_size_constraints=size_constraints, abort_on_error=abort_on_error
        )
        return size_size + buffer_size, tpm_type(**values)""", """        values[buffer_field.name] = buffer_value
        return size_size + buffer_size, tpm_type(**values)""")]),
    dict(id="c03-arm-wrong-value", props=["C03"], rule="R1", names="size_max",
         edits=[(MARSHAL, """            yield from parameter_size_constraint.set_constraint(
                constraint_path=element_path,
                size_max=element_value,""", """            yield from parameter_size_constraint.set_constraint(
                constraint_path=element_path,
                size_max=values["responseSize"],""")]),
    dict(id="c03-close-late", props=["C03"], rule="R1", names="governed set",
         edits=[(MARSHAL, 'if field.name == "parameters" and "parameterSize" in values:', 'if field.name == "authorizationArea" and "parameterSize" in values:')]),
    dict(id="c03-charge-after-read", props=["C03"], rule="R2", names="charge before read",
         edits=[(MARSHAL, """    if size_constraints is not None:
        yield from size_constraints.bytes_parsed(path, size)

    for _ in range(size):
        byte = yield None
        data.append(byte)
""", """    for _ in range(size):
        byte = yield None
        data.append(byte)
    if size_constraints is not None:
        yield from size_constraints.bytes_parsed(path, size)
""")]),
    dict(id="c03-array-reads", props=["C03", "C04"], rule={"C03": "R3", "C04": "V3"}, names="process_array",
         edits=[(MARSHAL, "    parent_path = path[:-1]\n    element_size = 0\n", "    parent_path = path[:-1]\n    _pad = yield None\n    element_size = 0\n")]),
    dict(id="c03-root-registered-late", props=["C03"], rule="R1", names="command_size_constraint",
         edits=[(MARSHAL, "    size_constraints = SizeConstraintList((command_size_constraint,))\n    parameter_encryption = None\n", "    size_constraints = SizeConstraintList()\n    parameter_encryption = None\n"),
                (MARSHAL, """                other_size_constraints=size_constraints,
                abort_on_error=abort_on_error,
            )
        if field.name == "authSize":""", """                other_size_constraints=size_constraints,
                abort_on_error=abort_on_error,
            )
            size_constraints.append(command_size_constraint)
        if field.name == "authSize":""")]),
    dict(id="c03-auth-not-transferred", props=["C03"], rule="R1",
         edits=[(MARSHAL, '        if field.name == "authorizationArea":\n            array_size_constraint = authorization_area_constraint\n', '        if field.name == "authorizationArea":\n            array_size_constraint = command_size_constraint\n')]),
    dict(id="c03-bsa-no-close", props=["C03"], rule="R1", names="array_size_constraint",
         edits=[(MARSHAL, """    yield from array_size_constraint.assert_done(
        all_size_constraints=size_constraints, abort_on_error=abort_on_error
    )
    return array_size_constraint.size_already, elements""", """    return array_size_constraint.size_already, elements""")]),
    dict(id="c03-anticipate-only", props=["C03"], rule="R5",
         edits=[(CONSTR, "        if not anticipate_only:\n            self.size_already += size\n", "        if anticipate_only:\n            self.size_already += size\n")]),
    dict(id="c03-list-stops-early", props=["C03"], rule="R5",
         edits=[(CONSTR, "            except ConstraintObsoleteError:\n                self.remove(constraint)\n", "            except ConstraintObsoleteError:\n                self.remove(constraint)\n            break\n")]),
    dict(id="c03-violator", props=["C03"], rule="R5", names="violator_path",
         edits=[(CONSTR, """                raise SizeConstraintExceededError(
                    self,
                    violator_path=path,""", """                raise SizeConstraintExceededError(
                    self,
                    violator_path=self.constraint_path,""")]),
    dict(id="c03-fresh-list-in-tpms", props=["C03"], rule="R4", names="rebinding",
         edits=[(MARSHAL, "    size = 0\n    values = {}\n    element_size, element_value = None, None\n", "    size = 0\n    values = {}\n    size_constraints = SizeConstraintList()\n    element_size, element_value = None, None\n")]),
    dict(id="c03-benign-reorder-stmts", props=["C03", "C01", "C07"], benign=True,
         edits=[(MARSHAL, "    command_size_constraint = SizeConstraint()\n    authorization_area_constraint = SizeConstraint()\n", "    authorization_area_constraint = SizeConstraint()\n    command_size_constraint = SizeConstraint()\n")]),
]
MUTANTS += REGION_MUTANTS

WALKER_MUTANTS = [
    dict(id="c01-count-first", props=["C01"], rule="W6", names="list count source",
         edits=[(MARSHAL, "count = [v for v in values.values() if not is_list(type(v))][-1]", "count = [v for v in values.values() if not is_list(type(v))][0]")]),
    dict(id="c01-container-late", props=["C01"], rule="W3", names="process_tpm2b",
         edits=[(MARSHAL, """    none = yield MarshalEvent(path, tpm_type, ...)
    assert none is None

    values = {}
    size_field, buffer_field = fields(tpm_type)
    size_path = path / PathNode(size_field.name)
    size_size, buffer_size_exp = yield from process(
        size_field.type,
        size_path,
        size_constraints=size_constraints,
        abort_on_error=abort_on_error,
    )
""", """    values = {}
    size_field, buffer_field = fields(tpm_type)
    size_path = path / PathNode(size_field.name)
    size_size, buffer_size_exp = yield from process(
        size_field.type,
        size_path,
        size_constraints=size_constraints,
        abort_on_error=abort_on_error,
    )
    none = yield MarshalEvent(path, tpm_type, ...)
    assert none is None
""")]),
    dict(id="c01-child-path-selector", props=["C01"], rule="W5", names="child path",
         edits=[(MARSHAL, """            element_size, element_value = yield from process(
                field.type,
                path / PathNode(field.name),
                selector=selector_value,""", """            element_size, element_value = yield from process(
                field.type,
                path / PathNode(selector_name),
                selector=selector_value,""")]),
    dict(id="c01-swap-dispatch", props=["C01"], rule="W1", names="dispatch of",
         edits=[(MARSHAL, '    elif hasattr(tpm_type, "_int_size"):\n        # Primitives, TPMA', '    elif hasattr(tpm_type, "_valid_values") and not hasattr(tpm_type, "_selected_by") and False:\n        # Primitives, TPMA')]),
    dict(id="c01-dispatch-tpm2b-prefix", props=["C01"], rule="W1",
         edits=[(MARSHAL, 'elif tpm_type.__name__.startswith("TPM2B"):', 'elif tpm_type.__name__.startswith("TPM2B_"):'),
                (STRUCT, "class TPM2B_DIGEST:", "class TPM2BDIGEST:"), (STRUCT, "TPM2B_DIGEST", "TPM2BDIGEST", 0)], skip_if_missing=True),
    dict(id="c01-invert-sessions", props=["C01"], rule="F", names="process_response",
         edits=[(MARSHAL, """            field.name in ("parameterSize", "authorizationArea")
            and values["tag"] != TPM_ST.SESSIONS""", """            field.name in ("parameterSize", "authorizationArea")
            and values["tag"] == TPM_ST.SESSIONS""")]),
    dict(id="c01-failed-response-keeps-handles", props=["C01"], rule="F", names="process_response",
         edits=[(MARSHAL, 'in ("handles", "parameterSize", "parameters", "authorizationArea")\n            and "responseCode" in values', 'in ("parameterSize", "parameters", "authorizationArea")\n            and "responseCode" in values')]),
    dict(id="c01-wrong-table", props=["C01"], rule="F", names="area type",
         edits=[(MARSHAL, "            types_map = tpm_type._type_maps[field.name]\n            try:\n                field_type = types_map[command_code]", "            types_map = tpm_type._type_maps[\"parameters\"]\n            try:\n                field_type = types_map[command_code]")]),
    dict(id="c01-encrypt-wrong-field", props=["C01"], rule="F", names="parameter_encryption",
         edits=[(MARSHAL, '        if field.name == "authorizationArea":\n            parameter_encryption = (\n                is_parameter_encryption(authorizationArea=element_value) or None\n            )', '        if field.name == "handles":\n            parameter_encryption = (\n                is_parameter_encryption(authorizationArea=element_value) or None\n            )')]),
    dict(id="c01-sorted-fields", props=["C01"], rule="W4", names="field loop",
         edits=[(MARSHAL, "    element_size, element_value = None, None\n    for field in fields(tpm_type):", "    element_size, element_value = None, None\n    for field in sorted(fields(tpm_type), key=lambda f: f.name):")]),
    dict(id="c01-store-wrong-key", props=["C01"], rule="W4",
         edits=[(MARSHAL, "        values[field.name] = element_value\n        size += element_size\n    return size, tpm_type(**values)", "        values[field.name.lower()] = element_value\n        size += element_size\n    return size, tpm_type(**values)")]),
    dict(id="c01-array-index", props=["C01"], rule="W5", names="element index",
         edits=[(MARSHAL, "        elements.append(element_value)\n        index += 1\n", "        elements.append(element_value)\n        index += 2\n")]),
    dict(id="c01-union-fallback-first", props=["C01"], rule="W7", names="selection chain",
         edits=[(MARSHAL, "    if selector in selection:\n        selectee_name = selection[selector]\n    elif None in selection:\n        # use fallback option\n        selectee_name = selection[None]",
                 "    if None in selection:\n        # use fallback option\n        selectee_name = selection[None]\n    elif selector in selection:\n        selectee_name = selection[selector]")]),
    dict(id="c01-tpm2b-count-literal", props=["C01"], rule="W6", names="TPM2B payload count",
         edits=[(MARSHAL, "            path / PathNode(buffer_field.name),\n            count=buffer_size_exp,", "            path / PathNode(buffer_field.name),\n            count=size_size,")]),
    dict(id="c01-event-type", props=["C01"], rule="W2", names="MarshalEvent",
         edits=[(MARSHAL, "    event = MarshalEvent(path, tpm_type, value_typed)", "    event = MarshalEvent(path, type(value_typed._value), value_typed)")]),
    dict(id="c01-encrypted-guard", props=["C01"], rule="F", names="encrypted",
         edits=[(MARSHAL, "    if parameter_encryption and issubclass(tpm_type, TPMS_PARAMS):", "    if parameter_encryption is not None and issubclass(tpm_type, TPMS_PARAMS):")]),
    dict(id="c01-list-arm-count", props=["C01"], rule="W6",
         edits=[(MARSHAL, "            count=tpm_type._list_size[field.name],", "            count=tpm_type._list_size.get(field.name, 0),")]),
    dict(id="c01-benign-helper", props=["C01", "C03", "C04", "C07"], benign=True,
         edits=[(MARSHAL, "    size = tpm_type._int_size\n    data = []\n", "    size = tpm_type._int_size\n    data = list()\n")]),
]
MUTANTS += WALKER_MUTANTS

STREAM_MUTANTS = [
    dict(id="c09-cc-none", props=["C09"], rule="S1", names="command_code",
         edits=[(MARSHAL, "            command_code=command.commandCode,\n", "            command_code=None,\n")]),
    dict(id="c09-flag-command-direction", props=["C09"], rule="S2", names="parameter_encryption",
         edits=[(MARSHAL, "            parameter_encryption=is_parameter_encryption(command, for_response=True)\n            or None,", "            parameter_encryption=is_parameter_encryption(command, for_response=False)\n            or None,")]),
    dict(id="c09-swap-bits", props=["C09", "C01"], rule="S3",
         edits=[(MARSHAL, """        return any(
            authorizationArea.sessionAttributes.encrypt
            for authorizationArea in authorizationArea
        )
    else:
        return any(
            authorizationArea.sessionAttributes.decrypt""", """        return any(
            authorizationArea.sessionAttributes.decrypt
            for authorizationArea in authorizationArea
        )
    else:
        return any(
            authorizationArea.sessionAttributes.encrypt""")]),
    dict(id="c09-stale-command", props=["C09"], rule="S1",
         edits=[(MARSHAL, "        _, command = yield from process(Command, path, abort_on_error=abort_on_error)\n", "        _, command_new = yield from process(Command, path, abort_on_error=abort_on_error)\n        command = command if 'command' in dir() else command_new\n")], skip_if_missing=True),
    dict(id="c09-first-session-only", props=["C09"], rule="S3",
         edits=[(MARSHAL, "        return any(\n            authorizationArea.sessionAttributes.encrypt\n            for authorizationArea in authorizationArea\n        )", "        return any(\n            authorizationArea.sessionAttributes.encrypt\n            for authorizationArea in authorizationArea[:1]\n        )")]),
    dict(id="c09-cut-any-depth", props=["C09"], rule="S5", names="separate_events",
         edits=[(OBJECT, "            and event.path == ROOT_PATH\n", "            and len(event.path) <= 2\n")]),
    dict(id="c09-no-flush", props=["C09"], rule="S5", names="flush",
         edits=[(OBJECT, "    if events_single_command_or_response != []:\n        yield events_single_command_or_response\n", "")]),
    dict(id="c09-empty-message", props=["C09"], rule="S5", names="separate_events",
         edits=[(OBJECT, "            and event.path == ROOT_PATH\n            and events_single_command_or_response != []\n", "            and event.path == ROOT_PATH\n")]),
    dict(id="c09-append-before-cut", props=["C09"], rule="S5", names="separate_events",
         edits=[(OBJECT, "    for event in iter(events):\n        if (", "    for event in iter(events):\n        events_single_command_or_response.append(event)\n        if ("),
                (OBJECT, "            events_single_command_or_response = []\n        events_single_command_or_response.append(event)\n", "            events_single_command_or_response = []\n")]),
    dict(id="c09-benign-truthiness", props=["C09"], benign=True,
         edits=[(OBJECT, """        if (
            isinstance(event, MarshalEvent)
            and event.path == ROOT_PATH
            and events_single_command_or_response != []
        ):
            yield events_single_command_or_response
            events_single_command_or_response = []
        events_single_command_or_response.append(event)
    if events_single_command_or_response != []:
        yield events_single_command_or_response
""", """        if not isinstance(event, MarshalEvent) or event.path != ROOT_PATH:
            events_single_command_or_response.append(event)
            continue
        if len(events_single_command_or_response) > 0:
            yield events_single_command_or_response
            events_single_command_or_response = []
        events_single_command_or_response.append(event)
    if not events_single_command_or_response:
        return
    yield events_single_command_or_response
""")]),
    dict(id="c09-code-not-reset", props=["C09"], rule="S5", names="response branch",
         edits=[(OBJECT, "            yield response\n            command_code = None\n", "            yield response\n")]),
    dict(id="c09-response-path", props=["C09"], rule="S4", names="path",
         edits=[(MARSHAL, "        _, _ = yield from process(\n            Response,\n            path,", "        _, _ = yield from process(\n            Response,\n            path / PathNode(\"response\"),")]),
    dict(id="c09-benign-rename", props=["C09"], benign=True,
         edits=[(MARSHAL, "        _, command = yield from process(Command, path, abort_on_error=abort_on_error)", "        _, cmd = yield from process(Command, path, abort_on_error=abort_on_error)"),
                (MARSHAL, "            command_code=command.commandCode,\n            parameter_encryption=is_parameter_encryption(command, for_response=True)", "            command_code=cmd.commandCode,\n            parameter_encryption=is_parameter_encryption(cmd, for_response=True)")]),
]
MUTANTS += STREAM_MUTANTS

PURITY_MUTANTS = [
    dict(id="c12-cache-regress", props=["C12"], rule="P2", names="lru_cache",
         edits=[(PARAMS, "    @lru_cache(maxsize=None)\n", "    @lru_cache(maxsize=1)\n")]),
    dict(id="c12-cache-small", props=["C12"], rule="P2", names="lru_cache",
         edits=[(PARAMS, "    @lru_cache(maxsize=None)\n", "    @lru_cache(maxsize=8)\n")]),
    dict(id="c12-module-memo", props=["C12"], rule="P1", names="_cache",
         edits=[(MARSHAL, "def consume_bytes(count):\n    for _ in range(count):\n        _ = yield\n", "_cache = {}\n\n\ndef consume_bytes(count):\n    for _ in range(count):\n        _ = yield\n"),
                (MARSHAL, "    size = 0\n    values = {}\n    element_size, element_value = None, None\n", "    size = 0\n    values = _cache.setdefault(tpm_type, {})\n    _cache[tpm_type] = values\n    element_size, element_value = None, None\n")]),
    dict(id="c12-global-counter", props=["C12"], rule="P1", names="global",
         edits=[(MARSHAL, "def process_primitive(tpm_type, path, size_constraints=None, abort_on_error=True):\n    \"\"\"Coroutine. Send in one byte if it yields None. Send in None if it yields an MarshalEvents.\"\"\"\n", "_n_primitives = 0\n\n\ndef process_primitive(tpm_type, path, size_constraints=None, abort_on_error=True):\n    \"\"\"Coroutine. Send in one byte if it yields None. Send in None if it yields an MarshalEvents.\"\"\"\n    global _n_primitives\n    _n_primitives += 1\n")]),
    dict(id="c12-class-attr-store", props=["C12"], rule="P1", names="Response",
         edits=[(OBJECT, "    obj = tpm_type(**kwargs)\n", "    obj = tpm_type(**kwargs)\n    Response._last_command_code = command_code\n")]),
    dict(id="c12-mutable-default", props=["C12"], rule="P3", names="default",
         edits=[(MARSHAL, "    array_size_constraint=None,\n    size_constraints=None,\n    abort_on_error=True,\n):\n    \"\"\"Coroutine. Send in one byte if it yields None. Send in None if it yields an MarshalEvents.\"\"\"\n    if size_constraints is None:", "    array_size_constraint=None,\n    size_constraints=SizeConstraintList(),\n    abort_on_error=True,\n):\n    \"\"\"Coroutine. Send in one byte if it yields None. Send in None if it yields an MarshalEvents.\"\"\"\n    if size_constraints is None:")]),
    dict(id="c12-encrypted-marks-class", props=["C12"], rule="P1", names="cls",
         edits=[(PARAMS, "        new_type._encrypted = True\n", "        new_type._encrypted = True\n        cls._encrypted_variant = new_type\n")]),
    dict(id="c12-benign-functools-cache", props=["C12"], benign=True,
         edits=[(PARAMS, "from functools import lru_cache\n", "from functools import cache, lru_cache\n"), (PARAMS, "    @lru_cache(maxsize=None)\n", "    @cache\n")]),
]
MUTANTS += PURITY_MUTANTS

PRINTER_MUTANTS = [
    dict(id="c14-events-unguarded-regress", props=["C14"], rule="Q1", names="event.type",
         edits=[(EVENTS, """        if not isinstance(event, MarshalEvent):
            # warnings and other info events have neither type nor path nor value
            yield f"{Fore.RED}{event}{Style.RESET_ALL}"
            continue
""", "")]),
    dict(id="c14-pretty-unguarded", props=["C14"], rule="Q1", names="event.path",
         edits=[(PRETTY, "    for event in events:\n        if (\n            isinstance(event, MarshalEvent)\n            and is_list(event.type)", "    for event in events:\n        if (\n            len(event.path) > 0\n            and isinstance(event, MarshalEvent)\n            and is_list(event.type)")]),
    dict(id="c14-drop-nonchild", props=["C14"], rule="Q2",
         edits=[(PRETTY, """            # abort if it is not a list element
            if not is_child(parent_event, child_event):
                if is_empty:
                    yield from pretty(parent_event)
                return child_event
""", """            # abort if it is not a list element
            if not is_child(parent_event, child_event):
                if is_empty:
                    yield from pretty(parent_event)
                    return child_event
                continue
""")]),
    dict(id="c14-child-twice", props=["C14"], rule="Q2", names="twice",
         edits=[(PRETTY, "            yield from pretty(child_event)\n            is_empty = False\n", "            yield from pretty(child_event)\n            yield from pretty(child_event)\n            is_empty = False\n")]),
    dict(id="c14-info-dropped-in-list", props=["C14"], rule="Q2",
         edits=[(PRETTY, """            if not isinstance(child_event, MarshalEvent):
                yield from pretty(child_event)
                continue

            # abort if it is not a list element
            if not is_child(parent_event, child_event):
                break
""", """            if not isinstance(child_event, MarshalEvent):
                continue

            # abort if it is not a list element
            if not is_child(parent_event, child_event):
                break
""")]),
    dict(id="c14-empty-parent-hidden", props=["C14"], rule="Q2", names="parent",
         edits=[(PRETTY, "            except StopIteration:\n                if is_empty:\n                    yield from pretty(parent_event)\n                return None", "            except StopIteration:\n                return None")]),
    dict(id="c14-indent", props=["C14"], rule="Q4", names="indent depth",
         edits=[(PRETTY, "    layer = len(path) - 1\n", "    layer = len(path)\n")]),
    dict(id="c14-attrs-for-elements", props=["C14"], rule="Q4", names="pretty_attrs",
         edits=[(PRETTY, "            yield from pretty(child_event)\n            is_empty = False\n", "            yield from pretty(child_event)\n            yield from pretty_attrs(child_event)\n            is_empty = False\n")]),
    dict(id="c14-hex-of-other-event", props=["C14"], rule="Q4", names="pretty row",
         edits=[(PRETTY, '    data = b"".join(binary_unmarshal((event,)))\n', '    data = b"".join(binary_unmarshal((event, event)))\n')]),
    dict(id="c14-main-loop-skip", props=["C14"], rule="Q2", names="main loop",
         edits=[(PRETTY, "        yield from pretty(event)\n        if (\n            show_attributes", "        if isinstance(event, MarshalEvent) and event.value is ...:\n            continue\n        yield from pretty(event)\n        if (\n            show_attributes")]),
    dict(id="c14-byte-alias-type", props=["C14"], rule="Q3", names="element type",
         edits=[(STRUCT, "@tpm_dataclass\nclass TPM2B_DIGEST:\n    size: UINT16\n    buffer: list[BYTE]\n", "@tpm_dataclass\nclass TPM2B_DIGEST:\n    size: UINT16\n    buffer: list[UINT8]\n")]),
    dict(id="c14-benign-rename", props=["C14"], benign=True,
         edits=[(PRETTY, "child_event", "nxt", 0)]),
]
MUTANTS += PRINTER_MUTANTS

FRONTEND_MUTANTS = [
    dict(id="c15-hex-drops-cc", props=["C15"], rule="F1", names="command_code",
         edits=[(HEX, "        root_path=root_path,\n        command_code=command_code,\n        **kwargs,", "        root_path=root_path,\n        **kwargs,")]),
    dict(id="c15-swtpm-no-return", props=["C15"], rule="F2", names="return value",
         edits=[(SWTPM, "    result = yield from Binary.marshal(", "    yield from Binary.marshal("), (SWTPM, "    )\n    return result\n", "    )\n")]),
    dict(id="c15-pcap-return-regress", props=["C15"], rule="F2", names="return value",
         edits=[(PCAP, "    result = yield from Binary.marshal(", "    yield from Binary.marshal("), (PCAP, "    )\n    return result\n", "    )\n")]),
    dict(id="c15-hex-validation-regress", props=["C15"], rule="F3", names="int(",
         edits=[(HEX, """        if high_nibble not in VALID_HEX or low_nibble not in VALID_HEX:
            raise ValueError(
                f"Invalid hex string: invalid digits {high_nibble + low_nibble}."
            )
""", "")]),
    dict(id="c15-hex-validates-one", props=["C15"], rule="F3", names="low_nibble",
         edits=[(HEX, "        if high_nibble not in VALID_HEX or low_nibble not in VALID_HEX:", "        if high_nibble not in VALID_HEX:")]),
    dict(id="c15-pcap-slice", props=["C15"], rule="F5", names="size slice",
         edits=[(PCAP, "int.from_bytes(binary_blob[2:6], byteorder=\"big\")", "int.from_bytes(binary_blob[0:4], byteorder=\"big\")")]),
    dict(id="c15-pcap-runt", props=["C15"], rule="F5", names="runt",
         edits=[(PCAP, "        if len(binary_blob) < 10:", "        if len(binary_blob) < 6:")]),
    dict(id="c15-swtpm-lowercase", props=["C15"], rule="F6", names="VALID_HEX",
         edits=[(SWTPM, 'VALID_HEX = b"0123456789ABCDEF"', 'VALID_HEX = b"0123456789ABCDEFabcdef"')]),
    dict(id="c15-swtpm-no-eof-test", props=["C15"], rule="F6", names="end-of-input",
         edits=[(SWTPM, "        elif state == STATE_WANT_CMD_START:\n            if b is None:\n                raise ValueError(\"Missing command payload\")\n            elif b == b\"\\n\":", "        elif state == STATE_WANT_CMD_START:\n            if b == b\"\\n\":")]),
    dict(id="c15-swtpm-unvalidated-low", props=["C15"], rule="F3",
         edits=[(SWTPM, """            elif b not in VALID_HEX:
                raise ValueError("Invalid hex digit '%s'" % str(b))
            else:
                value += b
                i = int(value, 16)""", """            else:
                value += b
                i = int(value, 16)""")]),
    dict(id="c15-auto-drops-lookahead", props=["C15"], rule="F5", names="re-yield",
         edits=[(AUTO, "    yield from look_ahead\n    yield from buffer_iter\n", "    yield from buffer_iter\n")]),
    dict(id="c15-auto-wrong-frontend", props=["C15"], rule="F5", names="dispatch",
         edits=[(AUTO, '    if format == "hex":\n        result = yield from Hex.marshal(', '    if format == "hex":\n        result = yield from Binary.marshal(')]),
    dict(id="c15-facade-drops-kwargs", props=["C15"], rule="F1", names="kwargs",
         edits=[(S + "io/swtpm_log/__init__.py", "            tpm_type, buffer, root_path=root_path, command_code=command_code, **kwargs\n", "            tpm_type, buffer, root_path=root_path, command_code=command_code\n")]),
    dict(id="c15-benign-hex-format", props=["C15", "C10"], benign=True,
         edits=[(HEX, '    high_nibble = b""\n    low_nibble = b""\n\n    while True:', '    high_nibble = bytes()\n    low_nibble = bytes()\n\n    while True:')]),
]
MUTANTS += FRONTEND_MUTANTS

CLI_MUTANTS = [
    dict(id="c19-choice-without-handler", props=["C19"], rule="L1", names="choices",
         edits=[(MAIN, '    "choices": ["binary", "events", "pretty"],', '    "choices": ["binary", "events", "pretty", "json"],')]),
    dict(id="c19-refusal-returns-zero", props=["C19"], rule="L2", names="refusal",
         edits=[(MAIN, '        tpm_type = fuzzy_match(args.type, {t.__name__: t for t in all_types}, "type")\n        if tpm_type is None:\n            return -1', '        tpm_type = fuzzy_match(args.type, {t.__name__: t for t in all_types}, "type")\n        if tpm_type is None:\n            return 0')]),
    dict(id="c19-strict-convert", props=["C19"], rule="L3", names="abort_on_error",
         edits=[(MAIN, "        command_code=command_code,\n        abort_on_error=False,\n    )\n\n    for line in format_out.unmarshal(events):", "        command_code=command_code,\n        abort_on_error=True,\n    )\n\n    for line in format_out.unmarshal(events):")]),
    dict(id="c19-print-loop-break", props=["C19"], rule="L3", names="print loop",
         edits=[(MAIN, "        else:\n            print(line)\n\n    return 0", "        else:\n            print(line)\n            if \"Warning\" in line:\n                break\n\n    return 0")]),
    dict(id="c19-except-dropped", props=["C19"], rule="L4", names="except",
         edits=[(MAIN, "                InputStreamSuperfluousBytesError,\n                ConstraintViolatedError,\n            ) as error:", "                InputStreamSuperfluousBytesError,\n            ) as error:")]),
    dict(id="c19-except-too-broad", props=["C19"], rule="L4", names="breadth",
         edits=[(MAIN, "                InputStreamSuperfluousBytesError,\n                ConstraintViolatedError,\n            ) as error:", "                InputStreamSuperfluousBytesError,\n                ConstraintViolatedError,\n                Exception,\n            ) as error:")]),
    dict(id="c19-drops-command-code", props=["C19"], rule="L3", names="command_code",
         edits=[(MAIN, "        buffer=bytes_from_files(args.file),\n        command_code=command_code,\n        abort_on_error=False,", "        buffer=bytes_from_files(args.file),\n        abort_on_error=False,")]),
    dict(id="c19-example-filter", props=["C19"], rule="L5", names="command filter",
         edits=[(MAIN, '                    hasattr(obj, "_command_code") and obj._command_code == command_code', '                    hasattr(obj, "_command_code") and obj._command_code != command_code')]),
    dict(id="c19-in-maps-wrong", props=["C19"], rule="L1", names="format_in[hex]",
         edits=[(MAIN, '        "binary": Binary,\n        "hex": Hex,\n        "pcapng": Pcapng,\n        "swtpm-log": SWTPMLog,\n    }[args.format_in]\n\n    format_out', '        "binary": Binary,\n        "hex": Binary,\n        "pcapng": Pcapng,\n        "swtpm-log": SWTPMLog,\n    }[args.format_in]\n\n    format_out')]),
    dict(id="c19-main-ignores-status", props=["C19"], rule="L2", names="main",
         edits=[(MAIN, "    ret = args.func(args)\n    sys.exit(ret)", "    ret = args.func(args)\n    sys.exit(0)")]),
    dict(id="c19-benign-message", props=["C19"], benign=True,
         edits=[(MAIN, 'f"Error: --type=Response requires --command=<command>."', 'f"Error: --type=Response needs --command=<command>."')]),
]
MUTANTS += CLI_MUTANTS

OBJECT_MUTANTS = [
    dict(id="c11-skipset-shrunk", props=["C11"], rule="A1", names="invisible",
         edits=[(OBJECT, '                "authorizationArea",\n                "parameterSize",\n                "parameters",', '                "authorizationArea",\n                "parameters",')]),
    dict(id="c11-skipset-grown", props=["C11"], rule="A1", names="invisible",
         edits=[(OBJECT, '                "handles",\n                "authSize",', '                "handles",\n                "commandCode",\n                "authSize",')]),
    dict(id="c11-union-prefix", props=["C11"], rule="A2",
         edits=[(OBJECT, 'type(obj).__name__.startswith("TPMU")', 'type(obj).__name__.startswith("TPMU_S")')]),
    dict(id="c11-marker-type", props=["C11"], rule="A3", names="event shapes",
         edits=[(OBJECT, "            # otherwise: yield \"empty field\"\n            yield MarshalEvent(path / PathNode(field.name), field.type, ...)", "            # otherwise: yield \"empty field\"\n            yield MarshalEvent(path / PathNode(field.name), type(obj), ...)")]),
    dict(id="c11-absent-regress", props=["C11"], rule="A5", names="None vs tpm_type()",
         edits=[(OBJECT, """        if not value and fields(tpm_type):
            # empty-field marker: the part is absent (union member without payload, empty TPM2B structure)
            return None
""", "")]),
    dict(id="c11-drop-command-code", props=["C11"], rule="A4", names="_command_code",
         edits=[(OBJECT, '    if tpm_type is Response:\n        object.__setattr__(obj, "_command_code", command_code)\n', '')]),
    dict(id="c11-elem-index", props=["C11"], rule="A3", names="element path",
         edits=[(OBJECT, "parent_path / PathNode(name=elem_name, index=i)", "parent_path / PathNode(name=elem_name, index=i + 1)")]),
    dict(id="c11-new-nullable-clash", props=["C11"], rule="A1", names="TPMT_KDF_SCHEME",
         edits=[(ALGO, 'class TPMT_KDF_SCHEME:\n    _selectors = {\n        "details": "scheme",\n    }\n\n    scheme: TPMI_ALG_KDF  # TODO is optional\n    details: TPMU_KDF_SCHEME', 'class TPMT_KDF_SCHEME:\n    _selectors = {\n        "parameters": "scheme",\n    }\n\n    scheme: TPMI_ALG_KDF  # TODO is optional\n    parameters: TPMU_KDF_SCHEME')]),
    dict(id="c11-benign-comment", props=["C11"], benign=True,
         edits=[(OBJECT, "    # yield struct parent\n", "    # yield the struct's own event first\n")]),
]
MUTANTS += OBJECT_MUTANTS

LEDGER_MUTANTS = [
    dict(id="c06-new-assert", props=["C06"], rule="X1", names="process_primitive",
         edits=[(MARSHAL, "    value_typed = tpm_type(value)\n", "    assert value != 0xDEADBEEF\n    value_typed = tpm_type(value)\n")]),
    dict(id="c06-runtime-error", props=["C06"], rule="X1", names="RuntimeError",
         edits=[(MARSHAL, "        elements.append(element_value)\n        index += 1\n", "        elements.append(element_value)\n        index += 1\n        if index > 64:\n            raise RuntimeError(\"too many sessions\")\n")]),
    dict(id="c06-list-size-missing", props=["C06"], rule="X1", names="T5",
         edits=[(STRUCT, '        "sha3_512": 64,\n    }\n    _selected_by', '    }\n    _selected_by')]),
    dict(id="c06-count-after-list", props=["C06"], rule="X1", names="T3",
         edits=[(STRUCT, "class TPML_DIGEST:\n    count: UINT32\n    digests: list[TPM2B_DIGEST]\n", "class TPML_DIGEST:\n    digests: list[TPM2B_DIGEST]\n    count: UINT32\n")]),
    dict(id="c06-early-values-read", props=["C06"], rule="X1", names="process_command",
         edits=[(MARSHAL, '        if field.name == "authorizationArea":\n            array_size_constraint = authorization_area_constraint\n', '        if field.name == "parameters" and values["authSize"] == 0:\n            pass\n        if field.name == "authorizationArea":\n            array_size_constraint = authorization_area_constraint\n')]),
    dict(id="c06-encrypted-regress", props=["C06"], rule="X1", names="TPMS_PARAMS.encrypted",
         edits=[(PARAMS, """        params = getattr(cls, "__annotations__", {})
        if not params or not list(params.values())[0].__name__.startswith("TPM2B"):
            # only a leading TPM2B parameter can be encrypted, otherwise the area is plain
            return cls
""", """        params = cls.__annotations__
        assert list(params.values())[0].__name__.startswith("TPM2B")
""")]),
    dict(id="c06-by-value-uncaught", props=["C06"], rule="X1", names="by_value",
         edits=[(VALUES, """                try:
                    instance = type(self).by_value(value)
                    self._name = instance._name
                    self._value = instance._value
                except ValueError:
                    # value is unknown
                    self._name = None
                    self._value = value
""", """                instance = type(self).by_value(value)
                self._name = instance._name
                self._value = instance._value
""")]),
    dict(id="c06-empty-session-element", props=["C06"], rule="X2", names="authorizationArea",
         edits=[(CMDI, "    authorizationArea: list[TPMS_AUTH_COMMAND]\n", "    authorizationArea: list[TPMS_EMPTY]\n"),
                (CMDI, "from ..structures.structures import TPMS_AUTH_COMMAND\n", "from ..structures.structures import TPMS_AUTH_COMMAND, TPMS_EMPTY\n")]),
    dict(id="c06-spin-loop", props=["C06"], rule="X2", names="loop",
         edits=[(MARSHAL, "    elements = tpm_type()\n    for index in range(count):", "    elements = tpm_type()\n    while count is None:\n        pass\n    for index in range(count):")]),
    dict(id="c06-unselectable-value", props=["C06", "C20"], rule={"C06": "X1", "C20": "T4"}, names="T4",
         edits=[(ALGO, '        "kdf2": TPM_ALG.KDF2,\n', '', 0)], skip_if_missing=True),
    dict(id="c06-benign-message", props=["C06", "C08"], benign=True,
         edits=[(CONSTR, '"Cannot assert the end of a constraint before having initialized it."', '"assert_done() before set_constraint()"')]),
]
MUTANTS += LEDGER_MUTANTS

WARN_MUTANTS = [
    dict(id="c08-no-owner-handler", props=["C08"], rule="Y2", names="process_tpm2b",
         edits=[(MARSHAL, """    try:
        buffer_size, buffer_value = yield from process(
            buffer_field.type,
            path / PathNode(buffer_field.name),
            size_constraints=size_constraints,
            abort_on_error=abort_on_error,
        )
    except SizeConstraintExceededError as error:
        if abort_on_error or error.constraint != tpm2b_size_constraint:
            raise error
        yield WarningEvent(error=error)
        return size_size + tpm2b_size_constraint.size_already, None
""", """    buffer_size, buffer_value = yield from process(
        buffer_field.type,
        path / PathNode(buffer_field.name),
        size_constraints=size_constraints,
        abort_on_error=abort_on_error,
    )
""")]),
    dict(id="c08-owner-swallows-foreign", props=["C08"], rule="Y2", names="ownership",
         edits=[(MARSHAL, "            if abort_on_error or error.constraint not in (\n                response_size_constraint,\n                parameter_size_constraint,\n            ):", "            if abort_on_error or error.constraint not in (\n                response_size_constraint,\n            ):")]),
    dict(id="c08-assert-in-warn", props=["C08", "C06"], rule={"C08": "Y1", "C06": "X1"}, names="process_byte_sized_array",
         edits=[(MARSHAL, "    elements = tpm_type()\n    parent_path = path[:-1]\n    index = 0\n", "    elements = tpm_type()\n    parent_path = path[:-1]\n    index = 0\n    assert array_size_constraint.size_max % 4 == 0\n")]),
    dict(id="c08-selector-error-regress", props=["C08"], rule="Y1", names="process_tpmu",
         edits=[(MARSHAL, "        raise ValueConstraintViolatedError(constraint=value_constraint, value=selector)\n\n    field = next(", "        raise AssertionError(f\"Selection error in {path}\")\n\n    field = next(")]),
    dict(id="c08-none-iterated-regress", props=["C08"], rule="Y3", names="authorizationArea",
         edits=[(MARSHAL, "    if authorizationArea is None:\n        # no (or no decodable) session area: nobody requested encryption\n        return False\n", "")]),
    dict(id="c08-unguarded-abort", props=["C08", "C07"], rule={"C08": "Y1", "C07": "NI-1"}, names="set_constraint",
         edits=[(CONSTR, "            if abort_on_error:\n                raise error\n            yield WarningEvent(error=error)\n", "            if abort_on_error or size_max > 0xFFFF:\n                raise error\n            yield WarningEvent(error=error)\n")]),
    dict(id="c08-skip-amount", props=["C08"], rule="Y4", names="padding skip",
         edits=[(CONSTR, "        yield WarningEvent(error=error)\n\n        yield from consume_bytes(self.size_max - self.size_already)", "        yield WarningEvent(error=error)\n\n        yield from consume_bytes(self.size_max - self.size_already - 1)")]),
    dict(id="c08-recovery-no-warning", props=["C08", "C07"], rule={"C08": "Y2", "C07": "NI-3"}, names={"C08": "recovery path", "C07": "warn branch"},
         edits=[(MARSHAL, "            if abort_on_error or error.constraint != array_size_constraint:\n                raise error\n            yield WarningEvent(error=error)\n            return", "            if abort_on_error or error.constraint != array_size_constraint:\n                raise error\n            return")]),
]
MUTANTS += WARN_MUTANTS

ALL = ["C01", "C02", "C03", "C04", "C05", "C06", "C07", "C08", "C09", "C10", "C11", "C12", "C13", "C14", "C15", "C16", "C17", "C18", "C19", "C20"]
BENIGN_TWINS = [
    dict(id="twin-rename-locals-1", props=ALL, benign=True, edits=[
        (MARSHAL, r"(?<![.\w])values\b(?!\()", "decoded", "re"), (MARSHAL, r"\belement_value\b", "elem_val", "re"),
        (MARSHAL, r"\bselection\b", "arm_of", "re"), (MARSHAL, r"\bselectee_name\b", "arm", "re"),
        (MARSHAL, r"\bbuffer_size_exp\b", "declared", "re"), (MARSHAL, r"\bsize_field\b", "sf", "re"),
        (MARSHAL, r"\bbuffer_field\b", "bf", "re"), (MARSHAL, r"\bvalue_typed\b", "typed", "re")]),
    dict(id="twin-rename-locals-2", props=ALL, benign=True, edits=[
        (MARSHAL, r"(?<![.\w])field\b(?!s)", "fld", "re"), (MARSHAL, r"(?<![.\w=])error\b(?!=)", "exc", "re"),
        (MARSHAL, r"\(error=error\)", "(error=exc)", "re"),
        (MARSHAL, r"\btypes_map\b", "tmap", "re"), (MARSHAL, r"\bprocessor\b", "proc", "re"),
        (MARSHAL, r"\bcommand_code_path\b", "cc_path", "re"), (MARSHAL, r"\bchild_node\b", "child", "re"),
        (MARSHAL, r"\bparent_path\b", "ppath", "re"), (MARSHAL, r"\bselector_value\b", "selval", "re"),
        (MARSHAL, r"\bbuffer_iter\b", "src_it", "re"), (MARSHAL, r"\bbuffer_depleted\b", "exhausted", "re"),
        (CONSTR, r"(?<![.\w])constraint\b(?!s|_)", "region", "re"),
        (PRETTY, r"\bchild_buffer\b", "buf", "re"), (PRETTY, r"\bis_empty\b", "empty", "re"), (PRETTY, r"\bis_tpm2b\b", "bytes_list", "re"),
        (OBJECT, r"\bevents_single_command_or_response\b", "current", "re"), (OBJECT, r"\bobj_fields\b", "fs", "re")]),
    dict(id="twin-docstrings", props=ALL, benign=True, edits=[
        (MARSHAL, r'^    """Coroutine\. Send in one byte if it yields None\. Send in None if it yields an MarshalEvents\."""$',
         '    """Coroutine: send one byte whenever it yields None, send None whenever it yields an event."""', "re"),
        (CONSTR, r"^        # look ahead \(so self\.size_already is the number of parsed bytes\)$", "        # look ahead first; size_already counts bytes that were really consumed", "re")]),
]
MUTANTS += BENIGN_TWINS

MUTANTS = [m for m in MUTANTS if not m.get("skip_if_missing")]

ROUND2_MUTANTS = [
    dict(id="c01-clamp-count", props=["C01"], rule="W9", names="count",
         edits=[(MARSHAL, "    parent_path = path[:-1]\n    element_size = 0\n", "    parent_path = path[:-1]\n    count = min(count, 0x400)\n    element_size = 0\n")]),
    dict(id="c04-get-prologue", props=["C04", "C16"], rule="V4", names="prologue",
         edits=[(VALUES, "    def get(self, value):\n        for v in self._values:", "    def get(self, value):\n        if not value:\n            return value\n        for v in self._values:")]),
    dict(id="c04-contains-shortcut", props=["C04"], rule="V4", names="__contains__",
         edits=[(VALUES, "    def __contains__(self, value):\n        return self.get(value) is not None\n\n    def get", "    def __contains__(self, value):\n        if len(self._values) > 64:\n            return True\n        return self.get(value) is not None\n\n    def get")]),
    dict(id="c02-encode-assert", props=["C02"], rule="B6", names="to_bytes",
         edits=[(BINUN, "    # is a primitive\n    return event.value.to_bytes()", "    # is a primitive\n    assert event.value.is_valid()\n    return event.value.to_bytes()")]),
    dict(id="c03-truthy-limit", props=["C03"], rule="R6", names="truthiness",
         edits=[(CONSTR, "        if self.size_max is not None and self.size_already + size > self.size_max:", "        if self.size_max and self.size_already + size > self.size_max:")]),
    dict(id="c17-closed-form-correct", props=["C17"], benign=True,
         edits=[(VALUES, """                        bits = obj._value & self._mask
                        mask = self._mask
                        while mask & 0x1 == 0x0:
                            bits >>= 1
                            mask >>= 1
                        return bits  # TODO ?
""", """                        return (obj._value & self._mask) >> ((self._mask & -self._mask).bit_length() - 1)
""")]),
    dict(id="c13-benign-helper", props=["C13", "C05", "C10"], benign=True,
         edits=[(MARSHAL, "def is_parameter_encryption(\n    command: Command = None,", "def unread(it, lookahead=None):\n    if lookahead is None:\n        return bytes(it)\n    return bytes(itertools.chain((lookahead,), it))\n\n\ndef is_parameter_encryption(\n    command: Command = None,"),
                (MARSHAL, "            error.set_bytes_remaining(buffer_iter)\n", "            error.set_bytes_remaining(unread(buffer_iter))\n"),
                (MARSHAL, "                    bytes_remaining = bytes(itertools.chain((byte,), buffer_iter))\n                    error = InputStreamSuperfluousBytesError(", "                    bytes_remaining = unread(buffer_iter, lookahead=byte)\n                    error = InputStreamSuperfluousBytesError(")]),
    dict(id="c03-benign-size-remaining-property", props=["C03", "C08", "C13"], benign=True,
         edits=[(CONSTR, "    def bytes_parsed(self, path, size, anticipate_only=False):\n        \"\"\"Add to the size of parsed bytes.\"\"\"", "    @property\n    def size_remaining(self):\n        return self.size_max - self.size_already\n\n    def bytes_parsed(self, path, size, anticipate_only=False):\n        \"\"\"Add to the size of parsed bytes.\"\"\""),
                (CONSTR, "                yield from consume_bytes(self.size_max - self.size_already)\n                raise SizeConstraintExceededError(", "                yield from consume_bytes(self.size_remaining)\n                raise SizeConstraintExceededError("),
                (CONSTR, "        yield WarningEvent(error=error)\n\n        yield from consume_bytes(self.size_max - self.size_already)", "        yield WarningEvent(error=error)\n\n        yield from consume_bytes(self.size_remaining)")]),
]
MANUAL_READER = [
    dict(id="c02-benign-manual-reader", props=ALL, benign=True,
         edits=[(MARSHAL, "    size = tpm_type._int_size\n    data = []\n", "    size = tpm_type._int_size\n"),
                (MARSHAL, """    for _ in range(size):
        byte = yield None
        data.append(byte)
    value = int.from_bytes(data, byteorder="big", signed=tpm_type._signed)
""", """    value = 0
    for _ in range(size):
        byte = yield None
        value = (value << 8) | byte
    if tpm_type._signed:
        if value >= 1 << (8 * size - 1):
            value -= 1 << (8 * size)
""")]),
    dict(id="c02-manual-reader-off-by-one", props=["C01", "C02"], rule="B1", names="signed",
         edits=[(MARSHAL, "    size = tpm_type._int_size\n    data = []\n", "    size = tpm_type._int_size\n"),
                (MARSHAL, """    for _ in range(size):
        byte = yield None
        data.append(byte)
    value = int.from_bytes(data, byteorder="big", signed=tpm_type._signed)
""", """    value = 0
    for _ in range(size):
        byte = yield None
        value = (value << 8) | byte
    if tpm_type._signed and value > 1 << (8 * size - 1):
        value -= 1 << (8 * size)
""")]),
]
MUTANTS += MANUAL_READER
MUTANTS += ROUND2_MUTANTS

LOGGING_TWIN = [
    dict(id="twin-logging", props=ALL, benign=True, edits=[
        (MARSHAL, "import itertools\n", "import itertools\nimport logging\n"),
        (MARSHAL, "from ...spec.structures.structures import TPMS_AUTH_COMMAND\n", "from ...spec.structures.structures import TPMS_AUTH_COMMAND\n\nlogger = logging.getLogger(__name__)\n"),
        (MARSHAL, "    size = 0\n    values = {}\n    element_size, element_value = None, None\n", "    size = 0\n    values = {}\n    logger.debug(\"struct %s at %s\", tpm_type.__name__, path)\n    element_size, element_value = None, None\n"),
        (MARSHAL, "    tpm_type = Command\n    command_size_constraint = SizeConstraint()\n", "    tpm_type = Command\n    logger.debug(\"command at %s\", path)\n    command_size_constraint = SizeConstraint()\n"),
        (MARSHAL, "    values = {}\n    size_field, buffer_field = fields(tpm_type)\n", "    values = {}\n    logger.debug(\"tpm2b %s\", tpm_type.__name__)\n    size_field, buffer_field = fields(tpm_type)\n"),
        (MARSHAL, "    buffer_iter = iter(buffer)\n", "    buffer_iter = iter(buffer)\n    logger.debug(\"decoding %s\", tpm_type)\n"),
        (MARSHAL, "        _, command = yield from process(Command, path, abort_on_error=abort_on_error)\n", "        logger.debug(\"next message pair\")\n        _, command = yield from process(Command, path, abort_on_error=abort_on_error)\n"),
    ]),
]
MUTANTS += LOGGING_TWIN

LINEAR_MUTANTS = [
    dict(id="c03-exceeded-by-wrong", props=["C03"], rule="R7", names="exceeded_by",
         edits=[(CONSTR, """                raise SizeConstraintExceededError(
                    self,
                    violator_path=path,
                    exceeded_by=self.size_already + size - self.size_max,""", """                raise SizeConstraintExceededError(
                    self,
                    violator_path=path,
                    exceeded_by=size - self.size_max,""")]),
    dict(id="c03-anticipated-value", props=["C03"], rule="R7", names="violator_value",
         edits=[(CONSTR, "                    violator_value=size,\n", "                    violator_value=self.size_already + size,\n")]),
    dict(id="c03-skip-off-by-one", props=["C03", "C08", "C13"], rule={"C03": "R7", "C08": "Y4", "C13": "A3"},
         edits=[(CONSTR, "                yield from consume_bytes(self.size_max - self.size_already)\n                raise SizeConstraintExceededError(", "                yield from consume_bytes(self.size_max - self.size_already - 1)\n                raise SizeConstraintExceededError(")]),
    dict(id="c03-benign-reassociate", props=["C03", "C08", "C13"], benign=True,
         edits=[(CONSTR, "                    exceeded_by=self.size_already + size - self.size_max,\n                )\n            else:", "                    exceeded_by=size - (self.size_max - self.size_already),\n                )\n            else:")]),
]
MUTANTS += LINEAR_MUTANTS

# first-order mutants that survived all 20 checks in the systematic mutation run (tools/automutate.py) before the rules
# named here were added
FIRST_ORDER_MUTANTS = [
    dict(id="fo-pump-error-swallowed", props=["C05"], rule=None,
         edits=[(MARSHAL, "            error.set_bytes_remaining(buffer_iter)\n            raise error\n", "            error.set_bytes_remaining(buffer_iter)\n")]),
    dict(id="fo-pump-no-capture", props=["C05"], rule=None,
         edits=[(MARSHAL, "                if event.path == command_code_path:\n                    command_code = event.value\n", "                if event.path == command_code_path:\n                    pass\n")]),
    dict(id="fo-pump-boundary-negated", props=["C05", "C09"], rule=None,
         edits=[(MARSHAL, '                    and event.path == Path.from_string(".")\n', '                    and event.path != Path.from_string(".")\n')]),
    dict(id="fo-pump-no-silent-end", props=["C09"], rule=None,
         edits=[(MARSHAL, "                    # TODO what to return here? (formerly: command_code, None)\n                    return\n", "                    # TODO what to return here? (formerly: command_code, None)\n                    pass\n")]),
    dict(id="fo-pump-completion-falls-through", props=["C05"], rule=None,
         edits=[(MARSHAL, "                    # all bytes were depleted\n                    return obj\n", "                    # all bytes were depleted\n                    pass\n")]),
    dict(id="fo-walker-no-result", props=["C01"], rule="W14", names="process_array",
         edits=[(MARSHAL, "    return element_size * count, elements\n", "    pass\n")]),
    dict(id="fo-to-bytes-size-guard", props=["C02"], rule="B1", names="size",
         edits=[(BASE, "        if size is None:\n            size = self._int_size\n", "        if size is not None:\n            size = self._int_size\n")]),
    dict(id="fo-to-bytes-signed-guard", props=["C02"], rule="B1", names="signed",
         edits=[(BASE, "        if signed is None:\n            signed = self._signed\n", "        if signed is not None:\n            signed = self._signed\n")]),
    dict(id="fo-to-bytes-benign-ifexp", props=["C02"], benign=True,
         edits=[(BASE, "        if size is None:\n            size = self._int_size\n", "        size = self._int_size if size is None else size\n")]),
    dict(id="fo-hex-first-test-negated", props=["C15"], rule="F8", names="hex scanner",
         edits=[(HEX, "            if not high_nibble.strip():\n", "            if high_nibble.strip():\n")]),
    dict(id="fo-hex-break-on-whitespace", props=["C15"], rule="F8", names="hex scanner",
         edits=[(HEX, "                low_nibble = bytes([next(buffer)])\n                continue\n", "                low_nibble = bytes([next(buffer)])\n                break\n")]),
    dict(id="fo-hex-no-reset", props=["C15"], rule="F8", names="hex scanner",
         edits=[(HEX, '        yield int(high_nibble + low_nibble, 16)\n\n        high_nibble = b""\n', '        yield int(high_nibble + low_nibble, 16)\n\n')]),
    dict(id="fo-hex-base-17", props=["C15"], rule=None,
         edits=[(HEX, "        yield int(high_nibble + low_nibble, 16)\n", "        yield int(high_nibble + low_nibble, 17)\n")]),
    dict(id="fo-hex-silent-on-odd", props=["C15"], rule=None,
         edits=[(HEX, '            raise ValueError("Invalid hex string: uneven amount of digits.")\n', "            return\n")]),
    dict(id="fo-hex-raw-next", props=["C10"], rule="T6", names="next()",
         edits=[(HEX, '    """Generator: hex string to bytes."""\n    buffer = iter(buffer)\n\n    high_nibble', '    """Generator: hex string to bytes."""\n\n    high_nibble')]),
    dict(id="fo-swtpm-raw-next", props=["C10"], rule="T6", names="next()",
         edits=[(SWTPM, '    """Generator: hex string to bytes."""\n    buffer = iter(buffer)\n\n    value', '    """Generator: hex string to bytes."""\n\n    value')]),
    dict(id="fo-auto-magic-negated", props=["C15"], rule="F9", names="detector",
         edits=[(AUTO, '    if look_ahead == b"\\x0a\\x0d":\n', '    if look_ahead != b"\\x0a\\x0d":\n')]),
    dict(id="fo-auto-hex-negated", props=["C15"], rule="F9", names="detector",
         edits=[(AUTO, '        if re.match(b"[0-9a-fA-F]{2}", look_ahead):\n', '        if not re.match(b"[0-9a-fA-F]{2}", look_ahead):\n')]),
    dict(id="fo-auto-strict-negated", props=["C15"], rule="F9", names="detector",
         edits=[(AUTO, "            if not strict:\n", "            if strict:\n")]),
    dict(id="fo-auto-strict-default", props=["C15"], rule="F9", names="strict",
         edits=[(AUTO, "command_code=None, strict=False, **kwargs", "command_code=None, strict=True, **kwargs")]),
    dict(id="fo-auto-benign-elif", props=["C15"], benign=True,
         edits=[(AUTO, """    else:
        if re.match(b"[0-9a-fA-F]{2}", look_ahead):
            # look ahead is valid hex, so it's MAYBE hex
            if not strict:
                yield "hex"
            else:
                raise IOError(
                    f"Ambiguous input format: magic number is {binascii.hexlify(look_ahead).decode()}. Could be binary or hex."
                )
        else:
            # not valid hex, so it must be binary
            yield "binary"
""", """    elif not re.match(b"[0-9a-fA-F]{2}", look_ahead):
        # not valid hex, so it must be binary
        yield "binary"
    elif strict:
        raise IOError(
            f"Ambiguous input format: magic number is {binascii.hexlify(look_ahead).decode()}. Could be binary or hex."
        )
    else:
        # look ahead is valid hex, so it's MAYBE hex
        yield "hex"
""")]),
    dict(id="fo-pcap-stop-at-empty", props=["C15"], rule="F5", names="packet loop",
         edits=[(PCAP, "        if not binary_blob:\n            continue\n", "        if not binary_blob:\n            break\n")]),
    dict(id="fo-pcap-stale-packet", props=["C15"], rule="F5", names="payload source",
         edits=[(PCAP, "                pkg = parser(pkg_bytes)\n                break\n", "                parser(pkg_bytes)\n                break\n")]),
    dict(id="fo-pcap-unwrap-negated", props=["C15"], rule="F5", names="unwrap",
         edits=[(PCAP, "        while not isinstance(pkg, bytes):\n", "        while isinstance(pkg, bytes):\n")]),
    dict(id="fo-charge-default-anticipates", props=["C03"], rule="R2", names="anticipate_only",
         edits=[(CONSTR, "    def bytes_parsed(self, path, size, anticipate_only=False):\n        # TODO always", "    def bytes_parsed(self, path, size, anticipate_only=True):\n        # TODO always")]),
    dict(id="fo-selector-type-of-other-field", props=["C04"], rule="V6", names="tpm_type",
         edits=[(MARSHAL, "                f.type for f in fields(tpm_type) if f.name == selector_name\n", "                f.type for f in fields(tpm_type) if f.name != selector_name\n")]),
    dict(id="fo-suggestion-cutoff", props=["C19"], rule="L2", names="suggestion",
         edits=[(MAIN, "n=1, cutoff=0)[0]", "n=1, cutoff=1)[0]")]),
    dict(id="fo-suggestion-index", props=["C19"], rule="L2", names="suggestion",
         edits=[(MAIN, "n=1, cutoff=0)[0]", "n=1, cutoff=0)[1]")]),
    dict(id="fo-suggestion-benign-n", props=["C19"], benign=True,
         edits=[(MAIN, "n=1, cutoff=0)[0]", "n=3, cutoff=0.0)[0]")]),
    dict(id="fo-pretty-mode-negated", props=["C14"], rule="Q5", names="list folding mode",
         edits=[(PRETTY, "    if is_tpm2b:\n        # consume all list elements\n", "    if not is_tpm2b:\n        # consume all list elements\n")]),
    dict(id="fo-pretty-byte-test-negated", props=["C14"], rule="Q5", names="list folding",
         edits=[(PRETTY, "parent_event.type.__args__[0] is BYTE\n", "parent_event.type.__args__[0] is not BYTE\n")]),
    dict(id="fo-pretty-membership-or", props=["C14"], rule="Q5", names="list membership",
         edits=[(PRETTY, "            parent.path[:-1] == event.path[:-1]\n            and parent.path[-1].name", "            parent.path[:-1] == event.path[:-1]\n            or parent.path[-1].name")]),
    dict(id="fo-pretty-membership-prefix", props=["C14"], rule="Q5", names="list membership",
         edits=[(PRETTY, "            parent.path[:-1] == event.path[:-1]\n", "            parent.path[:-2] == event.path[:-2]\n")]),
    dict(id="fo-pretty-flag-never-cleared", props=["C14"], rule="Q5", names="empty-list flag",
         edits=[(PRETTY, "            yield from pretty(child_event)\n            is_empty = False\n", "            yield from pretty(child_event)\n")]),
    dict(id="fo-pretty-loop-never-runs", props=["C14"], rule="Q5", names="list folding loop",
         edits=[(PRETTY, "        # consume all list elements\n        while True:\n            # get next (potential) child_event\n            try:\n                child_event = next(events_generator)\n            except StopIteration:\n                if is_empty:",
                 "        # consume all list elements\n        while False:\n            # get next (potential) child_event\n            try:\n                child_event = next(events_generator)\n            except StopIteration:\n                if is_empty:")]),
    dict(id="fo-pretty-buffer-unbound", props=["C14"], rule="Q6", names="unbound local",
         edits=[(PRETTY, '        child_buffer = b""\n        while True:', "        while True:")]),
    dict(id="fo-events-name-unbound", props=["C14"], rule="Q6", names="undefined name",
         edits=[(EVENTS, '        name = f"{Fore.LIGHTGREEN_EX}{event.path}{Style.RESET_ALL}"\n', "")]),
    dict(id="fo-find-type-buffer-undefined", props=["C19"], rule="L6", names="undefined name",
         edits=[(MAIN, "    buffer = bytes(bytes_from_files(args.file))\n\n    canonical_objs", "\n    canonical_objs")]),
    dict(id="fo-canonical-stays-lazy", props=["C19"], rule="L7", names="eager",
         edits=[(S + "common/canonical.py", "        if not lazy:\n            self.events  # resolve\n", "        if lazy:\n            self.events  # resolve\n")]),
    dict(id="fo-canonical-drops-strictness", props=["C19"], rule="L7", names="decode arguments",
         edits=[(S + "common/canonical.py", "                    command_code=command_code,\n                    abort_on_error=abort_on_error,\n", "                    command_code=command_code,\n")]),
    dict(id="fo-type-listing-swapped", props=["C19"], rule="L7", names="type listing",
         edits=[(MAIN, "        if isinstance(canonical_obj.object, Response):\n", "        if not isinstance(canonical_obj.object, Response):\n")]),
    dict(id="fo-bitfield-no-attributes", props=["C17"], rule="M2", names="registration",
         edits=[(VALUES, '        if not hasattr(cls, "attributes"):\n            setattr(cls, "attributes", attributes)\n', '        if hasattr(cls, "attributes"):\n            setattr(cls, "attributes", attributes)\n')]),
    dict(id="fo-selector-type-unbound", props=["C06"], rule="X5", names="undefined name",
         edits=[(MARSHAL, "            selector_type = next(\n                f.type for f in fields(tpm_type) if f.name == selector_name\n            )\n", "")]),
]
MUTANTS += FIRST_ORDER_MUTANTS

# seeded regressions written by independent sub-agents (seeded/<id>/): kept as regression tests of the checkers
import glob as _glob
import json as _json
import os as _os

_SEEDED = _os.path.join(_os.path.dirname(_os.path.dirname(_os.path.abspath(__file__))), "seeded")
for _meta in sorted(_glob.glob(_os.path.join(_SEEDED, "*", "meta.json"))):
    try:
        _m = _json.load(open(_meta))
    except Exception:
        continue
    if _m.get("caught_by_target_property"):
        MUTANTS.append(dict(id="seed-" + _m["id"], props=[_m["property"]], rule=None,
                            patch=_os.path.join(_os.path.dirname(_meta), "patch.diff"), edits=[]))


# behaviour-preserving refactorings written by independent sub-agents (seeded/benign/<id>/): every check must stay silent
for _patch in sorted(_glob.glob(_os.path.join(_SEEDED, "benign", "*", "patch.diff"))):
    _bid = _os.path.basename(_os.path.dirname(_patch))
    try:
        if _json.load(open(_os.path.join(_os.path.dirname(_patch), "meta.json"))).get("status") == "open":
            continue  # a refactoring the analyser does not see through yet (listed in DESIGN.md): not part of the gate
    except Exception:
        continue
    MUTANTS.append(dict(id="benign-" + _bid, props=ALL, benign=True, patch=_patch, edits=[]))
