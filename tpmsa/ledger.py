"""E3 - failure-site ledger for the decode core.

Every place where an exception can originate in the functions reachable from `marshal()` is
enumerated: `assert`, `raise` (class resolved through reaching definitions / enclosing handler),
scope-unbound names, and a closed list of implicit-failure idioms that actually occur in these
files.  Rules then have to discharge every site (see rules/c06.py, c08.py).
"""
from __future__ import annotations

import ast

from .callgraph import CallGraph, FnRef
from .cfg import CFG
from .flow import ExcHierarchy, ReachingDefs, is_generator
from .project import AnalysisError, call_name, norm, walk_no_nested

CORE_MODULES = (
    "tpmstream.io.binary.marshal", "tpmstream.common.constraints", "tpmstream.spec.commands.params_common",
)
VALUE_LAYER = (
    ("tpmstream.spec.common.base_type", ("_INT.__init__", "_INT.is_valid", "numeric.__eq__", "numeric.__int__", "numeric.__hash__",
                                          "numeric.__ne__", "numeric.__index__")),
    ("tpmstream.spec.common.values", ("ValidValues.__contains__", "ValidValues.get", "NamedRange.__contains__", "NamedRange.by_number",
                                      "tpm_enum._tpm_enum.__init__", "tpm_enum._tpm_enum.by_value", "tpm_enum._tpm_enum.class_iter",
                                      "tpm_enum._tpm_enum.class_contains", "tpm_bitfield.decorator.__init__", "tpm_dataclass")),
    ("tpmstream.common.error", None), ("tpmstream.common.event", None), ("tpmstream.common.path", None), ("tpmstream.common.util", None),
)
SUBSCRIPT_IDIOMS = ("values", "_selectors", "_type_maps", "_list_size", "selection", "types_map", "__args__")


class Site:
    def __init__(self, ref: FnRef, node, kind, cls, detail=""):
        self.ref, self.node, self.kind, self.cls, self.detail = ref, node, kind, cls, detail
        self.discharged_by = None
        self.reason = ""

    @property
    def text(self):
        if isinstance(self.node, ast.Assert):
            return ("assert " + norm(self.node.test)).splitlines()[0][:110]
        return norm(self.node).splitlines()[0][:110]

    def __repr__(self):
        return f"<{self.kind} {self.cls} in {self.ref.qual} L{getattr(self.node, 'lineno', '?')}: {self.text}>"


def scope_functions(project, cg: CallGraph):
    refs = []
    for m in CORE_MODULES:
        for q in project.module(m).functions():
            refs.append(cg.get(m, q))
    for m, quals in VALUE_LAYER:
        mod = project.module(m)
        for q in (quals if quals is not None else mod.functions()):
            r = cg.get(m, q)
            if r is None:
                raise AnalysisError(f"ledger: {m}.{q} not found")
            refs.append(r)
    return refs


def _guarded_not_none(stmt, name):
    """is the statement control dependent (in the true branch) on a test that establishes `name` is an error object?"""
    from .rules.c07 import error_test
    child, p = stmt, getattr(stmt, "_parent", None)
    while p is not None and not isinstance(p, (ast.FunctionDef, ast.AsyncFunctionDef)):
        if isinstance(p, ast.If) and any(child is x for x in p.body):
            conj = p.test.values if isinstance(p.test, ast.BoolOp) and isinstance(p.test.op, ast.And) else [p.test]
            if any(error_test(c, name) is True for c in conj):
                return True
        child, p = p, getattr(p, "_parent", None)
    return False


def raised_class(fn_cfg, rd, node_ast):
    exc = node_ast.exc
    if exc is None:
        h = node_ast
        while h is not None and not isinstance(h, ast.ExceptHandler):
            h = getattr(h, "_parent", None)
        return norm(h.type) if h is not None and h.type is not None else "Exception"
    if isinstance(exc, ast.Call):
        return call_name(exc) or "Exception"
    if isinstance(exc, ast.Name):
        n = fn_cfg.node_of(node_ast)
        classes = set()
        for r in rd.value_exprs(n, exc.id):
            if r[0] == "handler":
                t = r[1].type
                classes.add(norm(t) if t is not None else "Exception")
            elif r[0] == "expr" and isinstance(r[1], ast.Call):
                classes.add(call_name(r[1]) or "Exception")
            elif r[0] == "expr" and isinstance(r[1], ast.Constant) and r[1].value is None and _guarded_not_none(node_ast, exc.id):
                continue  # `e = None` cannot reach a raise that is guarded by `e is not None` / `e`
            else:
                classes.add("Exception")
        if len(classes) == 1:
            return classes.pop()
        return "|".join(sorted(classes)) or exc.id
    return "Exception"


def collect_sites(project, cg=None):
    cg = cg or CallGraph(project)
    sites = []
    refs = scope_functions(project, cg)
    for ref in refs:
        fn = ref.node
        cfg = CFG(fn)
        rd = ReachingDefs(cfg)
        gen = is_generator(fn)
        local = set(rd.params)
        for d in rd.defs.values():
            local |= set(d)
        for n in walk_no_nested(fn):
            if isinstance(n, ast.Assert):
                sites.append(Site(ref, n, "assert", "AssertionError"))
            elif isinstance(n, ast.Raise):
                sites.append(Site(ref, n, "raise", raised_class(cfg, rd, n)))
            elif isinstance(n, ast.Call) and call_name(n) == "next" and len(n.args) == 1 and isinstance(n.args[0], ast.GeneratorExp):
                sites.append(Site(ref, n, "idiom:next-genexp", "RuntimeError" if gen else "StopIteration"))
            elif isinstance(n, ast.Subscript) and isinstance(n.ctx, ast.Load):
                base = n.value
                bname = base.id if isinstance(base, ast.Name) else base.attr if isinstance(base, ast.Attribute) else None
                if bname in SUBSCRIPT_IDIOMS:
                    sites.append(Site(ref, n, f"idiom:subscript-{bname}", "KeyError" if bname != "__args__" else "IndexError"))
                elif isinstance(base, (ast.ListComp,)) or (isinstance(base, ast.Call) and call_name(base) == "list"):
                    sites.append(Site(ref, n, "idiom:index-of-built-list", "IndexError"))
            elif isinstance(n, ast.Call) and isinstance(n.func, ast.Attribute) and n.func.attr == "to_bytes" \
                    and not any(k.arg == "signed" or k.arg is None for k in n.keywords) and len(n.args) < 3 \
                    and not (isinstance(n.func.value, ast.Attribute) and n.func.value.attr in ("value",)):
                # int.to_bytes defaults to unsigned: a negative value raises OverflowError
                sites.append(Site(ref, n, "idiom:to_bytes-unsigned", "OverflowError"))
            elif isinstance(n, ast.Assign) and isinstance(n.targets[0], ast.Tuple) and isinstance(n.value, ast.Call) \
                    and call_name(n.value) == "fields":
                sites.append(Site(ref, n, "idiom:unpack-fields", "ValueError"))
            elif isinstance(n, (ast.For, ast.comprehension)):
                it = n.iter
                if isinstance(it, ast.Name) and it.id in rd.params and _param_default_none(fn, it.id):
                    sites.append(Site(ref, it, "idiom:iterate-optional", "TypeError", detail=it.id))
        # scope-unbound names: loads of a local that is not definitely assigned
        must = rd.must_defined()
        glob = _module_names(ref.mod)
        for node in cfg.nodes:
            if node.ast is None or node.kind not in ("stmt", "test", "for"):
                continue
            roots = [node.ast] if node.kind != "for" else [node.ast.iter]
            for root in roots:
                for nm in _loads(root):
                    if nm.id in must[node.id]:
                        continue
                    if nm.id in local and nm.id not in rd.params:
                        if _bound_in_comprehension(nm):
                            continue
                        sites.append(Site(ref, nm, "unbound-local", "UnboundLocalError", detail=nm.id))
                    elif nm.id not in local and nm.id not in glob and nm.id not in _BUILTINS and not _bound_in_comprehension(nm) \
                            and not _enclosing_binds(fn, nm.id):
                        sites.append(Site(ref, nm, "unbound-name", "NameError", detail=nm.id))
    return sites, refs


_BUILTINS = set(dir(__import__("builtins")))


def _loads(root):
    out = []
    stack = [root]
    while stack:
        n = stack.pop()
        if isinstance(n, (ast.FunctionDef, ast.AsyncFunctionDef, ast.ClassDef, ast.Lambda)) and n is not root:
            continue
        if isinstance(n, ast.Name) and isinstance(n.ctx, ast.Load):
            out.append(n)
        stack.extend(ast.iter_child_nodes(n))
    return out


def _bound_in_comprehension(name_node):
    p = getattr(name_node, "_parent", None)
    while p is not None and not isinstance(p, ast.stmt):
        if isinstance(p, (ast.ListComp, ast.SetComp, ast.DictComp, ast.GeneratorExp)):
            for g in p.generators:
                if any(isinstance(x, ast.Name) and x.id == name_node.id for x in ast.walk(g.target)):
                    return True
        p = getattr(p, "_parent", None)
    return False


def _enclosing_binds(fn, name):
    p = getattr(fn, "_parent", None)
    while p is not None:
        if isinstance(p, (ast.FunctionDef, ast.AsyncFunctionDef)):
            for n in ast.walk(p):
                if isinstance(n, ast.Name) and isinstance(n.ctx, ast.Store) and n.id == name:
                    return True
                if isinstance(n, ast.arg) and n.arg == name:
                    return True
                if isinstance(n, (ast.FunctionDef, ast.ClassDef)) and n.name == name:
                    return True
        p = getattr(p, "_parent", None)
    return False


def _module_names(mod):
    out = set()
    for st in mod.tree.body:
        if isinstance(st, (ast.Import, ast.ImportFrom)):
            for a in st.names:
                out.add((a.asname or a.name).split(".")[0])
        elif isinstance(st, (ast.FunctionDef, ast.ClassDef)):
            out.add(st.name)
        else:
            for n in ast.walk(st):
                if isinstance(n, ast.Name) and isinstance(n.ctx, ast.Store):
                    out.add(n.id)
                elif isinstance(n, (ast.FunctionDef, ast.ClassDef)):
                    out.add(n.name)
    return out


def _param_default_none(fn, name):
    args = fn.args.args
    defaults = [None] * (len(args) - len(fn.args.defaults)) + list(fn.args.defaults)
    for a, d in zip(args, defaults):
        if a.arg == name:
            return isinstance(d, ast.Constant) and d.value is None
    return False


def enclosing_handlers(node):
    """[(ExceptHandler types, try node)] for try-bodies that enclose `node` (innermost first)."""
    out = []
    child, p = node, getattr(node, "_parent", None)
    while p is not None and not isinstance(p, (ast.FunctionDef, ast.AsyncFunctionDef)):
        if isinstance(p, ast.Try) and any(child is x or any(child is y for y in ast.walk(x)) for x in p.body):
            for h in p.handlers:
                names = ["*"] if h.type is None else [norm(e) for e in (h.type.elts if isinstance(h.type, ast.Tuple) else [h.type])]
                out.append((names, h))
        child, p = p, getattr(p, "_parent", None)
    return out


def caught_locally(site: Site, hier: ExcHierarchy):
    for names, h in enclosing_handlers(site.node):
        for cls in site.cls.split("|"):
            if any(n == "*" or hier.is_subclass(cls, n) for n in names):
                return h
    return None
