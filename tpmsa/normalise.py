"""Refactoring-tolerant normal form of a module's syntax tree.

The rules of this analyser were confirmed against the shape of today's tree (pinned/shape.json:
the functions of every module, the locals of every function, the module-level names).  A later
tree may express the same computation through constructs that did not exist then: an extracted
helper function, a hoisted sub-expression, a module-level constant, a conditional expression.
This pass undoes exactly those *new* constructs, semantics-preservingly, before any rule looks
at the tree:

 N1 helper inlining     a function / method that is not in the pinned shape and is called directly
                        from the same module (class) is inlined at its call sites: as an expression
                        when its body reduces to one expression (nested `if ...: return` chains
                        become conditional expressions), otherwise as a block when the call is the
                        whole right-hand side of an assignment, a `return`, an expression statement
                        (also through `yield from`) and all its returns are in tail position;
                        a helper whose every call site was inlined is dropped.
 N2 forward substitution a local that is not in the pinned shape of its function, is bound exactly
                        once to an effect-free expression whose free names are not rebound before
                        the uses, is replaced by that expression.
 N3 constants           a module-level name that is not in the pinned shape and is bound once to
                        a literal (constant, tuple/dict of literals and names) is replaced by it.
 N4 conditional value   `x = a if c else b` / `return a if c else b` statements become if/else
                        statements (only for new conditional expressions: when the pinned function
                        had none).

Every node keeps the line number of the source it came from, so reports point at real lines.
Anything the pass cannot prove safe is left as it is (the rules then see a construct they do not
know and say so).  Nothing is executed.
"""
from __future__ import annotations

import ast
import copy
import json
import os

HERE = os.path.dirname(os.path.dirname(os.path.abspath(__file__)))
SHAPE = os.path.join(HERE, "pinned", "shape.json")

PURE_FUNCS = {
    "len", "isinstance", "issubclass", "getattr", "hasattr", "type", "fields", "is_list", "is_dataclass", "bytes", "int", "str",
    "list", "dict", "tuple", "set", "sorted", "min", "max", "sum", "any", "all", "repr", "abs", "bool", "range", "enumerate", "zip",
    "PathNode", "Path", "ValidValues", "frozenset", "id", "callable", "format", "ord", "chr", "hex", "bin", "reversed", "divmod",
    "get_type_name", "cc_name", "int.from_bytes", "binascii.hexlify", "binascii.unhexlify", "re.match", "re.fullmatch", "re.search",
    "get_origin", "get_args", "iter_fields",
}
PURE_METHODS = {
    "startswith", "endswith", "keys", "values", "items", "get", "decode", "encode", "zfill", "ljust", "rjust", "strip", "lstrip",
    "rstrip", "split", "join", "hex", "lower", "upper", "isupper", "islower", "bit_length", "to_bytes", "from_bytes", "translate",
    "replace", "format", "index", "count", "copy", "with_index", "attributes", "find", "partition", "rpartition", "isdigit",
    "title", "casefold", "removeprefix", "removesuffix", "union", "intersection", "difference", "issubset", "isdisjoint",
}
MUTATING = {"append", "extend", "insert", "pop", "remove", "clear", "update", "setdefault", "add", "discard", "sort", "reverse",
            "popitem", "appendleft"}

_shape_cache = {}


def load_shape():
    if "s" not in _shape_cache:
        try:
            with open(SHAPE) as fh:
                _shape_cache["s"] = json.load(fh)
        except OSError:
            _shape_cache["s"] = None
    return _shape_cache["s"]


# ------------------------------------------------------------------------------------------ shape
def fn_locals(fn):
    names = {a.arg for a in ast.walk(fn.args) if isinstance(a, ast.arg)}
    for n in _walk_fn(fn):
        if isinstance(n, ast.Name) and isinstance(n.ctx, (ast.Store, ast.Del)):
            names.add(n.id)
        elif isinstance(n, ast.ExceptHandler) and n.name:
            names.add(n.name)
        elif isinstance(n, (ast.FunctionDef, ast.AsyncFunctionDef, ast.ClassDef)):
            names.add(n.name)
    return names


def _walk_fn(fn):
    """nodes of a function body, not descending into nested defs / lambdas / classes (comprehensions are descended)"""
    stack = list(fn.body)
    while stack:
        n = stack.pop()
        yield n
        if isinstance(n, (ast.FunctionDef, ast.AsyncFunctionDef, ast.ClassDef, ast.Lambda)):
            continue
        stack.extend(ast.iter_child_nodes(n))


def functions_of(tree):
    out = {}

    def visit(node, prefix):
        for child in ast.iter_child_nodes(node):
            if isinstance(child, (ast.FunctionDef, ast.AsyncFunctionDef)):
                out[prefix + child.name] = child
                visit(child, prefix + child.name + ".")
            elif isinstance(child, ast.ClassDef):
                visit(child, prefix + child.name + ".")
            elif isinstance(child, (ast.If, ast.Try, ast.With, ast.For, ast.While)):
                visit(child, prefix)
    visit(tree, "")
    return out


def module_names(tree):
    out = set()
    for st in tree.body:
        if isinstance(st, ast.Assign):
            for t in st.targets:
                out |= {n.id for n in ast.walk(t) if isinstance(n, ast.Name)}
        elif isinstance(st, (ast.AnnAssign, ast.AugAssign)) and isinstance(st.target, ast.Name):
            out.add(st.target.id)
    return out


def shape_of(tree):
    fns = functions_of(tree)
    return {
        "functions": {q: {"locals": sorted(fn_locals(f)), "ifexp": sum(isinstance(n, ast.IfExp) for n in _walk_fn(f))}
                      for q, f in fns.items()},
        "names": sorted(module_names(tree)),
        "attrs": sorted({n.attr for n in ast.walk(tree) if isinstance(n, ast.Attribute)} |
                        {a.arg for n in ast.walk(tree) if isinstance(n, ast.Call) for a in n.keywords if a.arg}),
    }


# --------------------------------------------------------------------------------------- purity
def _callee(call):
    f = call.func
    parts = []
    while isinstance(f, ast.Attribute):
        parts.append(f.attr)
        f = f.value
    if isinstance(f, ast.Name):
        parts.append(f.id)
        return ".".join(reversed(parts))
    return None


def is_pure(expr, extra_pure=()):
    """effect-free and cheap to duplicate, as far as syntax can tell"""
    for n in ast.walk(expr):
        if isinstance(n, (ast.Yield, ast.YieldFrom, ast.Await, ast.NamedExpr, ast.Lambda, ast.Starred)):
            if isinstance(n, ast.Starred):
                continue
            if isinstance(n, ast.Lambda):
                continue
            return False
        if isinstance(n, ast.Call):
            name = _callee(n)
            if name in PURE_FUNCS or name in extra_pure:
                continue
            if isinstance(n.func, ast.Attribute) and n.func.attr in PURE_METHODS:
                continue
            if isinstance(n.func, ast.Name) and n.func.id[:1].isupper() and n.func.id.isupper() is False and False:
                continue
            return False
        if isinstance(n, (ast.ListComp, ast.SetComp, ast.DictComp, ast.GeneratorExp)):
            # a generator expression is single-use: substituting it at one use is fine, at several it is not
            pass
    return True


def _mutable_value(e):
    """a freshly built mutable container: an object with identity, never to be duplicated by substitution"""
    if isinstance(e, (ast.Dict, ast.List, ast.Set, ast.ListComp, ast.DictComp, ast.SetComp)):
        return True
    if isinstance(e, ast.Call) and _callee(e) in ("list", "dict", "set", "bytearray", "defaultdict", "SizeConstraint", "SizeConstraintList"):
        return True
    if isinstance(e, ast.IfExp):
        return _mutable_value(e.body) or _mutable_value(e.orelse)
    return False


def _roots_written(node):
    """names whose object or binding is written by this node (statement level)"""
    out = set()
    for n in ast.walk(node):
        if isinstance(n, ast.Name) and isinstance(n.ctx, (ast.Store, ast.Del)):
            out.add(n.id)
        elif isinstance(n, (ast.Attribute, ast.Subscript)) and isinstance(n.ctx, (ast.Store, ast.Del)):
            r = n
            while isinstance(r, (ast.Attribute, ast.Subscript)):
                r = r.value
            if isinstance(r, ast.Name):
                out.add(r.id)
        elif isinstance(n, ast.Call) and isinstance(n.func, ast.Attribute) and n.func.attr in MUTATING:
            r = n.func.value
            while isinstance(r, (ast.Attribute, ast.Subscript)):
                r = r.value
            if isinstance(r, ast.Name):
                out.add(r.id)
        elif isinstance(n, ast.ExceptHandler) and n.name:
            out.add(n.name)
        elif isinstance(n, ast.AugAssign) and isinstance(n.target, ast.Name):
            out.add(n.target.id)
    return out


def _write_conflict(node, rhs, uses=()):
    """does executing `node` possibly change the value of the (pure) expression `rhs`?  Field-sensitive for plain
    `name.attr = ...` stores: they only touch readers of `name.attr` or of the bare object `name`."""
    fields = set()
    for n in ast.walk(node):
        if isinstance(n, ast.Attribute) and isinstance(n.ctx, (ast.Store, ast.Del)) and isinstance(n.value, ast.Name):
            fields.add((n.value.id, n.attr))
    plain = {id(n) for n in ast.walk(node) if isinstance(n, ast.Attribute) and isinstance(n.ctx, (ast.Store, ast.Del))
             and isinstance(n.value, ast.Name)}
    other = set()
    for n in ast.walk(node):
        if isinstance(n, ast.Name) and isinstance(n.ctx, (ast.Store, ast.Del)):
            other.add(n.id)
        elif isinstance(n, (ast.Attribute, ast.Subscript)) and isinstance(n.ctx, (ast.Store, ast.Del)) and id(n) not in plain:
            r = n
            while isinstance(r, (ast.Attribute, ast.Subscript)):
                r = r.value
            if isinstance(r, ast.Name):
                other.add(r.id)
        elif isinstance(n, ast.Call) and isinstance(n.func, ast.Attribute) and n.func.attr in MUTATING:
            r = n.func.value
            while isinstance(r, (ast.Attribute, ast.Subscript)):
                r = r.value
            if isinstance(r, ast.Name):
                other.add(r.id)
        elif isinstance(n, ast.ExceptHandler) and n.name:
            other.add(n.name)
    free = {n.id for n in ast.walk(rhs) if isinstance(n, ast.Name) and isinstance(n.ctx, ast.Load)}
    if other & free:
        return True
    attr_value_names = {id(n.value) for n in ast.walk(rhs) if isinstance(n, ast.Attribute) and isinstance(n.value, ast.Name)}
    bare = {n.id for n in ast.walk(rhs) if isinstance(n, ast.Name) and isinstance(n.ctx, ast.Load) and id(n) not in attr_value_names}
    read_fields = {(n.value.id, n.attr) for n in ast.walk(rhs) if isinstance(n, ast.Attribute) and isinstance(n.value, ast.Name)}
    for r, a in fields:
        if r in bare or (r, a) in read_fields:
            return True
    # a method call on an object whose fields `rhs` reads (or handing that object to a call) may change them
    field_roots = {r for r, _ in read_fields}
    for n in ast.walk(node):
        if isinstance(n, ast.Call):
            if any(_contains(a, u) for u in uses for a in list(n.args) + [k.value for k in n.keywords]):
                continue  # the use is evaluated before this call runs
            if isinstance(n.func, ast.Attribute) and isinstance(n.func.value, ast.Name) and n.func.value.id in field_roots \
                    and n.func.attr not in PURE_METHODS:
                return True
            if any(isinstance(a, ast.Name) and a.id in field_roots for a in list(n.args) + [k.value for k in n.keywords]) and \
                    not (isinstance(n.func, ast.Name) and (n.func.id in PURE_FUNCS or n.func.id.endswith(("Error", "Event")))):
                return True   # (error / event objects are passive carriers: their constructors keep references, nothing else)
    return False


def _pos(n):
    return (getattr(n, "lineno", 0), getattr(n, "col_offset", 0))


class _Subst(ast.NodeTransformer):
    def __init__(self, mapping):
        self.mapping = mapping

    def visit_Name(self, node):
        if isinstance(node.ctx, ast.Load) and node.id in self.mapping:
            new = copy.deepcopy(self.mapping[node.id])
            return ast.copy_location(new, node) if not hasattr(new, "lineno") else new
        return node

    def visit_Lambda(self, node):
        shadow = {a.arg for a in ast.walk(node.args) if isinstance(a, ast.arg)}
        if shadow & set(self.mapping):
            return _Subst({k: v for k, v in self.mapping.items() if k not in shadow}).generic_visit(node)
        return self.generic_visit(node)


def substitute(node, mapping):
    return _Subst(mapping).visit(node)


class _Rename(ast.NodeTransformer):
    def __init__(self, mapping):
        self.mapping = mapping

    def visit_Name(self, node):
        if node.id in self.mapping:
            node.id = self.mapping[node.id]
        return node

    def visit_ExceptHandler(self, node):
        if node.name in self.mapping:
            node.name = self.mapping[node.name]
        return self.generic_visit(node)

    def visit_arg(self, node):
        return node


# ------------------------------------------------------------------------------ N2 forward subst
def _stmt_lists(fn):
    """every statement list in fn (not nested defs) with its owner"""
    out = []

    def visit(owner):
        for field in ("body", "orelse", "finalbody"):
            lst = getattr(owner, field, None)
            if isinstance(lst, list) and lst and isinstance(lst[0], ast.stmt):
                out.append((owner, field, lst))
                for st in lst:
                    if not isinstance(st, (ast.FunctionDef, ast.AsyncFunctionDef, ast.ClassDef)):
                        visit(st)
        for h in getattr(owner, "handlers", []) or []:
            visit(h)
        for c in getattr(owner, "cases", []) or []:
            visit(c)
    visit(fn)
    return out


def _contains(node, target):
    return any(n is target for n in ast.walk(node))


def _evaluated_first(stmt, use, extra_pure=()):
    """is the Name node `use` evaluated in `stmt` exactly once, unconditionally, and before anything with an effect?"""
    if isinstance(stmt, (ast.Assign, ast.AnnAssign, ast.Return, ast.Expr)):
        root = stmt.value
    elif isinstance(stmt, ast.If):
        root = stmt.test
    elif isinstance(stmt, ast.For):
        root = stmt.iter
    elif isinstance(stmt, ast.Raise) and stmt.cause is None:
        root = stmt.exc
    elif isinstance(stmt, ast.Assert) and stmt.msg is None:
        root = stmt.test
    else:
        return False
    if root is None:
        return False
    node = root
    while node is not use:
        if isinstance(node, (ast.Call,)):
            kids = [node.func] + list(node.args) + [k.value for k in node.keywords]
        elif isinstance(node, ast.BinOp):
            kids = [node.left, node.right]
        elif isinstance(node, (ast.Yield, ast.YieldFrom, ast.Starred, ast.UnaryOp, ast.Attribute, ast.FormattedValue)):
            kids = [node.value if not isinstance(node, ast.UnaryOp) else node.operand]
        elif isinstance(node, ast.Subscript):
            kids = [node.value, node.slice]
        elif isinstance(node, ast.Compare):
            kids = [node.left, node.comparators[0]]  # later comparators are conditional
        elif isinstance(node, ast.BoolOp):
            kids = [node.values[0]]
        elif isinstance(node, ast.IfExp):
            kids = [node.test]
        elif isinstance(node, (ast.Tuple, ast.List, ast.Set)):
            kids = list(node.elts)
        elif isinstance(node, ast.JoinedStr):
            kids = list(node.values)
        else:
            return False
        nxt = None
        for k in kids:
            if k is None:
                continue
            if _contains(k, use):
                nxt = k
                break
            if not is_pure(k, extra_pure):
                return False
        if nxt is None:
            return False
        node = nxt
    return True


def forward_substitute(fn, candidates, extra_pure=()):
    """replace single-definition effect-free locals named in `candidates` by their definition. Returns #substituted."""
    done = 0
    progress = True
    while progress:
        progress = False
        stores = {}
        for n in _walk_fn(fn):
            if isinstance(n, ast.Name) and isinstance(n.ctx, (ast.Store, ast.Del)):
                stores.setdefault(n.id, []).append(n)
            elif isinstance(n, ast.ExceptHandler) and n.name:
                stores.setdefault(n.name, []).append(n)
        params = {a.arg for a in ast.walk(fn.args) if isinstance(a, ast.arg)}
        nested_uses = set()
        for n in _walk_fn(fn):
            if isinstance(n, (ast.FunctionDef, ast.AsyncFunctionDef, ast.Lambda, ast.ClassDef)):
                nested_uses |= {x.id for x in ast.walk(n) if isinstance(x, ast.Name)}
        for owner, field, lst in _stmt_lists(fn):
            for i, st in enumerate(lst):
                if not (isinstance(st, ast.Assign) and len(st.targets) == 1 and isinstance(st.targets[0], ast.Name)):
                    continue
                var = st.targets[0].id
                if var not in candidates or var in params or len(stores.get(var, ())) != 1 or var in nested_uses:
                    continue
                if any(isinstance(g, (ast.Global, ast.Nonlocal)) and var in g.names for g in _walk_fn(fn)):
                    continue
                rhs = st.value
                if not is_pure(rhs, extra_pure):
                    # an effectful definition may still move if its only use is the first thing the next statement evaluates
                    uses = [n for n in _walk_fn(fn) if isinstance(n, ast.Name) and n.id == var and isinstance(n.ctx, ast.Load)]
                    if len(uses) == 1 and i + 1 < len(lst) and _evaluated_first(lst[i + 1], uses[0], extra_pure) and \
                            not any(isinstance(x, (ast.Yield, ast.YieldFrom, ast.Await, ast.NamedExpr)) for x in ast.walk(rhs)):
                        substitute(lst[i + 1], {var: rhs})
                        del lst[i]
                        done += 1
                        progress = True
                        break
                    continue
                if _mutable_value(rhs) and any(var in _roots_written(s_) for s_ in lst[i + 1:]):
                    continue  # a container that is filled in later is an object, not a value
                uses = [n for n in _walk_fn(fn) if isinstance(n, ast.Name) and n.id == var and isinstance(n.ctx, ast.Load)]
                if not uses:
                    continue  # nothing to substitute: the statement stays (rules may care that the expression is evaluated)
                later = lst[i + 1:]
                if not all(any(_contains(s, u) for s in later) for u in uses):
                    continue  # a use that the definition does not dominate structurally
                single_use_only = any(isinstance(x, (ast.GeneratorExp,)) for x in ast.walk(rhs)) or \
                    any(isinstance(x, ast.Call) and _callee(x) in ("iter", "reversed", "zip", "enumerate") for x in ast.walk(rhs))
                if single_use_only and len(uses) > 1:
                    continue
                if len(uses) > 1 and any(isinstance(x, ast.Call) for x in ast.walk(rhs)):
                    continue  # never duplicate a call site (rules count them); the local stays and is resolved by def-use
                free = {n.id for n in ast.walk(rhs) if isinstance(n, ast.Name) and isinstance(n.ctx, ast.Load)}
                # no free name (or the object it denotes) may be written between the definition and the last use
                ok = True
                if uses:
                    last = max(range(len(later)), key=lambda k: (any(_contains(later[k], u) for u in uses), k))
                    last = max(k for k in range(len(later)) if any(_contains(later[k], u) for u in uses))
                    for s in later[:last + 1]:
                        if _write_conflict(s, rhs, uses):
                            # writes inside the same statement as a use: order unknown -> refuse, except the trivial
                            # case where the write is the statement's own assignment target after evaluating the use
                            if isinstance(s, (ast.Assign, ast.AugAssign, ast.AnnAssign)) and not (
                                    _roots_written(s.value if s.value is not None else ast.Pass()) & free) and \
                                    s is later[last] and not any(_contains(t, u) for u in uses
                                                                for t in (s.targets if isinstance(s, ast.Assign) else [s.target])):
                                continue
                            ok = False
                            break
                    # uses inside a loop that does not contain the definition: free names must not be written in that loop
                    if ok:
                        for s in later[:last + 1]:
                            for loop in [x for x in ast.walk(s) if isinstance(x, (ast.For, ast.AsyncFor, ast.While))]:
                                if any(_contains(loop, u) for u in uses) and _write_conflict(loop, rhs, uses):
                                    ok = False
                if not ok:
                    continue
                mapping = {var: rhs}
                for s in later:
                    substitute(s, mapping)
                del lst[i]
                if not lst:
                    lst.append(ast.copy_location(ast.Pass(), st))
                done += 1
                progress = True
                break
            if progress:
                break
    return done


# ---------------------------------------------------------------------------------- N1 inlining
class NotInlineable(Exception):
    pass


def _strip_doc(body):
    if body and isinstance(body[0], ast.Expr) and isinstance(body[0].value, ast.Constant) and isinstance(body[0].value.value, str):
        return body[1:]
    return body


def _has_return(node):
    return any(isinstance(n, ast.Return) for n in _walk_stmt(node))


def _walk_stmt(node):
    stack = [node]
    while stack:
        n = stack.pop()
        yield n
        if isinstance(n, (ast.FunctionDef, ast.AsyncFunctionDef, ast.ClassDef, ast.Lambda)) and n is not node:
            continue
        stack.extend(ast.iter_child_nodes(n))


def _terminates(stmts):
    """does every path through the list end in return / raise / continue / break?"""
    if not stmts:
        return False
    last = stmts[-1]
    if isinstance(last, (ast.Return, ast.Raise, ast.Continue, ast.Break)):
        return True
    if isinstance(last, ast.If):
        return _terminates(last.body) and _terminates(last.orelse)
    if isinstance(last, ast.Try):
        return (_terminates(last.body) or _terminates(last.orelse)) and all(_terminates(h.body) for h in last.handlers) \
            and not last.finalbody
    return False


def tailify(stmts, k, at):
    """rewrite a helper body so that every `return e` becomes k(e-node) and control then falls off the end of the block"""
    out = []
    for i, st in enumerate(stmts):
        if isinstance(st, ast.Return):
            return out + k(st)
        if _has_return(st):
            rest = stmts[i + 1:]
            if isinstance(st, ast.If):
                new = ast.If(test=st.test, body=tailify(st.body + copy.deepcopy(rest), k, st),
                             orelse=tailify(st.orelse + copy.deepcopy(rest), k, st))
                if not new.orelse or (len(new.orelse) == 1 and isinstance(new.orelse[0], ast.Pass)):
                    new.orelse = []
                return out + [ast.copy_location(new, st)]
            if isinstance(st, ast.Try) and not st.finalbody:
                if rest and not (_terminates(st.body if not st.orelse else st.orelse) and all(_terminates(h.body) for h in st.handlers)):
                    raise NotInlineable("statements after a try block that returns")
                new = ast.Try(body=tailify(st.body, k, st) if not st.orelse else st.body,
                              handlers=[ast.copy_location(ast.ExceptHandler(type=h.type, name=h.name, body=tailify(h.body, k, h)), h)
                                        for h in st.handlers],
                              orelse=tailify(st.orelse, k, st) if st.orelse else [], finalbody=[])
                return out + [ast.copy_location(new, st)]
            if isinstance(st, (ast.With,)) and not rest:
                new = ast.With(items=st.items, body=tailify(st.body, k, st))
                return out + [ast.copy_location(new, st)]
            raise NotInlineable(f"return inside {type(st).__name__}")
        out.append(st)
    if not _terminates(out):
        out = out + k(ast.copy_location(ast.Return(value=None), at))
    return out or [ast.copy_location(ast.Pass(), at)]


BOOLISH_CALLS = {"isinstance", "hasattr", "issubclass", "callable", "is_list", "any", "all", "bool", "is_dataclass"}
BOOLISH_METHODS = {"startswith", "endswith", "isupper", "islower", "isdigit", "issubset", "isdisjoint"}


def _boolish(e):
    if isinstance(e, ast.Constant):
        return isinstance(e.value, bool)
    if isinstance(e, ast.Compare):
        return True
    if isinstance(e, ast.UnaryOp) and isinstance(e.op, ast.Not):
        return True
    if isinstance(e, ast.BoolOp):
        return all(_boolish(v) for v in e.values)
    if isinstance(e, ast.IfExp):
        return _boolish(e.body) and _boolish(e.orelse)
    if isinstance(e, ast.Call):
        if _callee(e) in BOOLISH_CALLS:
            return True
        return isinstance(e.func, ast.Attribute) and e.func.attr in BOOLISH_METHODS
    return False


def _neg(e):
    if isinstance(e, ast.UnaryOp) and isinstance(e.op, ast.Not):
        return e.operand
    return ast.copy_location(ast.UnaryOp(op=ast.Not(), operand=e), e)


def _ifexp(test, a, b):
    """conditional expression, simplified to and/or when both arms are boolean-valued"""
    if _boolish(a) and _boolish(b) and _boolish(test):
        if isinstance(a, ast.Constant) and a.value is True:
            return ast.copy_location(ast.BoolOp(op=ast.Or(), values=[test, b]), test)
        if isinstance(a, ast.Constant) and a.value is False:
            return ast.copy_location(ast.BoolOp(op=ast.And(), values=[_neg(test), b]), test)
        if isinstance(b, ast.Constant) and b.value is False:
            return ast.copy_location(ast.BoolOp(op=ast.And(), values=[test, a]), test)
        if isinstance(b, ast.Constant) and b.value is True:
            return ast.copy_location(ast.BoolOp(op=ast.Or(), values=[_neg(test), a]), test)
    return ast.copy_location(ast.IfExp(test=test, body=a, orelse=b), test)


def as_expression(stmts):
    """the single expression a helper body computes, or None"""
    stmts = list(stmts)
    if not stmts:
        return None
    st = stmts[0]
    if isinstance(st, ast.Return):
        return st.value if st.value is not None else ast.copy_location(ast.Constant(value=None), st)
    if isinstance(st, ast.If):
        a = as_expression(st.body + (stmts[1:] if not _terminates(st.body) else []))
        b = as_expression(st.orelse + stmts[1:])
        if a is None or b is None:
            return None
        return _ifexp(st.test, a, b)
    return None


class Helper:
    def __init__(self, fn, owner_class=None):
        self.fn = fn
        self.owner = owner_class
        self.name = fn.name
        a = fn.args
        self.kwname = a.kwarg.arg if a.kwarg else None
        # a `**kwargs` parameter is supported when the body only ever hands it on as `**kwargs` in calls
        kw_ok = True
        if self.kwname:
            for n in _walk_fn(fn):
                if isinstance(n, ast.Name) and n.id == self.kwname:
                    kw_ok = False
            splats = [k for n in _walk_fn(fn) if isinstance(n, ast.Call) for k in n.keywords if k.arg is None
                      and isinstance(k.value, ast.Name) and k.value.id == self.kwname]
            uses = [n for n in _walk_fn(fn) if isinstance(n, ast.Name) and n.id == self.kwname]
            kw_ok = len(uses) == len(splats)   # (a **kwargs parameter that is never used swallows the surplus keywords)
        # a `*rest` parameter is supported when the body only reads it (the surplus positional arguments become a tuple)
        self.varname = a.vararg.arg if a.vararg else None
        var_ok = True
        if self.varname:
            var_ok = not any(isinstance(n, ast.Name) and n.id == self.varname and isinstance(n.ctx, (ast.Store, ast.Del)) for n in _walk_fn(fn))
        # a memoising decorator on a function that computes its result from its arguments alone changes nothing a caller
        # can observe through the value (C12-P4 watches the one thing it does change: the result object is shared)
        memo_only = bool(fn.decorator_list) and all(
            (lambda d: (d.func if isinstance(d, ast.Call) else d))(d_) is not None and
            ast.unparse(d_.func if isinstance(d_, ast.Call) else d_) in ("lru_cache", "functools.lru_cache", "cache", "functools.cache")
            for d_ in fn.decorator_list) and not any(isinstance(n, (ast.Yield, ast.YieldFrom, ast.Global, ast.Nonlocal, ast.ClassDef)) for n in _walk_fn(fn)) \
            and not any(isinstance(n, ast.Call) and (_callee(n) or "").split(".")[-1] in ("type", "make_dataclass", "dataclass", "tpm_dataclass", "new_class", "encrypted")
                        for n in _walk_fn(fn))   # (a memoised *type factory* is memoised for the identity of its result: never inlined)
        self.simple = var_ok and not a.posonlyargs and kw_ok and (not fn.decorator_list or memo_only) and isinstance(fn, ast.FunctionDef)
        self.params = [x.arg for x in a.args] + [x.arg for x in a.kwonlyargs]
        self.defaults = {}
        for p, d in zip(reversed(a.args), reversed(a.defaults)):
            self.defaults[p.arg] = d
        for p, d in zip(a.kwonlyargs, a.kw_defaults):
            if d is not None:
                self.defaults[p.arg] = d
        body = _strip_doc(fn.body)
        self.is_gen = any(isinstance(n, (ast.Yield, ast.YieldFrom)) for n in _walk_fn(fn))
        self.recursive = any(isinstance(n, ast.Call) and _callee(n) in (self.name, f"self.{self.name}", f"cls.{self.name}")
                             for n in _walk_fn(fn))
        self.has_nested = any(isinstance(n, (ast.FunctionDef, ast.AsyncFunctionDef, ast.ClassDef, ast.Global, ast.Nonlocal))
                              for n in _walk_fn(fn))
        self.body = body

    def usable(self):
        return self.simple and not self.recursive and not self.has_nested

    def bind(self, call, method):
        """param -> argument expression"""
        args = list(call.args)
        params = list(self.params)
        mapping = {}
        if method:
            recv = call.func.value
            if not params:
                raise NotInlineable("method without self")
            mapping[params[0]] = recv
            params = params[1:]
        npos = len(self.fn.args.args) - (1 if method else 0)
        if self.varname:
            # surplus positional arguments (a starred display / `.values()` of a dict display is spelled out) form the tuple
            fixed, rest = args[:npos], []
            if any(isinstance(a, ast.Starred) for a in fixed):
                raise NotInlineable("star arguments")
            for a in args[npos:]:
                if isinstance(a, ast.Starred):
                    v = a.value
                    if isinstance(v, (ast.Tuple, ast.List)) and not any(isinstance(x, ast.Starred) for x in v.elts):
                        rest.extend(v.elts)
                    elif isinstance(v, ast.Call) and isinstance(v.func, ast.Attribute) and v.func.attr == "values" and not v.args \
                            and isinstance(v.func.value, ast.Dict) and all(k is not None for k in v.func.value.keys):
                        rest.extend(v.func.value.values)
                    else:
                        raise NotInlineable("star arguments")
                else:
                    rest.append(a)
            mapping[self.varname] = ast.Tuple(elts=[copy.deepcopy(x) for x in rest], ctx=ast.Load())
            args = fixed
        if any(isinstance(a, ast.Starred) for a in args) or (any(k.arg is None for k in call.keywords) and not self.kwname):
            raise NotInlineable("star arguments")
        if len(args) > npos:
            raise NotInlineable("too many positional arguments")
        for p, a in zip(params, args):
            mapping[p] = a
        self._extras = []
        for k in call.keywords:
            if self.kwname and (k.arg is None or k.arg not in params):
                self._extras.append(k)  # goes into **kwargs, in call order
                continue
            if k.arg not in params or k.arg in mapping:
                raise NotInlineable("keyword mismatch")
            mapping[k.arg] = k.value
        for p in params:
            if p not in mapping:
                if p not in self.defaults:
                    raise NotInlineable("missing argument")
                mapping[p] = self.defaults[p]
        return mapping

    def instantiate(self, call, method, taken):
        """a private copy of the body with parameters bound; returns (prologue statements, body statements)"""
        mapping = self.bind(call, method)
        body = copy.deepcopy(self.body)
        wrapper = ast.Module(body=body, type_ignores=[])
        if self.kwname:
            extras = list(self._extras)
            for n in ast.walk(wrapper):
                if isinstance(n, ast.Call):
                    new_kw = []
                    for k in n.keywords:
                        if k.arg is None and isinstance(k.value, ast.Name) and k.value.id == self.kwname:
                            new_kw.extend(copy.deepcopy(extras))
                        else:
                            new_kw.append(k)
                    n.keywords = new_kw
            locs_kw = {self.kwname}
        else:
            locs_kw = set()
        written = set()
        for st in body:
            written |= _roots_written(st) & set(self.params)
        rebound = {n.id for st in body for n in _walk_stmt(st) if isinstance(n, ast.Name) and isinstance(n.ctx, (ast.Store, ast.Del))}
        locs = (fn_locals(self.fn) - set(self.params)) - locs_kw
        ren = {}
        for v in sorted(locs):
            if v in taken:
                new = v + "_h"
                while new in taken or new in locs:
                    new += "_"
                ren[v] = new
        prologue = []
        sub = {}
        for p, a in mapping.items():
            uses = sum(1 for st in body for n in _walk_stmt(st) if isinstance(n, ast.Name) and n.id == p and isinstance(n.ctx, ast.Load))
            nested = any(isinstance(n, (ast.Lambda,)) and any(isinstance(x, ast.Name) and x.id == p for x in ast.walk(n))
                         for st in body for n in _walk_stmt(st))
            if p in rebound or nested and not isinstance(a, (ast.Name, ast.Constant)):
                new = p + "_h"
                while new in taken or new in locs:
                    new += "_"
                ren[p] = new
                prologue.append(ast.copy_location(ast.Assign(targets=[ast.Name(id=new, ctx=ast.Store())], value=copy.deepcopy(a),
                                                              lineno=call.lineno), call))
            elif isinstance(a, (ast.Name, ast.Constant)) or is_pure(a) or uses <= 1 and p not in written:
                if not (isinstance(a, (ast.Name, ast.Constant)) or is_pure(a)) and uses == 1:
                    # an effectful argument used once: keep evaluation before the body
                    new = p + "_h"
                    while new in taken or new in locs:
                        new += "_"
                    ren[p] = new
                    prologue.append(ast.copy_location(ast.Assign(targets=[ast.Name(id=new, ctx=ast.Store())],
                                                                  value=copy.deepcopy(a), lineno=call.lineno), call))
                else:
                    sub[p] = a
            else:
                new = p + "_h"
                while new in taken or new in locs:
                    new += "_"
                ren[p] = new
                prologue.append(ast.copy_location(ast.Assign(targets=[ast.Name(id=new, ctx=ast.Store())], value=copy.deepcopy(a),
                                                              lineno=call.lineno), call))
        if ren:
            _Rename(ren).visit(wrapper)
        if sub:
            substitute(wrapper, sub)
        ast.fix_missing_locations(wrapper)
        return prologue, wrapper.body


class AnyReceiver(dict):
    """method helpers that may be called on any simple receiver expression (N9: the member name is unique in the project)"""


def _simple_receiver(e):
    while isinstance(e, ast.Attribute):
        e = e.value
    return isinstance(e, ast.Name)


def devirtualise_facades(trees, shape_all, log):
    """N34.  A pinned facade class (`class Hex: @staticmethod def marshal(...)` delegating to the function `marshal` of its
    sibling module `.marshal`) that now INHERITS the method from a new base class which calls hooks through `cls.<hook>`,
    the subclass binding the hook to a function of the sibling module (`carried_bytes = staticmethod(parse_hex_string)`):
    the inherited method, specialised for this subclass (`cls.<hook>` -> that function), is the pinned module function
    again, and the class gets the pinned delegating method back."""
    def find_class(mname, name, depth=0):
        tree = trees.get(mname)
        if tree is None or depth > 4:
            return None
        for st in tree.body:
            if isinstance(st, ast.ClassDef) and st.name == name:
                return mname, st
        for st in tree.body:
            if isinstance(st, ast.ImportFrom):
                for a in st.names:
                    if (a.asname or a.name) == name:
                        base = mname.split(".")
                        is_pkg = (mname + ".__init__") in trees or any(k.startswith(mname + ".") for k in trees)
                        if st.level:
                            up = st.level - (1 if is_pkg else 0)
                            base = base[:len(base) - up] if up else base
                            target = ".".join(base + ([st.module] if st.module else []))
                        else:
                            target = st.module
                        r = find_class(target, a.name, depth + 1)
                        if r:
                            return r
        return None

    for pname, sh in shape_all.items():
        ptree = trees.get(pname)
        if ptree is None:
            continue
        for q in [q for q in sh["functions"] if "." in q and q.count(".") == 1]:
            cname, meth = q.split(".")
            mname = pname + "." + meth if (pname + "." + meth) in shape_all else None
            # the sibling module that pinned a function of the method's name (Hex.marshal <-> tpmstream.io.hex.marshal.marshal)
            if mname is None or meth not in shape_all[mname]["functions"] or mname not in trees:
                continue
            mtree = trees[mname]
            if any(isinstance(st, ast.FunctionDef) and st.name == meth for st in mtree.body):
                continue   # still there
            cdef = next((st for st in ptree.body if isinstance(st, ast.ClassDef) and st.name == cname), None)
            if cdef is None or any(isinstance(m, ast.FunctionDef) and m.name == meth for m in cdef.body) or len(cdef.bases) != 1 \
                    or not isinstance(cdef.bases[0], ast.Name):
                continue
            found = find_class(pname, cdef.bases[0].id)
            if not found:
                continue
            bmod, bdef = found
            bm = next((m for m in bdef.body if isinstance(m, ast.FunctionDef) and m.name == meth), None)
            if bm is None:
                continue
            decs = [norm_dec(d) for d in bm.decorator_list]
            if decs not in (["classmethod"], ["staticmethod"], []):
                continue
            f = copy.deepcopy(bm)
            f.decorator_list = []
            recv = None
            if decs != ["staticmethod"]:
                if not f.args.args:
                    continue
                recv = f.args.args[0].arg
                f.args.args = f.args.args[1:]
            hooks = {}
            for st in cdef.body:
                if isinstance(st, ast.Assign) and len(st.targets) == 1 and isinstance(st.targets[0], ast.Name):
                    v = st.value
                    if isinstance(v, ast.Call) and isinstance(v.func, ast.Name) and v.func.id == "staticmethod" and len(v.args) == 1:
                        v = v.args[0]
                    if isinstance(v, ast.Name):
                        hooks[st.targets[0].id] = v.id
            mdefs = {st.name for st in mtree.body if isinstance(st, (ast.FunctionDef, ast.ClassDef))} | \
                {(a.asname or a.name).split(".")[0] for st in mtree.body if isinstance(st, (ast.Import, ast.ImportFrom)) for a in st.names}
            ok = True

            class Hook(ast.NodeTransformer):
                def visit_Attribute(self, node):
                    nonlocal ok
                    self.generic_visit(node)
                    if recv is not None and isinstance(node.value, ast.Name) and node.value.id == recv:
                        tgt = hooks.get(node.attr)
                        if tgt is None or tgt not in mdefs:
                            ok = False
                            return node
                        return ast.copy_location(ast.Name(id=tgt, ctx=node.ctx), node)
                    return node
            Hook().visit(f)
            if not ok or (recv is not None and any(isinstance(n, ast.Name) and n.id == recv for n in ast.walk(f))):
                continue
            # names of the base's module the body needs
            btree = trees[bmod]
            btop = {st.name for st in btree.body if isinstance(st, (ast.FunctionDef, ast.ClassDef))} | \
                {(a.asname or a.name).split(".")[0] for st in btree.body if isinstance(st, (ast.Import, ast.ImportFrom)) for a in st.names}
            params_ = {a.arg for a in ast.walk(f.args) if isinstance(a, ast.arg)}
            need = sorted(({n.id for n in ast.walk(f) if isinstance(n, ast.Name) and isinstance(n.ctx, ast.Load)} & btop) - mdefs - params_)
            if need:
                imp = ast.ImportFrom(module=bmod, names=[ast.alias(name=x, asname=None) for x in need], level=0)
                mtree.body.insert(0, imp)
            mtree.body.append(f)
            ast.fix_missing_locations(mtree)
            # the pinned delegating method
            a_ = f.args
            pos = [x.arg for x in a_.args]
            ndef = len(a_.defaults)
            call = ast.Call(func=ast.Name(id=meth, ctx=ast.Load()),
                            args=[ast.Name(id=x, ctx=ast.Load()) for x in pos[:len(pos) - ndef]],
                            keywords=[ast.keyword(arg=x, value=ast.Name(id=x, ctx=ast.Load())) for x in pos[len(pos) - ndef:]] +
                            ([ast.keyword(arg=None, value=ast.Name(id=a_.kwarg.arg, ctx=ast.Load()))] if a_.kwarg else []))
            facade = ast.FunctionDef(name=meth, args=copy.deepcopy(a_), body=[ast.Return(value=call)],
                                     decorator_list=[ast.Name(id="staticmethod", ctx=ast.Load())], returns=None, type_comment=None)
            if hasattr(bm, "type_params"):
                facade.type_params = []
                f.type_params = []
            ast.copy_location(facade, cdef)
            cdef.body.append(facade)
            ptree.body.insert(0, ast.ImportFrom(module=mname, names=[ast.alias(name=meth, asname=None)], level=0))
            ast.fix_missing_locations(ptree)
            log.setdefault(mname, [])
            log[mname] = sorted(set(log[mname]) | {f"{cname}.{meth} (inherited from {bdef.name})"})


def inline_new_members(trees, shape_all):
    """N9. `trees`: {module name: tree}.  A method or property that is new relative to the pinned shape, defined on a pinned
    class, whose name is used for nothing else in the project (no other definition, no attribute of that name in the pinned
    tree, never assigned), is expanded at its uses in every module: `X.prop` -> the property's expression, `X.m(a)` -> the body.
    Returns {module name: [member names expanded there]}."""
    if not shape_all:
        return {}
    pinned_attrs = set()
    for sh in shape_all.values():
        pinned_attrs |= set(sh.get("attrs", ()))
        pinned_attrs |= {q.split(".")[-1] for q in sh["functions"]}
    defs = {}
    for mname, tree in trees.items():
        sh = shape_all.get(mname)
        for n in ast.walk(tree):
            if isinstance(n, (ast.FunctionDef, ast.AsyncFunctionDef, ast.ClassDef)):
                defs.setdefault(n.name, []).append(n)
    stored = set()
    for tree in trees.values():
        for n in ast.walk(tree):
            if isinstance(n, ast.Attribute) and isinstance(n.ctx, (ast.Store, ast.Del)):
                stored.add(n.attr)
            elif isinstance(n, ast.Call) and _callee(n) in ("setattr", "delattr") and len(n.args) >= 2:
                stored.add(n.args[1].value if isinstance(n.args[1], ast.Constant) else "*")
            elif isinstance(n, ast.ClassDef):
                for st in n.body:
                    for t in (st.targets if isinstance(st, ast.Assign) else [st.target] if isinstance(st, ast.AnnAssign) else []):
                        if isinstance(t, ast.Name):
                            stored.add(t.id)
    # (setattr with a computed name sets table-driven data fields; it cannot define the new member of a pinned class)
    from .encreq import session_functions
    sess_fns = session_functions(trees, {q.split(".")[-1] for sh in shape_all.values() for q in sh["functions"]})
    props, methods = {}, AnyReceiver()
    methods.classes = {n for n, ds in defs.items() if any(isinstance(d, ast.ClassDef) for d in ds)}
    for mname, tree in trees.items():
        sh = shape_all.get(mname)
        if sh is None:
            continue
        pinned_fns = set(sh["functions"])
        pinned_classes = {q.split(".")[0] for q in pinned_fns if "." in q}
        for c in tree.body:
            if not (isinstance(c, ast.ClassDef) and c.name in pinned_classes):
                continue
            for m in c.body:
                if not isinstance(m, ast.FunctionDef) or f"{c.name}.{m.name}" in pinned_fns:
                    continue
                if m.name in pinned_attrs or m.name in stored or len(defs.get(m.name, ())) != 1 or m.name.startswith("__") or m.name in sess_fns:
                    continue
                decs = [norm_dec(d) for d in m.decorator_list]
                if decs == ["property"]:
                    clone = copy.deepcopy(m)
                    clone.decorator_list = []
                    h = Helper(clone, c.name)
                    if h.usable() and len(h.params) == 1 and not h.is_gen:
                        forward_substitute(clone, fn_locals(clone) - set(h.params))
                        try:
                            expr = as_expression(_strip_doc(clone.body))
                        except NotInlineable:
                            continue
                        if expr is not None and is_pure(expr):
                            props[m.name] = (h.params[0], expr)
                elif not decs:
                    h = Helper(m, c.name)
                    if h.usable() and h.params and h.params[0] == "self":
                        forward_substitute(m, fn_locals(m) - set(h.params))
                        h.body = _strip_doc(m.body)
                        methods[m.name] = h
    log = {}
    devirtualise_facades(trees, shape_all, log)
    # N28: a plain function that hands back the generator made by a (new) generator function - `return G(args)` - is, for
    # every consumer that iterates / sends / reads the generator's result, the generator function `return (yield from G(args))`
    gen_helpers = set()
    for mname, tree in trees.items():
        shf = (shape_all.get(mname) or {"functions": {}})["functions"]
        for st in tree.body:
            if isinstance(st, ast.FunctionDef) and st.name not in shf and len(defs.get(st.name, ())) == 1 \
                    and any(isinstance(n, (ast.Yield, ast.YieldFrom)) for n in _walk_fn(st)):
                gen_helpers.add(st.name)
    if gen_helpers:
        for mname, tree in trees.items():
            for q, fn in functions_of(tree).items():
                if any(isinstance(n, (ast.Yield, ast.YieldFrom)) for n in _walk_fn(fn)):
                    continue
                body = _strip_doc(fn.body)
                if len(body) == 1 and isinstance(body[0], ast.Return) and isinstance(body[0].value, ast.Call) \
                        and isinstance(body[0].value.func, ast.Name) and body[0].value.func.id in gen_helpers and fn.name not in gen_helpers:
                    body[0].value = ast.copy_location(ast.YieldFrom(value=body[0].value), body[0].value)
                    ast.fix_missing_locations(fn)
                    log.setdefault(mname, [])
    # new module-level functions that other modules import by name: inlined there like local helpers (N1 across modules)
    pinned_names = set()
    for sh in shape_all.values():
        pinned_names |= set(sh.get("names", ())) | {q.split(".")[-1] for q in sh["functions"]}
    for _pass in range(3):   # (a helper expanded into another module may bring calls of further new helpers with it)
      progress = False
      for mname, tree in trees.items():
        sh = shape_all.get(mname)
        if sh is None:
            sh = {"functions": {}}   # a module that did not exist when the shapes were pinned: all its functions are new
        for st in list(tree.body):
              if not (isinstance(st, ast.FunctionDef) and st.name not in sh["functions"] and st.name not in pinned_names
                      and st.name not in pinned_attrs and len(defs.get(st.name, ())) == 1):
                  continue   # (a decorator other than a memoising one on a pure helper makes Helper.usable() false)
              h = Helper(st)
              if not h.usable() or st.name in sess_fns:
                  continue
              prepared = False
              for oname, otree in trees.items():
                  if oname == mname:
                      continue
                  imported = any(isinstance(i, ast.ImportFrom) and any(a.name == st.name and a.asname in (None, st.name) for a in i.names)
                                 for i in otree.body)
                  rebound = any(isinstance(n, ast.Name) and n.id == st.name and isinstance(n.ctx, (ast.Store, ast.Del)) for n in ast.walk(otree))
                  if not imported or rebound:
                      continue
                  if not prepared:
                      forward_substitute(st, fn_locals(st) - set(h.params))
                      h.body = _strip_doc(st.body)
                      prepared = True
                  done = []
                  for q, fn in functions_of(otree).items():
                      for _round in range(3):
                          if not _inline_in_function(fn, {st.name: h}, {}, done):
                              break
                  if done:
                      # names of the defining module the inlined body refers to are made visible where it now stands
                      bound_here = {n.id for n in ast.walk(otree) if isinstance(n, ast.Name) and isinstance(n.ctx, ast.Store)} | \
                          {(a.asname or a.name).split(".")[0] for i in otree.body if isinstance(i, (ast.Import, ast.ImportFrom)) for a in i.names} | \
                          {x.name for x in otree.body if isinstance(x, (ast.FunctionDef, ast.ClassDef))}
                      top = {x.name for x in tree.body if isinstance(x, (ast.FunctionDef, ast.ClassDef))} | \
                          {(a.asname or a.name).split(".")[0] for i in tree.body if isinstance(i, (ast.Import, ast.ImportFrom)) for a in i.names} | \
                          {t.id for x in tree.body if isinstance(x, ast.Assign) for t in x.targets if isinstance(t, ast.Name)}
                      need = sorted(({n.id for n in ast.walk(st) if isinstance(n, ast.Name) and isinstance(n.ctx, ast.Load)} & top) - bound_here)
                      if need:
                          imp = ast.ImportFrom(module=mname, names=[ast.alias(name=x, asname=None) for x in need], level=0)
                          k = next((j for j, x in enumerate(otree.body) if isinstance(x, (ast.Import, ast.ImportFrom))), 0)
                          otree.body.insert(k, ast.copy_location(imp, otree.body[k] if otree.body else imp))
                      ast.fix_missing_locations(otree)
                      log.setdefault(oname, [])
                      log[oname] = sorted(set(log[oname]) | set(done))
                      progress = True
              if prepared and not any(isinstance(n, ast.Name) and n.id == st.name and isinstance(n.ctx, ast.Load)
                                      for t_ in trees.values() for n in ast.walk(t_)):
                  tree.body.remove(st)   # every use was expanded: the helper itself is no longer part of the program
      if not progress:
        break
    if not props and not methods:
        return log
    for mname, tree in trees.items():
        done = []
        if props:
            class P(ast.NodeTransformer):
                def visit_Attribute(self, node):
                    self.generic_visit(node)
                    if isinstance(node.ctx, ast.Load) and node.attr in props and _simple_receiver(node.value):
                        selfname, expr = props[node.attr]
                        new = copy.deepcopy(expr)
                        new = _Subst({selfname: node.value}).visit(new)
                        done.append(node.attr)
                        return ast.copy_location(new, node)
                    return node
            for q, fn in functions_of(tree).items():
                if fn.name in props:
                    continue
                P().visit(fn)
        if methods:
            for q, fn in functions_of(tree).items():
                if fn.name in methods:
                    continue
                for _round in range(3):
                    if not _inline_in_function(fn, {}, methods, done):
                        break
        if done:
            ast.fix_missing_locations(tree)
            log[mname] = sorted(set(done))
    return log


def norm_dec(d):
    try:
        return ast.unparse(d)
    except Exception:  # pragma: no cover
        return "?"


def _call_of(node, helpers, cls_helpers):
    """(helper, is_method, via_yield_from, call) if node is a direct call of a helper (possibly under `yield from`)"""
    via = False
    if isinstance(node, ast.YieldFrom):
        via, node = True, node.value
    if not isinstance(node, ast.Call):
        return None
    f = node.func
    if isinstance(f, ast.Name) and f.id in helpers:
        return helpers[f.id], False, via, node
    if isinstance(f, ast.Attribute) and isinstance(f.value, ast.Name) and f.attr in cls_helpers and \
            (f.value.id in ("self", "cls") or f.value.id == cls_helpers[f.attr].owner):
        h = cls_helpers[f.attr]
        if f.value.id in ("self", "cls") or getattr(h, "static", False):
            return h, not getattr(h, "static", False), via, node
    if isinstance(cls_helpers, AnyReceiver) and isinstance(f, ast.Attribute) and f.attr in cls_helpers and \
            (_simple_receiver(f.value) or
             # a freshly constructed receiver `Cls(...).m(a)`: bound to a temporary first (evaluated once, before the arguments)
             isinstance(f.value, ast.Call) and isinstance(f.value.func, ast.Name) and f.value.func.id in getattr(cls_helpers, "classes", ())):
        return cls_helpers[f.attr], True, via, node
    return None


def inline_helpers(tree, shape, keep=frozenset()):
    """N1. Returns the list of helper names that were inlined (for the evidence)."""
    pinned_fns = set(shape["functions"])
    inlined = []
    # candidate helpers: new module-level functions and new methods
    helpers, cls_helpers_by_class = {}, {}
    from .encreq import session_functions
    sess_fns = session_functions({"": tree}, {q.split(".")[-1] for q in pinned_fns})   # (they stay calls: tpmsa.encreq evaluates them)
    for st in tree.body:
        if isinstance(st, ast.FunctionDef) and st.name not in pinned_fns and st.name not in sess_fns:
            h = Helper(st)
            if h.usable():
                helpers[st.name] = h
        elif isinstance(st, ast.ClassDef):
            for m in st.body:
                if isinstance(m, ast.FunctionDef) and f"{st.name}.{m.name}" not in pinned_fns and st.name in {q.split(".")[0] for q in pinned_fns} \
                        and m.name not in sess_fns:
                    if [norm_dec(d) for d in m.decorator_list] == ["staticmethod"]:
                        bare = copy.deepcopy(m)
                        bare.decorator_list = []
                        h = Helper(bare, st.name)
                        h.static, h.orig = True, m
                        if h.usable():
                            cls_helpers_by_class.setdefault(st.name, {})[m.name] = h
                        continue
                    h = Helper(m, st.name)
                    if h.usable() and h.params and h.params[0] in ("self", "cls"):
                        cls_helpers_by_class.setdefault(st.name, {})[m.name] = h
    if not helpers and not cls_helpers_by_class:
        _inline_closures(tree, pinned_fns, inlined)
        return inlined
    # helpers first get their own locals substituted (all their locals are new) and may call each other
    order = list(helpers.values()) + [h for d in cls_helpers_by_class.values() for h in d.values()]
    for h in order:
        forward_substitute(h.fn, fn_locals(h.fn) - set(h.params), extra_pure=set(helpers))
        h.body = _strip_doc(h.fn.body)
    hosts = []
    for q, fn in functions_of(tree).items():
        cls = q.split(".")[0] if "." in q else None
        hosts.append((q, fn, cls_helpers_by_class.get(cls, {}) if cls else {}))
    for _round in range(4):
        changed = False
        for q, fn, chelp in hosts:
            if _inline_in_function(fn, helpers, chelp, inlined):
                changed = True
        if not changed:
            break
    _inline_closures(tree, pinned_fns, inlined)
    def referenced_outside(name, own):
        for top in tree.body:
            if top is own:
                continue
            for n in ast.walk(top):
                if isinstance(n, ast.Name) and n.id == name and isinstance(n.ctx, ast.Load):
                    return True
                if isinstance(n, ast.Constant) and n.value == name:
                    return True   # (mentioned in __all__ or looked up by name)
        return False

    # drop helpers that are no longer referenced
    def referenced(name, method):
        for n in ast.walk(tree):
            if method:
                if isinstance(n, ast.Attribute) and n.attr == name:
                    return True
            elif isinstance(n, ast.Name) and n.id == name and isinstance(n.ctx, ast.Load):
                return True
        return False
    changed_ = True
    while changed_:
        changed_ = False
        for name, h in list(helpers.items()):
            # (a new helper nobody refers to any more - it was expanded here or, earlier, into the modules that imported it -
            # is not part of the program under analysis; removing it may free further helpers it was the last user of)
            if h.fn in tree.body and not referenced_outside(name, h.fn) and name not in keep and (name in inlined or name.startswith("_") or True):
                tree.body.remove(h.fn)
                changed_ = True
    for cname, d in cls_helpers_by_class.items():
        cdef = next(c for c in tree.body if isinstance(c, ast.ClassDef) and c.name == cname)
        for name, h in d.items():
            if name in inlined and not referenced(name, True) and name not in keep:
                cdef.body.remove(getattr(h, "orig", h.fn))
    return inlined


def _inline_closures(tree, pinned_fns, inlined):
    """new nested functions (closures over the host's locals) called from their host are inlined like helpers: a closure
    reads the host's variables at call time, which is exactly what the inlined body does"""
    for q, host in functions_of(tree).items():
        local = {}
        for st in host.body:
            if isinstance(st, ast.FunctionDef) and f"{q}.{st.name}" not in pinned_fns:
                h = Helper(st)
                if h.usable() and not any(isinstance(n, (ast.Nonlocal, ast.Global)) for n in ast.walk(st)):
                    # names the closure assigns must not be host variables it is meant to update (that needs nonlocal anyway)
                    local[st.name] = h
        if not local:
            continue
        before = len(inlined)
        for _round in range(3):
            if not _inline_in_function(host, local, {}, inlined):
                break
        if len(inlined) > before:
            for name, h in local.items():
                still = any(isinstance(n, ast.Name) and n.id == name and isinstance(n.ctx, ast.Load) for n in _walk_fn(host))
                if name in inlined[before:] and not still and h.fn in host.body:
                    host.body.remove(h.fn)


def _inline_in_function(fn, helpers, chelp, inlined):
    changed = False
    if fn.name in helpers and helpers[fn.name].fn is fn:
        pass  # helpers may use other helpers
    taken = fn_locals(fn) | {n.id for n in _walk_fn(fn) if isinstance(n, ast.Name)}
    # ---- expression sites
    class ExprInline(ast.NodeTransformer):
        def visit_FunctionDef(self, node):
            return node if node is not fn else self.generic_visit(node)

        def visit_Call(self, node):
            self.generic_visit(node)
            hit = _call_of(node, helpers, chelp)
            if hit is None:
                return node
            h, method, via, call = hit
            if h.fn is fn or h.is_gen:
                return node
            try:
                _, body = h.instantiate(call, method, set())  # expression form has no locals left -> no renaming needed
                mapping = h.bind(call, method)
            except NotInlineable:
                return node
            e = as_expression(body)
            if e is None:
                return node
            # every parameter must have been substitutable (no prologue): re-check
            pro, body2 = h.instantiate(call, method, set())
            if pro:
                # one effectful argument, used once and evaluated before anything else in the helper's expression: it can stand
                # where the parameter stood (same single evaluation, at the place of the call)
                if len(pro) != 1 or not isinstance(pro[0].targets[0], ast.Name):
                    return node
                e2 = as_expression(body2)
                tmp = pro[0].targets[0].id
                uses = [n for n in ast.walk(e2) if isinstance(n, ast.Name) and n.id == tmp] if e2 is not None else []
                if len(uses) != 1 or not _evaluated_first(ast.Expr(value=e2), uses[0]):
                    return node
                if e2 is uses[0]:
                    e = pro[0].value
                else:
                    _replace_node(e2, uses[0], pro[0].value)
                    e = e2
            nonlocal changed
            changed = True
            inlined.append(h.name)
            return e
    # ---- block sites (statement level) first, so that `x = helper(...)` with a block helper is expanded in place
    for owner, field, lst in _stmt_lists(fn):
        i = 0
        while i < len(lst):
            st = lst[i]
            site = None
            if isinstance(st, ast.Assign) and len(st.targets) == 1:
                site = _call_of(st.value, helpers, chelp)
                kind = "assign"
            elif isinstance(st, ast.Return) and st.value is not None:
                site = _call_of(st.value, helpers, chelp)
                kind = "return"
            elif isinstance(st, ast.Expr) and isinstance(st.value, ast.Yield) and st.value.value is not None:
                site = _call_of(st.value.value, helpers, chelp)
                kind = "yield"
            elif isinstance(st, ast.Expr):
                site = _call_of(st.value, helpers, chelp)
                kind = "expr"
            elif isinstance(st, ast.Raise) and st.exc is not None:
                site = _call_of(st.exc, helpers, chelp)
                kind = "raise"
            if site is None or site[0].fn is fn:
                i += 1
                continue
            h, method, via, call = site
            if h.is_gen != via:
                i += 1
                continue
            try:
                pro, body = h.instantiate(call, method, taken)
                if as_expression(body) is not None and not pro and not h.is_gen:
                    i += 1
                    continue  # handled as an expression below
                if kind == "assign":
                    tgt = st.targets[0]

                    def k(r, tgt=tgt):
                        v = r.value if r.value is not None else ast.Constant(value=None)
                        # `(a, b) = (x, y)` from a helper returning a tuple display: one assignment per component
                        if isinstance(tgt, (ast.Tuple, ast.List)) and isinstance(v, ast.Tuple) and len(v.elts) == len(tgt.elts) \
                                and all(isinstance(t_, ast.Name) for t_ in tgt.elts) \
                                and not any(isinstance(x, ast.Starred) for x in v.elts):
                            names = [t_.id for t_ in tgt.elts]
                            later_reads = [{n.id for n in ast.walk(x) if isinstance(n, ast.Name)} for x in v.elts]
                            if not any(names[i] in later_reads[j] for i in range(len(names)) for j in range(i + 1, len(names))):
                                return [ast.copy_location(ast.Assign(targets=[copy.deepcopy(t_)], value=x, lineno=r.lineno), r)
                                        for t_, x in zip(tgt.elts, v.elts)]
                        return [ast.copy_location(ast.Assign(targets=[copy.deepcopy(tgt)], value=v, lineno=r.lineno), r)]
                elif kind == "return":
                    k = lambda r: [r]
                elif kind == "raise":
                    if as_expression(body) is None:
                        raise NotInlineable("raise of a block helper")
                    k = lambda r, st=st: [ast.copy_location(ast.Raise(exc=r.value, cause=st.cause), st)]
                elif kind == "yield":
                    k = lambda r: [ast.copy_location(ast.Expr(value=ast.Yield(value=r.value if r.value is not None
                                                                               else ast.Constant(value=None))), r)]
                else:
                    k = lambda r: ([ast.copy_location(ast.Expr(value=r.value), r)] if r.value is not None and not is_pure(r.value) else [])
                if kind == "return":
                    new = body if _terminates(body) else body + [ast.copy_location(ast.Return(value=None), st)]
                else:
                    new = tailify(body, k, st)
            except NotInlineable:
                i += 1
                continue
            new = pro + new
            for n in new:
                ast.fix_missing_locations(n)
            lst[i:i + 1] = new
            taken |= {n.id for s in new for n in ast.walk(s) if isinstance(n, ast.Name)}
            inlined.append(h.name)
            changed = True
            i += len(new)
    # ---- N7 generator helpers consumed by a for loop: `for x in g(...): BODY` where g only delegates (`yield from E`)
    for owner, field, lst in _stmt_lists(fn):
        i = 0
        while i < len(lst):
            st = lst[i]
            i += 1
            if not (isinstance(st, ast.For) and not st.orelse):
                continue
            site = _call_of(st.iter, helpers, chelp)
            if site is None or site[0].fn is fn or not site[0].is_gen or site[2]:
                continue
            h, method, _via, call = site
            ys = [n for n in _walk_fn(h.fn) if isinstance(n, (ast.Yield, ast.YieldFrom))]
            if not ys:
                continue
            plain = [n for n in ys if isinstance(n, ast.Yield)]
            if plain:
                # a plain `yield E` hands E to the loop body: only in statement position, and the body must not `continue`
                # (that would resume the generator, not skip the rest of what stands after the yield)
                stmt_yields = {id(x.value) for x in _walk_fn(h.fn) if isinstance(x, ast.Expr) and isinstance(x.value, ast.Yield)}
                if any(id(n) not in stmt_yields or n.value is None for n in plain):
                    continue
                if any(isinstance(x, ast.Continue) for b in st.body for x in _walk_stmt(b)) and not _yields_in_loop_tail(h.fn):
                    continue   # (`continue` in the consumer = go on behind the yield: the same thing only when that is "next iteration")
            if any(isinstance(n, ast.Return) and n.value is not None for n in _walk_fn(h.fn)):
                continue
            if _break_at_level(st.body):
                continue
            try:
                pro, body = h.instantiate(call, method, taken)
            except NotInlineable:
                continue
            ok = True

            class Fuse(ast.NodeTransformer):
                def visit_FunctionDef(self, node):
                    return node

                def visit_Expr(self, node):
                    if isinstance(node.value, ast.YieldFrom):
                        loop = ast.For(target=copy.deepcopy(st.target), iter=node.value.value, body=copy.deepcopy(st.body), orelse=[])
                        return ast.copy_location(loop, node)
                    if isinstance(node.value, ast.Yield):
                        bind = ast.Assign(targets=[copy.deepcopy(st.target)], value=node.value.value, lineno=node.lineno)
                        return [ast.copy_location(bind, node)] + copy.deepcopy(st.body)
                    return node

                def visit_Return(self, node):
                    nonlocal ok
                    ok = False  # an early `return` of the generator would have to leave only the fused loop
                    return node
            wrapper = ast.Module(body=body, type_ignores=[])
            Fuse().visit(wrapper)
            if not ok or any(isinstance(n, (ast.Yield, ast.YieldFrom)) and False for n in ast.walk(wrapper)):
                continue
            # every delegation must have been in statement position
            left = [n for b in wrapper.body for n in _walk_stmt(b) if isinstance(n, ast.YieldFrom)]
            body_yf = [n for b in st.body for n in _walk_stmt(b) if isinstance(n, ast.YieldFrom)]
            if len(left) != len(body_yf) * sum(1 for n in ys):
                continue
            for tgt in ast.walk(wrapper):   # the bindings made from `yield E` store into the loop target
                if isinstance(tgt, ast.Assign):
                    for t_ in tgt.targets:
                        for x in ast.walk(t_):
                            if isinstance(x, (ast.Name, ast.Tuple, ast.List)) and hasattr(x, "ctx"):
                                x.ctx = ast.Store()
            new = pro + wrapper.body
            for n in new:
                ast.fix_missing_locations(n)
            lst[i - 1:i] = new
            taken |= {n.id for s_ in new for n in ast.walk(s_) if isinstance(n, ast.Name)}
            inlined.append(h.name)
            changed = True
            i += len(new) - 1
    ExprInline().visit(fn)
    return changed


def _yields_in_loop_tail(fn):
    """every `yield E` statement of the generator is the last thing an iteration of its innermost enclosing loop does (so that
    a consumer's `continue`, which resumes the generator behind the yield, is a `continue` of that loop)"""
    def tail(stmts, in_loop):
        for i, st in enumerate(stmts):
            last = i == len(stmts) - 1
            if isinstance(st, ast.Expr) and isinstance(st.value, ast.Yield):
                if not (in_loop and last):
                    return False
            elif isinstance(st, (ast.For, ast.While)):
                if not tail(st.body, True) or any(isinstance(x, ast.Yield) for b in st.orelse for x in ast.walk(b)):
                    return False
            elif isinstance(st, ast.If):
                inner = in_loop and last
                if not tail(st.body, inner) or not tail(st.orelse, inner):
                    return False
            elif any(isinstance(x, (ast.Yield, ast.YieldFrom)) for x in ast.walk(st)):
                return False
        return True
    return tail(_strip_doc(fn.body), False)


def _break_at_level(stmts):
    for st in stmts:
        if isinstance(st, ast.Break):
            return True
        if isinstance(st, (ast.For, ast.While, ast.AsyncFor, ast.FunctionDef, ast.AsyncFunctionDef, ast.ClassDef)):
            continue
        for field in ("body", "orelse", "finalbody"):
            sub = getattr(st, field, None)
            if isinstance(sub, list) and sub and isinstance(sub[0], ast.stmt) and _break_at_level(sub):
                return True
        for h in getattr(st, "handlers", []) or []:
            if _break_at_level(h.body):
                return True
    return False


# ------------------------------------------------------------------------------- N3 constants
def _literal(e, depth=0):
    if isinstance(e, ast.Constant):
        return True
    if isinstance(e, (ast.Tuple, ast.List, ast.Set)) and depth < 3:
        return all(_literal(x, depth + 1) or isinstance(x, ast.Name) for x in e.elts)
    if isinstance(e, ast.Dict) and depth < 3:
        return all(k is not None and _literal(k, depth + 1) for k in e.keys) and \
            all(_literal(v, depth + 1) or isinstance(v, ast.Name) for v in e.values)
    if isinstance(e, ast.UnaryOp) and isinstance(e.operand, ast.Constant):
        return True
    return False


CONST_CALLS = {"re.compile", "bytes", "frozenset", "tuple", "str", "int", "len", "slice"}


def _const_expr(e, module_consts, depth=0):
    """an expression over literals and other module-level constants (slices, arithmetic, re.compile of those)"""
    if depth > 6:
        return False
    if _literal(e):
        return all(not isinstance(x, ast.Name) or x.id in module_consts for x in ast.walk(e))
    if isinstance(e, ast.Name):
        return e.id in module_consts
    if isinstance(e, ast.Subscript):
        sl = e.slice
        parts = [sl.lower, sl.upper, sl.step] if isinstance(sl, ast.Slice) else [sl]
        return _const_expr(e.value, module_consts, depth + 1) and all(x is None or _const_expr(x, module_consts, depth + 1) for x in parts)
    if isinstance(e, ast.BinOp):
        return _const_expr(e.left, module_consts, depth + 1) and _const_expr(e.right, module_consts, depth + 1)
    if isinstance(e, ast.UnaryOp):
        return _const_expr(e.operand, module_consts, depth + 1)
    if isinstance(e, ast.Call) and _callee(e) in CONST_CALLS and not e.keywords:
        return all(_const_expr(a, module_consts, depth + 1) for a in e.args)
    return False


def _name_table(e, stable, module_consts=frozenset()):
    """a dict / tuple / list display whose entries are constants or names that denote one object for the life of the module
    (imported objects, classes, functions): a dispatch table"""
    def ok(x):
        if isinstance(x, ast.Constant):
            return True
        while isinstance(x, ast.Attribute):   # `pkg.mod.Class`: an attribute chain rooted at an imported module
            x = x.value
        return isinstance(x, ast.Name) and x.id in stable
    if isinstance(e, ast.Dict):
        return bool(e.keys) and all(k is not None and ok(k) for k in e.keys) and \
            all(ok(v) or _literal(v) or (isinstance(v, ast.Name) and v.id in module_consts) for v in e.values)
    if isinstance(e, (ast.Tuple, ast.List)):
        return bool(e.elts) and all(ok(x) for x in e.elts)
    return False


def _table_comprehension(e, stable):
    """a dict / list / set comprehension (or `|` of such) that derives a table from imported objects with effect-free
    expressions: evaluating it once at import time or at every use gives equal tables"""
    if isinstance(e, ast.BinOp) and isinstance(e.op, ast.BitOr):
        return _table_comprehension(e.left, stable) and _table_comprehension(e.right, stable)
    if isinstance(e, ast.Name):
        return e.id in stable
    if not isinstance(e, (ast.DictComp, ast.ListComp, ast.SetComp)) or not is_pure(e, extra_pure=stable):
        return False
    bound = {n.id for g in e.generators for n in ast.walk(g.target) if isinstance(n, ast.Name)}
    free = {n.id for n in ast.walk(e) if isinstance(n, ast.Name) and isinstance(n.ctx, ast.Load)} - bound
    return free <= stable | set(PURE_FUNCS) | {"type"}


def inline_constants(tree, shape):
    pinned = set(shape["names"])
    consts = {}
    # an annotated module-level binding `NAME: T = value` is the plain binding (annotations do nothing at run time)
    for i, st in enumerate(tree.body):
        if isinstance(st, ast.AnnAssign) and st.value is not None and isinstance(st.target, ast.Name) and st.simple:
            tree.body[i] = ast.copy_location(ast.Assign(targets=[st.target], value=st.value, lineno=st.lineno), st)
            ast.fix_missing_locations(tree.body[i])
    # module-level names bound exactly once to a constant / a literal (candidates to build constant expressions from)
    once = {}
    for st in tree.body:
        if isinstance(st, ast.Assign) and len(st.targets) == 1 and isinstance(st.targets[0], ast.Name):
            once.setdefault(st.targets[0].id, []).append(st)
    module_consts = {n for n, sts in once.items() if len(sts) == 1 and (_literal(sts[0].value) or isinstance(sts[0].value, ast.Constant))}
    # names that denote the same object for the life of the module: imports, classes, functions (never re-bound)
    stable = set()
    for st in tree.body:
        if isinstance(st, (ast.Import, ast.ImportFrom)):
            stable |= {(a.asname or a.name).split(".")[0] for a in st.names}
        elif isinstance(st, (ast.FunctionDef, ast.ClassDef)):
            stable.add(st.name)
    stable -= {n.id for n in ast.walk(tree) if isinstance(n, ast.Name) and isinstance(n.ctx, (ast.Store, ast.Del))}
    for st in tree.body:
        if isinstance(st, ast.Assign) and len(st.targets) == 1 and isinstance(st.targets[0], ast.Name):
            name = st.targets[0].id
            if name in pinned or not (_literal(st.value) or _const_expr(st.value, module_consts) or _table_comprehension(st.value, stable)
                                      or _name_table(st.value, stable, module_consts)):
                continue
            consts[name] = st
    if not consts:
        return []
    # bound exactly once in the module, never written to
    for n in ast.walk(tree):
        if isinstance(n, ast.Name) and isinstance(n.ctx, (ast.Store, ast.Del)) and n.id in consts and n is not consts[n.id].targets[0]:
            consts.pop(n.id)
        elif isinstance(n, (ast.Global,)):
            for g in n.names:
                consts.pop(g, None)
    for st in ast.walk(tree):
        if isinstance(st, ast.stmt):
            for r in _roots_written(st) if not isinstance(st, (ast.FunctionDef, ast.ClassDef, ast.Module)) else ():
                if r in consts and not (isinstance(st, ast.Assign) and st is consts[r]):
                    # a local of the same name, or a mutation: leave the constant alone
                    consts.pop(r, None)
    done = []
    for name, st in consts.items():
        # functions that bind the name locally are skipped
        for fn in [n for n in ast.walk(tree) if isinstance(n, (ast.FunctionDef, ast.AsyncFunctionDef))]:
            if name in fn_locals(fn):
                continue
            before = ast.dump(fn)
            substitute(fn, {name: st.value})
            if ast.dump(fn) != before and name not in done:
                done.append(name)
        # module-level uses (comprehensions in module statements)
        for top in tree.body:
            if top is st or isinstance(top, (ast.FunctionDef, ast.AsyncFunctionDef, ast.ClassDef)):
                continue
            before = ast.dump(top)
            substitute(top, {name: st.value})
            if ast.dump(top) != before and name not in done:
                done.append(name)
    # `e[slice(a, b)]` is `e[a:b]`
    class _Slices(ast.NodeTransformer):
        def visit_Subscript(self, node):
            self.generic_visit(node)
            sl = node.slice
            if isinstance(sl, ast.Call) and isinstance(sl.func, ast.Name) and sl.func.id == "slice" and not sl.keywords and 1 <= len(sl.args) <= 3:
                a = list(sl.args)
                lo, hi, st_ = (None, a[0], None) if len(a) == 1 else (a[0], a[1], a[2] if len(a) == 3 else None)
                none = lambda x: None if x is None or (isinstance(x, ast.Constant) and x.value is None) else x  # noqa: E731
                node.slice = ast.copy_location(ast.Slice(lower=none(lo), upper=none(hi), step=none(st_)), sl)
            return node
    if done:
        _Slices().visit(tree)
        ast.fix_missing_locations(tree)
    return done


# ----------------------------------------------------------------------- N33 iterator classes around one generator method
def dissolve_iterator_classes(tree, shape):
    """N33.  A new class that is nothing but an iterator around one generator method - `__init__` stores a few fields and
    `self._it = self.<gen>(...)`, `__next__` returns `next(self._it)` (and `__iter__` returns self) - and a pinned function
    that only hands such an object back (`def f(x): return C(x)`) are, for everyone who iterates the result, the generator
    function whose body is that method's, the fields being its locals."""
    pinned_fns = set(shape["functions"])
    pinned_classes = {q.split(".")[0] for q in pinned_fns if "." in q} | set(shape.get("names", ()))
    done = []
    for c in [x for x in tree.body if isinstance(x, ast.ClassDef) and x.name not in pinned_classes and not x.decorator_list]:
        meths = {m.name: m for m in c.body if isinstance(m, ast.FunctionDef)}
        if not {"__init__", "__next__"} <= set(meths) or any(m.decorator_list for m in meths.values()):
            continue
        if set(meths) - {"__init__", "__next__", "__iter__"} - {m for m in meths if not m.startswith("__")}:
            continue
        nx = _strip_doc(meths["__next__"].body)
        if not (len(nx) == 1 and isinstance(nx[0], ast.Return) and isinstance(nx[0].value, ast.Call) and _callee(nx[0].value) == "next"
                and len(nx[0].value.args) == 1 and isinstance(nx[0].value.args[0], ast.Attribute)
                and isinstance(nx[0].value.args[0].value, ast.Name) and nx[0].value.args[0].value.id == "self"):
            continue
        itattr = nx[0].value.args[0].attr
        if "__iter__" in meths:
            it_ = _strip_doc(meths["__iter__"].body)
            if not (len(it_) == 1 and isinstance(it_[0], ast.Return) and isinstance(it_[0].value, ast.Name) and it_[0].value.id == "self"):
                continue
        init = meths["__init__"]
        if init.args.vararg or init.args.kwarg or init.args.kwonlyargs or init.args.defaults:
            continue
        iparams = [a.arg for a in init.args.args][1:]
        fields_, gen_call = [], None
        ok = True
        for st in _strip_doc(init.body):
            tgt = st.targets[0] if isinstance(st, ast.Assign) and len(st.targets) == 1 else st.target if isinstance(st, ast.AnnAssign) and st.value is not None else None
            if not (isinstance(tgt, ast.Attribute) and isinstance(tgt.value, ast.Name) and tgt.value.id == "self"):
                ok = False
                break
            if tgt.attr == itattr:
                v = st.value
                if not (isinstance(v, ast.Call) and isinstance(v.func, ast.Attribute) and isinstance(v.func.value, ast.Name)
                        and v.func.value.id == "self" and v.func.attr in meths and not v.keywords):
                    ok = False
                    break
                gen_call = v
            else:
                fields_.append((tgt.attr, st.value))
        if not ok or gen_call is None:
            continue
        gen = meths[gen_call.func.attr]
        if not any(isinstance(n, (ast.Yield, ast.YieldFrom)) for n in _walk_fn(gen)) or gen.args.vararg or gen.args.kwarg or gen.args.defaults:
            continue
        gparams = [a.arg for a in gen.args.args][1:]
        if len(gparams) != len(gen_call.args):
            continue
        # other methods must not exist (the object has no behaviour beyond iteration)
        if set(meths) - {"__init__", "__next__", "__iter__", gen.name}:
            continue
        for q, fn in functions_of(tree).items():
            if q not in pinned_fns or "." in q:
                continue
            body = _strip_doc(fn.body)
            if not (len(body) == 1 and isinstance(body[0], ast.Return) and isinstance(body[0].value, ast.Call)
                    and isinstance(body[0].value.func, ast.Name) and body[0].value.func.id == c.name and not body[0].value.keywords
                    and len(body[0].value.args) == len(iparams)):
                continue
            taken = {a.arg for a in ast.walk(fn.args) if isinstance(a, ast.arg)}
            amap = dict(zip(iparams, body[0].value.args))             # __init__ parameter -> argument expression of the call
            fmap = {f_: (f_ if f_ not in taken else f_ + "_") for f_, _ in fields_}

            class Self(ast.NodeTransformer):
                def visit_Attribute(self, node):
                    self.generic_visit(node)
                    if isinstance(node.value, ast.Name) and node.value.id == "self" and node.attr in fmap:
                        return ast.copy_location(ast.Name(id=fmap[node.attr], ctx=node.ctx), node)
                    return node
            new = []
            for f_, v in fields_:
                v2 = Self().visit(_Subst(amap).visit(copy.deepcopy(v)))
                new.append(ast.copy_location(ast.Assign(targets=[ast.Name(id=fmap[f_], ctx=ast.Store())], value=v2, lineno=fn.lineno), fn))
            gargs = [_Subst(amap).visit(copy.deepcopy(a)) for a in gen_call.args]
            gbody = copy.deepcopy(_strip_doc(gen.body))
            wrapper = ast.Module(body=gbody, type_ignores=[])
            Self().visit(wrapper)
            if any(isinstance(n, ast.Name) and n.id == "self" for n in ast.walk(wrapper)):
                continue   # the object itself is used: not just a bundle of locals
            substitute(wrapper, dict(zip(gparams, gargs)))
            doc = fn.body[:1] if fn.body and isinstance(fn.body[0], ast.Expr) and isinstance(fn.body[0].value, ast.Constant) else []
            fn.body = doc + new + wrapper.body
            ast.fix_missing_locations(fn)
            done.append(f"{q}={c.name}")
        if done and not any(isinstance(n, ast.Name) and n.id == c.name and isinstance(n.ctx, ast.Load) for n in ast.walk(tree)):
            tree.body.remove(c)
    return done


# ----------------------------------------------------------------------- N22 local records
def scalar_replace_records(tree, shape):
    """N22.  A new class that is only a record with a few methods (no bases, no decorators, only methods, an __init__ that
    binds fields), instantiated once into a local of a function and used there only through `x.field` / `x.method(...)`
    (the object never escapes), is dissolved: its fields become locals `x_field`, its constructor and methods are inlined.
    `feed = _LookAhead(buffer); feed.advance(); feed.head` is the same program as the three locals it bundles."""
    pinned_fns = set(shape["functions"])
    pinned_classes = {q.split(".")[0] for q in pinned_fns if "." in q} | set(shape.get("names", ()))
    classes = {}
    for st in tree.body:
        if isinstance(st, ast.ClassDef) and st.name not in pinned_classes and not st.bases and not st.decorator_list and not st.keywords:
            body = _strip_doc(st.body)
            if body and all(isinstance(m, ast.FunctionDef) and not m.decorator_list for m in body) and any(m.name == "__init__" for m in body):
                classes[st.name] = {m.name: m for m in body}
    if not classes:
        return []
    done = []
    for q, host in functions_of(tree).items():
        if q.split(".")[0] in classes:
            continue
        for owner, field, lst in _stmt_lists(host):
            for i, st in enumerate(list(lst)):
                if not (isinstance(st, ast.Assign) and len(st.targets) == 1 and isinstance(st.targets[0], ast.Name)
                        and isinstance(st.value, ast.Call) and isinstance(st.value.func, ast.Name) and st.value.func.id in classes):
                    continue
                x, K = st.targets[0].id, st.value.func.id
                meths = classes[K]
                stores = [n for n in _walk_fn(host) if isinstance(n, ast.Name) and n.id == x and isinstance(n.ctx, (ast.Store, ast.Del))]
                if len(stores) != 1:
                    continue
                parents = {}
                for n in _walk_fn(host):
                    for c in ast.iter_child_nodes(n):
                        parents[id(c)] = n
                loads = [n for n in _walk_fn(host) if isinstance(n, ast.Name) and n.id == x and isinstance(n.ctx, ast.Load)]
                if not loads or not all(isinstance(parents.get(id(n)), ast.Attribute) and parents[id(n)].value is n for n in loads):
                    continue  # the object escapes (passed on, returned, compared ...)
                fields_ = {t.attr for m in meths.values() for t in ast.walk(m) if isinstance(t, ast.Attribute)
                           and isinstance(t.value, ast.Name) and t.value.id == "self" and isinstance(t.ctx, ast.Store)}
                used = {parents[id(n)].attr for n in loads}
                if not used <= fields_ | set(meths):
                    continue
                taken = fn_locals(host) | {a.arg for a in ast.walk(host.args) if isinstance(a, ast.arg)}
                if any(f"{x}_{f}" in taken for f in fields_):
                    continue
                # 1. methods at their call sites
                helpers = AnyReceiver()
                ok = True
                for name, m in meths.items():
                    if name == "__init__":
                        continue
                    h = Helper(m, K)
                    if not (h.usable() and h.params and h.params[0] == "self"):
                        ok = False
                    forward_substitute(m, fn_locals(m) - set(h.params))
                    h.body = _strip_doc(m.body)
                    helpers[name] = h
                if not ok:
                    continue
                inl = []
                for _round in range(3):
                    if not _inline_in_function(host, {}, helpers, inl):
                        break
                # every remaining load must be a field access now
                loads = [n for n in _walk_fn(host) if isinstance(n, ast.Name) and n.id == x and isinstance(n.ctx, ast.Load)]
                parents = {}
                for n in _walk_fn(host):
                    for c in ast.iter_child_nodes(n):
                        parents[id(c)] = n
                if not all(isinstance(parents.get(id(n)), ast.Attribute) and parents[id(n)].attr in fields_ for n in loads):
                    continue
                # 2. the constructor
                hi = Helper(meths["__init__"], K)
                if not hi.usable() or hi.is_gen:
                    continue
                fake = ast.Call(func=ast.Attribute(value=ast.Name(id=x, ctx=ast.Load()), attr="__init__", ctx=ast.Load()),
                                args=st.value.args, keywords=st.value.keywords)
                ast.copy_location(fake, st)
                ast.fix_missing_locations(fake)
                try:
                    pro, body = hi.instantiate(fake, True, taken)
                except NotInlineable:
                    continue
                if any(isinstance(b, ast.Return) and b.value is not None for s_ in body for b in _walk_stmt(s_)):
                    continue
                idx = lst.index(st)
                lst[idx:idx + 1] = pro + body
                # 3. fields are locals

                class Fields(ast.NodeTransformer):
                    def visit_Attribute(self, node):
                        self.generic_visit(node)
                        if isinstance(node.value, ast.Name) and node.value.id == x and node.attr in fields_:
                            return ast.copy_location(ast.Name(id=f"{x}_{node.attr}", ctx=node.ctx), node)
                        return node
                Fields().visit(host)
                ast.fix_missing_locations(host)
                done.append(f"{q}:{x}={K}")
    if done:
        for name in list(classes):
            if not any(isinstance(n, ast.Name) and n.id == name and isinstance(n.ctx, ast.Load) for n in ast.walk(tree)):
                tree.body[:] = [s_ for s_ in tree.body if not (isinstance(s_, ast.ClassDef) and s_.name == name)]
    return done


# ----------------------------------------------------------------------- N15 function factories, N16 operator module
_OPERATOR_BIN = {"add": ast.Add, "sub": ast.Sub, "mul": ast.Mult, "truediv": ast.Div, "floordiv": ast.FloorDiv, "mod": ast.Mod,
                 "pow": ast.Pow, "lshift": ast.LShift, "rshift": ast.RShift, "and_": ast.BitAnd, "or_": ast.BitOr, "xor": ast.BitXor,
                 "matmul": ast.MatMult}
_OPERATOR_CMP = {"lt": ast.Lt, "le": ast.LtE, "eq": ast.Eq, "ne": ast.NotEq, "gt": ast.Gt, "ge": ast.GtE, "is_": ast.Is,
                 "is_not": ast.IsNot}


class _OperatorCalls(ast.NodeTransformer):
    """N16. operator.add(a, b) is a + b (and so on for the binary and comparison functions of the operator module)"""

    def __init__(self, names):
        self.names = names   # local names of the operator module
        self.count = 0

    def visit_Call(self, node):
        self.generic_visit(node)
        f = node.func
        if isinstance(f, ast.Attribute) and isinstance(f.value, ast.Name) and f.value.id in self.names and len(node.args) == 2 \
                and not node.keywords and not any(isinstance(a, ast.Starred) for a in node.args):
            if f.attr in _OPERATOR_BIN:
                self.count += 1
                return ast.copy_location(ast.BinOp(left=node.args[0], op=_OPERATOR_BIN[f.attr](), right=node.args[1]), node)
            if f.attr in _OPERATOR_CMP:
                self.count += 1
                return ast.copy_location(ast.Compare(left=node.args[0], ops=[_OPERATOR_CMP[f.attr]()], comparators=[node.args[1]]), node)
        return node


def instantiate_factories(tree, shape):
    """N15.  A new module-level function that only defines one inner function, optionally sets descriptive attributes on it
    (__name__, __qualname__, __doc__) and returns it, is a function template: `F(a, b)` with effect-free arguments is
    replaced by a local `def` of the inner function with the parameters substituted, placed before the statement that uses
    it (named after the attribute it is installed as, if the use is `setattr(obj, "<name>", F(...))`)."""
    pinned_fns = set(shape["functions"])
    factories = {}
    for st in tree.body:
        if not (isinstance(st, ast.FunctionDef) and st.name not in pinned_fns and not st.decorator_list):
            continue
        body = _strip_doc(st.body)
        if not body or not isinstance(body[0], ast.FunctionDef) or not isinstance(body[-1], ast.Return) \
                or not isinstance(body[-1].value, ast.Name) or body[-1].value.id != body[0].name:
            continue
        inner = body[0]
        meta_ok = all(isinstance(x, ast.Assign) and len(x.targets) == 1 and isinstance(x.targets[0], ast.Attribute)
                      and isinstance(x.targets[0].value, ast.Name) and x.targets[0].value.id == inner.name
                      and x.targets[0].attr in ("__name__", "__qualname__", "__doc__") for x in body[1:-1])
        a = st.args
        if not meta_ok or a.vararg or a.kwarg or a.posonlyargs or a.kwonlyargs or inner.decorator_list:
            continue
        params = [x.arg for x in a.args]
        inner_bound = {x.arg for x in ast.walk(inner.args) if isinstance(x, ast.arg)} | fn_locals(inner)
        if set(params) & inner_bound:
            continue
        factories[st.name] = (st, inner, params)
    if not factories:
        return []
    done = []
    for q, host in functions_of(tree).items():
        if host.name in factories:
            continue
        taken = fn_locals(host) | {x.arg for x in ast.walk(host.args) if isinstance(x, ast.arg)}
        for owner, field, lst in _stmt_lists(host):
            i = 0
            while i < len(lst):
                stmt = lst[i]
                if isinstance(stmt, (ast.FunctionDef, ast.AsyncFunctionDef, ast.ClassDef)):
                    i += 1
                    continue
                calls = [c for c in _walk_stmt(stmt) if isinstance(c, ast.Call) and isinstance(c.func, ast.Name) and c.func.id in factories]
                calls = [c for c in calls if isinstance(stmt, (ast.Expr, ast.Assign, ast.Return)) and _contains(stmt.value, c)] if calls else []
                if not calls:
                    i += 1
                    continue
                c = calls[0]
                fdef, inner, params = factories[c.func.id]
                if c.keywords and any(k.arg is None for k in c.keywords) or any(isinstance(x, ast.Starred) for x in c.args) \
                        or len(c.args) > len(params):
                    i += 1
                    continue
                mapping = dict(zip(params, c.args))
                for k in c.keywords:
                    mapping[k.arg] = k.value
                defaults = dict(zip(reversed(params), reversed(fdef.args.defaults)))
                for p_ in params:
                    mapping.setdefault(p_, defaults.get(p_))
                if any(v is None or not (is_pure(v) and isinstance(v, (ast.Constant, ast.Name, ast.Attribute))) for v in mapping.values()):
                    i += 1
                    continue
                name = None
                if isinstance(stmt, ast.Expr) and isinstance(stmt.value, ast.Call) and _callee(stmt.value) == "setattr" \
                        and len(stmt.value.args) == 3 and stmt.value.args[2] is c and isinstance(stmt.value.args[1], ast.Constant) \
                        and isinstance(stmt.value.args[1].value, str) and stmt.value.args[1].value.isidentifier():
                    name = stmt.value.args[1].value
                if name is None or name in taken:
                    name = f"{inner.name}_{len(done)}"
                    while name in taken:
                        name += "_"
                taken.add(name)
                new = copy.deepcopy(inner)
                new.name = name
                substitute(new, mapping)
                ast.copy_location(new, stmt)
                ref = ast.copy_location(ast.Name(id=name, ctx=ast.Load()), c)
                _replace_node(stmt, c, ref)
                lst.insert(i, new)
                ast.fix_missing_locations(new)
                done.append(c.func.id)
                i += 1   # re-examine the same statement (now at i) for further factory calls
    if done:
        for name, (fdef, _i, _p) in factories.items():
            if name in done and not any(isinstance(n, ast.Name) and n.id == name and isinstance(n.ctx, ast.Load) for n in ast.walk(tree)):
                tree.body.remove(fdef)
    return sorted(set(done))


def _replace_node(root, old, new):
    for parent in ast.walk(root):
        for f_, v in ast.iter_fields(parent):
            if v is old:
                setattr(parent, f_, new)
                return True
            if isinstance(v, list):
                for k, x in enumerate(v):
                    if x is old:
                        v[k] = new
                        return True
    return False


# ----------------------------------------------------------------------- N14 loops over a one-element display
def unroll_singleton_loops(fn):
    """`for x in (a,): body` (a display with one element, plain name target, no break / continue / else) is `x = a; body`"""
    n = 0
    for owner, field, lst in _stmt_lists(fn):
        i = 0
        while i < len(lst):
            st = lst[i]
            if isinstance(st, ast.For) and isinstance(st.iter, (ast.Tuple, ast.List)) and len(st.iter.elts) == 1 \
                    and not isinstance(st.iter.elts[0], ast.Starred) and isinstance(st.target, ast.Name) and not st.orelse \
                    and not _break_at_level(st.body) and not any(isinstance(x, ast.Continue) for b in st.body for x in _walk_stmt(b)
                                                                 if not isinstance(x, (ast.For, ast.While))):
                bind = ast.copy_location(ast.Assign(targets=[ast.Name(id=st.target.id, ctx=ast.Store())], value=st.iter.elts[0],
                                                    lineno=st.lineno), st)
                ast.fix_missing_locations(bind)
                lst[i:i + 1] = [bind] + st.body
                n += 1
                continue
            i += 1
    return n


# ----------------------------------------------------------------------- N21 loops over a generator expression
def unfold_genexp_loops(fn):
    """`for T in (E for v in S if c): BODY` is `for v in S: if c: T = E; BODY` (one generator clause; BODY has no continue /
    break at its level and does not use v's name for something else)"""
    n = 0
    for owner, field, lst in _stmt_lists(fn):
        for i, st in enumerate(lst):
            if not (isinstance(st, ast.For) and isinstance(st.iter, ast.GeneratorExp) and len(st.iter.generators) == 1 and not st.orelse):
                continue
            g = st.iter.generators[0]
            if g.is_async or _break_at_level(st.body) or any(isinstance(x, ast.Continue) for b in st.body for x in _walk_stmt(b)):
                continue
            inner = {x.id for x in ast.walk(g.target) if isinstance(x, ast.Name)}
            outer_names = {x.id for b in st.body for x in ast.walk(b) if isinstance(x, ast.Name)} | \
                {x.id for x in ast.walk(st.target) if isinstance(x, ast.Name)}
            if inner & outer_names:
                continue
            bind = ast.copy_location(ast.Assign(targets=[st.target], value=st.iter.elt, lineno=st.lineno), st)
            body = [bind] + st.body
            for c in reversed(g.ifs):
                body = [ast.copy_location(ast.If(test=c, body=body, orelse=[]), st)]
            tgt = copy.deepcopy(g.target)
            for x in ast.walk(tgt):
                if hasattr(x, "ctx"):
                    x.ctx = ast.Store()
            new = ast.copy_location(ast.For(target=tgt, iter=g.iter, body=body, orelse=[]), st)
            ast.fix_missing_locations(new)
            lst[i] = new
            n += 1
    return n


def split_tuple_assignments(fn, candidates):
    """`a, b = (x, y)` with a display of the same length and effect-free elements that do not mention a or b is `a = x; b = y`
    (only when one of the targets is a new local: it then becomes a candidate for forward substitution)"""
    n = 0
    for owner, field, lst in _stmt_lists(fn):
        i = 0
        while i < len(lst):
            st = lst[i]
            if isinstance(st, ast.Assign) and len(st.targets) == 1 and isinstance(st.targets[0], ast.Tuple) \
                    and isinstance(st.value, ast.Tuple) and len(st.value.elts) == len(st.targets[0].elts) \
                    and all(isinstance(t, ast.Name) for t in st.targets[0].elts) and all(is_pure(v) for v in st.value.elts):
                names = {t.id for t in st.targets[0].elts}
                used = {x.id for v in st.value.elts for x in ast.walk(v) if isinstance(x, ast.Name)}
                if not (names & used) and len(names) == len(st.targets[0].elts):
                    new = [ast.copy_location(ast.Assign(targets=[ast.Name(id=t.id, ctx=ast.Store())], value=v, lineno=st.lineno), st)
                           for t, v in zip(st.targets[0].elts, st.value.elts)]
                    for x in new:
                        ast.fix_missing_locations(x)
                    lst[i:i + 1] = new
                    n += 1
                    i += len(new)
                    continue
            i += 1
    return n


# ----------------------------------------------------------------------- N6 compiled patterns
class _Recompile(ast.NodeTransformer):
    """re.compile(P).match(X, ...) == re.match(P, X, ...) (also search / fullmatch)"""

    def visit_Call(self, node):
        self.generic_visit(node)
        f = node.func
        if isinstance(f, ast.Attribute) and f.attr in ("match", "search", "fullmatch") and isinstance(f.value, ast.Call) \
                and _callee(f.value) == "re.compile" and len(f.value.args) == 1 and not f.value.keywords:
            new = ast.Call(func=ast.Attribute(value=ast.Name(id="re", ctx=ast.Load()), attr=f.attr, ctx=ast.Load()),
                           args=[f.value.args[0]] + list(node.args), keywords=list(node.keywords))
            return ast.copy_location(new, node)
        return node


# ----------------------------------------------------------------------- N4 conditional values
def _nested_ifexp(e, bound=frozenset()):
    """first conditional expression in `e` whose test does not mention a comprehension / lambda variable in scope"""
    if isinstance(e, ast.IfExp) and not ({n.id for n in ast.walk(e.test) if isinstance(n, ast.Name)} & bound):
        return e
    if isinstance(e, ast.Lambda):
        return None
    if isinstance(e, (ast.ListComp, ast.SetComp, ast.DictComp, ast.GeneratorExp)):
        bound = bound | {n.id for g in e.generators for n in ast.walk(g.target) if isinstance(n, ast.Name)}
    if isinstance(e, (ast.Yield, ast.YieldFrom, ast.Await, ast.NamedExpr)):
        return None
    for c in ast.iter_child_nodes(e):
        if isinstance(c, (ast.expr, ast.comprehension, ast.keyword)):
            r = _nested_ifexp(c, bound)
            if r is not None:
                return r
    return None


def split_conditionals(fn):
    n = 0
    for owner, field, lst in _stmt_lists(fn):
        i = 0
        while i < len(lst):
            st = lst[i]
            if isinstance(st, ast.Assign) and isinstance(st.value, ast.IfExp) and len(st.targets) == 1 and isinstance(st.targets[0], ast.Name) \
                    and any(isinstance(x, ast.Name) and x.id == st.targets[0].id for x in (st.value.body, st.value.orelse)):
                # `x = A if c else x` keeps x unless c: `if c: x = A`
                e = st.value
                keep_else = isinstance(e.orelse, ast.Name) and e.orelse.id == st.targets[0].id
                test = e.test if keep_else else _negate(e.test)
                val = e.body if keep_else else e.orelse
                a = ast.copy_location(ast.Assign(targets=copy.deepcopy(st.targets), value=val, lineno=st.lineno), val)
                new = ast.copy_location(ast.If(test=test, body=[a], orelse=[]), st)
                ast.fix_missing_locations(new)
                lst[i] = new
                n += 1
                continue
            if isinstance(st, ast.Assign) and isinstance(st.value, ast.IfExp):
                e = st.value
                a = ast.copy_location(ast.Assign(targets=copy.deepcopy(st.targets), value=e.body, lineno=st.lineno), e.body)
                b = ast.copy_location(ast.Assign(targets=copy.deepcopy(st.targets), value=e.orelse, lineno=st.lineno), e.orelse)
                new = ast.copy_location(ast.If(test=e.test, body=[a], orelse=[b]), st)
                ast.fix_missing_locations(new)
                lst[i] = new
                n += 1
                continue
            if isinstance(st, (ast.Assign, ast.Return, ast.Expr)) and st.value is not None and not isinstance(st.value, ast.IfExp):
                # a conditional value nested in the statement's expression (also inside a comprehension, when its test does not
                # use the comprehension's variables): with an effect-free test the statement is an if/else over two copies
                hit = _nested_ifexp(st.value)
                if hit is None and isinstance(st.value, (ast.Yield, ast.YieldFrom)) and st.value.value is not None:
                    # the operand of a statement-level yield / yield from is evaluated completely before anything is yielded
                    hit = _nested_ifexp(st.value.value)
                if hit is not None and is_pure(hit.test) and not (
                        {x.id for x in ast.walk(hit.test) if isinstance(x, ast.Name)} &
                        {x.id for x in ast.walk(st) if isinstance(x, ast.Name) and isinstance(x.ctx, ast.Store)}):
                    a_, b_ = copy.deepcopy(st), copy.deepcopy(st)
                    ha, hb = _nested_ifexp(a_.value), _nested_ifexp(b_.value)
                    if ha is None:
                        ha, hb = _nested_ifexp(a_.value.value), _nested_ifexp(b_.value.value)
                    _replace_node(a_, ha, ha.body)
                    _replace_node(b_, hb, hb.orelse)
                    new = ast.copy_location(ast.If(test=hit.test, body=[a_], orelse=[b_]), st)
                    ast.fix_missing_locations(new)
                    lst[i] = new
                    n += 1
                    continue
            if isinstance(st, ast.Return) and isinstance(st.value, ast.IfExp):
                e = st.value
                new = ast.copy_location(ast.If(test=e.test, body=[ast.copy_location(ast.Return(value=e.body), e.body)],
                                               orelse=[ast.copy_location(ast.Return(value=e.orelse), e.orelse)]), st)
                ast.fix_missing_locations(new)
                lst[i] = new
                n += 1
                continue
            i += 1
    return n


# ------------------------------------------------------------------- N10 conditional values under known facts
def _is_none(e):
    return isinstance(e, ast.Constant) and e.value is None


def _never_none(e):
    if isinstance(e, ast.Constant):
        return e.value is not None
    if isinstance(e, (ast.BinOp, ast.Compare, ast.JoinedStr, ast.List, ast.Tuple, ast.Dict, ast.Set)):
        return True
    if isinstance(e, ast.Call) and _callee(e) in ("int", "len", "str", "bytes", "list", "dict", "tuple", "bool", "sum", "abs"):
        return True
    return False


def _negate(e):
    if isinstance(e, ast.Compare) and len(e.ops) == 1 and type(e.ops[0]) in (ast.Is, ast.IsNot, ast.Eq, ast.NotEq, ast.In, ast.NotIn):
        flip = {ast.Is: ast.IsNot, ast.IsNot: ast.Is, ast.Eq: ast.NotEq, ast.NotEq: ast.Eq, ast.In: ast.NotIn, ast.NotIn: ast.In}
        return ast.copy_location(ast.Compare(left=e.left, ops=[flip[type(e.ops[0])]()], comparators=e.comparators), e)
    if isinstance(e, ast.UnaryOp) and isinstance(e.op, ast.Not):
        return e.operand
    return ast.copy_location(ast.UnaryOp(op=ast.Not(), operand=e), e)


def _facts_of(test, truth):
    """atomic facts [(text, truth, expr)] that follow from `test` having the value `truth`"""
    if isinstance(test, ast.UnaryOp) and isinstance(test.op, ast.Not):
        return _facts_of(test.operand, not truth)
    if isinstance(test, ast.BoolOp):
        if isinstance(test.op, ast.And) == truth:
            out = []
            for v in test.values:
                out += _facts_of(v, truth)
            return out
        return []
    if isinstance(test, ast.Compare) and len(test.ops) == 1 and isinstance(test.ops[0], (ast.IsNot, ast.NotEq, ast.NotIn)):
        return _facts_of(_negate(test), not truth)
    if isinstance(test, ast.IfExp) and truth:
        # a conditional value with one constant falsy arm is truthy only through the other arm
        falsy = lambda x: isinstance(x, ast.Constant) and not x.value
        if falsy(test.body) and not falsy(test.orelse):
            return _facts_of(test.test, False) + _facts_of(test.orelse, True)
        if falsy(test.orelse) and not falsy(test.body):
            return _facts_of(test.test, True) + _facts_of(test.body, True)
    if not is_pure(test):
        return []
    return [(ast.unparse(test), truth, test)]


def _known(test, facts):
    fs = _facts_of(test, True)
    if len(fs) != 1:
        return None
    text, pol, _ = fs[0]
    for t, v, _e in facts:
        if t == text:
            return v == pol
    return None


def _strict_in(e, x_text):
    """does evaluating the arithmetic expression `e` raise TypeError when the operand spelled `x_text` is None?"""
    if isinstance(e, ast.BinOp) and isinstance(e.op, (ast.Add, ast.Sub, ast.Mult, ast.FloorDiv, ast.Mod, ast.LShift, ast.RShift)):
        return any(ast.unparse(o) == x_text or _strict_in(o, x_text) for o in (e.left, e.right))
    return False


def simplify_conditional_values(fn):
    """N10.  Conditional expressions whose test is decided by a dominating assert / if / and-operand are replaced by the
    live arm; `(None if C else E) is None` becomes `C`; `(None if X is None else E)` as operand of an ordering comparison
    or of arithmetic, with E arithmetic in X, becomes `E` (both raise TypeError when X is None).  Returns #rewrites."""
    count = [0]

    def strip_none_guard(e):
        # (None if X is None else E) / (E if X is not None else None), E strict in X -> E
        if isinstance(e, ast.IfExp):
            t, a, b = e.test, e.body, e.orelse
            if isinstance(t, ast.Compare) and len(t.ops) == 1 and _is_none(t.comparators[0]):
                if isinstance(t.ops[0], ast.Is) and _is_none(a) and _strict_in(b, ast.unparse(t.left)):
                    count[0] += 1
                    return b
                if isinstance(t.ops[0], ast.IsNot) and _is_none(b) and _strict_in(a, ast.unparse(t.left)):
                    count[0] += 1
                    return a
        return e

    def rw(e, facts):
        if e is None or isinstance(e, (ast.Lambda, ast.GeneratorExp, ast.ListComp, ast.SetComp, ast.DictComp)):
            return e
        if isinstance(e, ast.BoolOp):
            acc = list(facts)
            vals = []
            for v in e.values:
                nv = rw(v, acc)
                vals.append(nv)
                acc = acc + _facts_of(nv, isinstance(e.op, ast.And))
            e.values = vals
            return e
        if isinstance(e, ast.IfExp):
            e.test = rw(e.test, facts)
            k = _known(e.test, facts)
            if k is True:
                count[0] += 1
                return rw(e.body, facts + _facts_of(e.test, True))
            if k is False:
                count[0] += 1
                return rw(e.orelse, facts + _facts_of(e.test, False))
            e.body = rw(e.body, facts + _facts_of(e.test, True))
            e.orelse = rw(e.orelse, facts + _facts_of(e.test, False))
            return e
        for f_, v in list(ast.iter_fields(e)):
            if isinstance(v, ast.expr):
                setattr(e, f_, rw(v, facts))
            elif isinstance(v, list):
                for x in v:
                    if isinstance(x, ast.keyword):
                        x.value = rw(x.value, facts)
                setattr(e, f_, [rw(x, facts) if isinstance(x, ast.expr) else x for x in v])
        if isinstance(e, ast.Compare) and len(e.ops) == 1:
            l, r, op = e.left, e.comparators[0], e.ops[0]
            if isinstance(op, (ast.Is, ast.IsNot)) and _is_none(r) and isinstance(l, ast.IfExp):
                if _is_none(l.body) and _never_none(l.orelse):
                    count[0] += 1
                    return l.test if isinstance(op, ast.Is) else _negate(l.test)
                if _is_none(l.orelse) and _never_none(l.body):
                    count[0] += 1
                    return _negate(l.test) if isinstance(op, ast.Is) else l.test
            if isinstance(op, (ast.Lt, ast.LtE, ast.Gt, ast.GtE)):
                e.left, e.comparators = strip_none_guard(l), [strip_none_guard(r)]
        if isinstance(e, ast.BinOp) and isinstance(e.op, (ast.Add, ast.Sub, ast.Mult)):
            e.left, e.right = strip_none_guard(e.left), strip_none_guard(e.right)
        return e

    def kill(facts, st):
        return [f for f in facts if not _write_conflict(st, f[2])]

    def block(stmts, facts):
        facts = list(facts)
        for st in stmts:
            if isinstance(st, (ast.FunctionDef, ast.AsyncFunctionDef, ast.ClassDef)):
                continue
            if isinstance(st, ast.If):
                st.test = rw(st.test, facts)
                fa = block(st.body, facts + _facts_of(st.test, True))
                fb = block(st.orelse, facts + _facts_of(st.test, False))
                ta, tb = _terminates(st.body), bool(st.orelse) and _terminates(st.orelse)
                base = kill(facts, ast.Expr(value=st.test))
                for arm, dead in ((st.body, ta), (st.orelse, tb)):
                    if not dead:
                        for x in arm:
                            base = kill(base, x)
                if ta and not tb:
                    extra = _facts_of(st.test, False)
                    for x in st.orelse:
                        extra = kill(extra, x)
                    facts = base + extra
                elif tb and not ta:
                    extra = _facts_of(st.test, True)
                    for x in st.body:
                        extra = kill(extra, x)
                    facts = base + extra
                else:
                    facts = base
                continue
            if isinstance(st, (ast.While, ast.For, ast.AsyncFor)):
                inner = kill(facts, st)
                if isinstance(st, ast.While):
                    st.test = rw(st.test, inner)
                    block(st.body, inner + _facts_of(st.test, True))
                else:
                    st.iter = rw(st.iter, facts)
                    block(st.body, inner)
                block(st.orelse, inner)
                facts = inner
                continue
            if isinstance(st, ast.Try):
                inner = kill(facts, st)
                block(st.body, facts)
                for h in st.handlers:
                    block(h.body, inner)
                block(st.orelse, inner)
                block(st.finalbody, inner)
                facts = inner
                continue
            if isinstance(st, (ast.With, ast.AsyncWith)):
                block(st.body, kill(facts, st))
                facts = kill(facts, st)
                continue
            for f_, v in list(ast.iter_fields(st)):
                if isinstance(v, ast.expr):
                    setattr(st, f_, rw(v, facts))
                elif isinstance(v, list) and v and all(isinstance(x, ast.expr) for x in v):
                    setattr(st, f_, [rw(x, facts) for x in v])
            facts = kill(facts, st)
            if isinstance(st, ast.Assert):
                facts = facts + _facts_of(st.test, True)
        return facts

    block(fn.body, [])
    return count[0]


# ------------------------------------------------------------------- N11 linear arithmetic
def _lin_terms(e, sign, out):
    if isinstance(e, ast.BinOp) and isinstance(e.op, ast.Add):
        _lin_terms(e.left, sign, out)
        _lin_terms(e.right, sign, out)
    elif isinstance(e, ast.BinOp) and isinstance(e.op, ast.Sub):
        _lin_terms(e.left, sign, out)
        _lin_terms(e.right, -sign, out)
    elif isinstance(e, ast.UnaryOp) and isinstance(e.op, ast.USub) and not isinstance(e.operand, ast.Constant):
        _lin_terms(e.operand, -sign, out)
    else:
        out.append((sign, e))


def _has_linear_sub(e):
    if isinstance(e, ast.BinOp) and isinstance(e.op, ast.Sub):
        return True
    if isinstance(e, ast.BinOp) and isinstance(e.op, ast.Add):
        return _has_linear_sub(e.left) or _has_linear_sub(e.right)
    return False


def _lin_build(pos, neg, const):
    """pos/neg: expression lists; const: int"""
    pos = sorted(pos, key=ast.unparse)
    neg = sorted(neg, key=ast.unparse)
    if const > 0:
        pos = pos + [ast.Constant(value=const)]
    elif const < 0:
        neg = neg + [ast.Constant(value=-const)]
    if not pos:
        if not neg:
            return ast.Constant(value=0)
        return None
    out = pos[0]
    for t in pos[1:]:
        out = ast.BinOp(left=out, op=ast.Add(), right=t)
    for t in neg:
        out = ast.BinOp(left=out, op=ast.Sub(), right=t)
    return out


def _split_const(terms):
    const, pos, neg = 0, [], []
    for sg, t in terms:
        if isinstance(t, ast.Constant) and isinstance(t.value, int) and not isinstance(t.value, bool):
            const += sg * t.value
        elif sg > 0:
            pos.append(t)
        else:
            neg.append(t)
    # x - x cancels
    for t in list(pos):
        tx = ast.unparse(t)
        m = next((n for n in neg if ast.unparse(n) == tx), None)
        if m is not None and is_pure(t):
            pos.remove(t)
            neg.remove(m)
    return pos, neg, const


class _Linear(ast.NodeTransformer):
    """sums and differences that contain a subtraction (hence numbers) get one spelling: positive terms in text order, then
    the negative ones; in a comparison every term moves to the side where it is positive and the textually smaller side
    stands on the left.  `size > max - already` and `already + size > max` are the same statement."""
    FLIP = {ast.Lt: ast.Gt, ast.Gt: ast.Lt, ast.LtE: ast.GtE, ast.GtE: ast.LtE, ast.Eq: ast.Eq, ast.NotEq: ast.NotEq}

    def __init__(self):
        self.count = 0

    def visit_Compare(self, node):
        self.generic_visit(node)
        if len(node.ops) != 1 or type(node.ops[0]) not in self.FLIP:
            return node
        l, r = node.left, node.comparators[0]
        if not (_has_linear_sub(l) or _has_linear_sub(r)):
            return node
        terms = []
        _lin_terms(l, 1, terms)
        _lin_terms(r, -1, terms)
        if not all(is_pure(t) for _, t in terms):
            return node
        pos, neg, const = _split_const(terms)
        op = node.ops[0]
        # the quantities compared with +-1 here are integers (sizes, counts, handle numbers): x <= y - 1 is x < y
        if (pos or neg) and isinstance(op, ast.LtE) and const == 1:
            op, const = ast.Lt(), 0
        elif (pos or neg) and isinstance(op, ast.GtE) and const == -1:
            op, const = ast.Gt(), 0
        elif (pos or neg) and isinstance(op, ast.Lt) and const == -1:
            op, const = ast.LtE(), 0
        elif (pos or neg) and isinstance(op, ast.Gt) and const == 1:
            op, const = ast.GtE(), 0
        left = _lin_build(pos, [], const if const > 0 else 0)
        right = _lin_build(neg, [], -const if const < 0 else 0)
        if left is None or right is None:
            return node
        if ast.unparse(left) > ast.unparse(right) and not (isinstance(right, ast.Constant) and not isinstance(left, ast.Constant)):
            left, right, op = right, left, self.FLIP[type(op)]()
        elif isinstance(left, ast.Constant) and not isinstance(right, ast.Constant):
            left, right, op = right, left, self.FLIP[type(op)]()
        new = ast.copy_location(ast.Compare(left=left, ops=[op], comparators=[right]), node)
        if ast.unparse(new) != ast.unparse(node):
            self.count += 1
        return ast.fix_missing_locations(new)

    def visit_BinOp(self, node):
        if isinstance(node.op, (ast.Add, ast.Sub)) and _has_linear_sub(node):
            terms = []
            _lin_terms(node, 1, terms)
            terms = [(sg, self.visit(t)) for sg, t in terms]
            if all(is_pure(t) for _, t in terms):
                pos, neg, const = _split_const(terms)
                new = _lin_build(pos, neg, const)
                if new is not None:
                    new = ast.fix_missing_locations(ast.copy_location(new, node))
                    if ast.unparse(new) != ast.unparse(node):
                        self.count += 1
                    return new
            return node
        self.generic_visit(node)
        return node


def name_reraises(tree):
    """N12. a bare `raise` directly inside `except E as name:` re-raises the object `name` is bound to (unless rebound)"""
    n = 0
    for h in ast.walk(tree):
        if not (isinstance(h, ast.ExceptHandler) and h.name):
            continue
        rebound = any(isinstance(x, ast.Name) and x.id == h.name and isinstance(x.ctx, (ast.Store, ast.Del))
                      for st in h.body for x in ast.walk(st))
        if rebound:
            continue
        stack = list(h.body)
        while stack:
            st = stack.pop()
            if isinstance(st, ast.Raise) and st.exc is None:
                st.exc = ast.copy_location(ast.Name(id=h.name, ctx=ast.Load()), st)
                n += 1
            for f_, v in ast.iter_fields(st):
                if isinstance(v, list):
                    for x in v:
                        if isinstance(x, ast.stmt) and not isinstance(x, (ast.FunctionDef, ast.AsyncFunctionDef, ast.ClassDef, ast.Try)):
                            stack.append(x)
                        elif isinstance(x, ast.Try):
                            stack.extend(x.body + x.orelse + x.finalbody)  # not its handlers: there a bare raise means another error
    return n


class _FormatCalls(ast.NodeTransformer):
    """N13. `"...{a}...{b:spec}".format(a=X, b=Y)` with a constant template and plain field names is the f-string
    `f"...{X}...{Y:spec}"` (arguments must be effect-free: an f-string evaluates them where they are used)"""

    def __init__(self):
        self.count = 0

    def visit_Call(self, node):
        self.generic_visit(node)
        f = node.func
        if not (isinstance(f, ast.Attribute) and f.attr == "format" and isinstance(f.value, ast.Constant) and isinstance(f.value.value, str)):
            return node
        if any(isinstance(a, ast.Starred) for a in node.args) or any(k.arg is None for k in node.keywords):
            return node
        if not all(is_pure(a) for a in list(node.args) + [k.value for k in node.keywords]):
            return node
        kw = {k.arg: k.value for k in node.keywords}
        auto = [0]
        used = set()

        def build(template, depth=0):
            import string
            parts = []
            for lit, field, spec, conv in string.Formatter().parse(template):
                if lit:
                    parts.append(ast.Constant(value=lit))
                if field is None:
                    continue
                if field == "":
                    key = auto[0]
                    auto[0] += 1
                elif field.isdigit():
                    key = int(field)
                elif field.isidentifier():
                    key = field
                else:
                    raise ValueError(field)
                if isinstance(key, int):
                    if key >= len(node.args):
                        raise ValueError(field)
                    val = node.args[key]
                else:
                    if key not in kw:
                        raise ValueError(field)
                    val = kw[key]
                used.add(key)
                fs = None
                if spec:
                    if depth > 0:
                        raise ValueError("nesting")
                    fs = ast.JoinedStr(values=build(spec, depth + 1))
                parts.append(ast.FormattedValue(value=copy.deepcopy(val), conversion=ord(conv) if conv else -1, format_spec=fs))
            return parts
        try:
            parts = build(f.value.value)
        except ValueError:
            return node
        if len(used) != len(node.args) + len(kw):
            return node  # unused arguments would no longer be evaluated
        # merge adjacent literals
        merged = []
        for x in parts:
            if merged and isinstance(x, ast.Constant) and isinstance(merged[-1], ast.Constant):
                merged[-1] = ast.Constant(value=merged[-1].value + x.value)
            else:
                merged.append(x)
        self.count += 1
        return ast.fix_missing_locations(ast.copy_location(ast.JoinedStr(values=merged), node))


def linear_canon(tree):
    v = _Linear()
    v.visit(tree)
    return v.count


# ------------------------------------------------------------------------- N8 keyword dicts
def expand_keyword_dicts(fn, candidates):
    """`kw = {"a": x, "b": y}` ... `f(**kw)`: a new local bound once to a dict display with constant string keys, never
    written to and used only as `**kw`, is spelled out as explicit keywords at every call"""
    done = 0
    for owner, field, lst in _stmt_lists(fn):
        for i, st in enumerate(list(lst)):
            if not (isinstance(st, ast.Assign) and len(st.targets) == 1 and isinstance(st.targets[0], ast.Name)
                    and isinstance(st.value, ast.Dict) and st.value.keys
                    and all(isinstance(k, ast.Constant) and isinstance(k.value, str) and k.value.isidentifier() for k in st.value.keys)):
                continue
            var = st.targets[0].id
            if var not in candidates:
                continue
            stores = [n for n in _walk_fn(fn) if isinstance(n, ast.Name) and n.id == var and isinstance(n.ctx, (ast.Store, ast.Del))]
            loads = [n for n in _walk_fn(fn) if isinstance(n, ast.Name) and n.id == var and isinstance(n.ctx, ast.Load)]
            splats = [k for n in _walk_fn(fn) if isinstance(n, ast.Call) for k in n.keywords if k.arg is None and k.value in loads]
            if len(stores) != 1 or len(splats) != len(loads) or not loads:
                continue
            if not all(is_pure(v) or isinstance(v, ast.Name) for v in st.value.values):
                continue
            free = {n.id for v in st.value.values for n in ast.walk(v) if isinstance(n, ast.Name)}
            later = lst[lst.index(st) + 1:]
            if not all(any(_contains(s_, u) for s_ in later) for u in loads):
                continue
            # the bundle holds references: only a *re-binding* of a name it mentions (not a mutation of the object) matters
            last = max(k_ for k_ in range(len(later)) if any(_contains(later[k_], u) for u in loads))
            rebound = {n.id for s_ in later[:last + 1] for n in ast.walk(s_) if isinstance(n, ast.Name) and isinstance(n.ctx, (ast.Store, ast.Del))}
            if rebound & free:
                continue
            for n in _walk_fn(fn):
                if isinstance(n, ast.Call) and any(k in splats for k in n.keywords):
                    new_kw = []
                    for k in n.keywords:
                        if k in splats:
                            new_kw.extend(ast.keyword(arg=kk.value, value=copy.deepcopy(vv)) for kk, vv in zip(st.value.keys, st.value.values))
                        else:
                            new_kw.append(k)
                    n.keywords = new_kw
                    ast.fix_missing_locations(n)
            lst.remove(st)
            if not lst:
                lst.append(ast.copy_location(ast.Pass(), st))
            done += 1
    return done


# ------------------------------------------------------------------------- N31 tags and keyword bundles threaded through branches
def thread_new_locals(fn, new_locals, pinned_locals=()):
    """N31.  A new local that only carries a TAG - a constant, an enum member, a module-level function - chosen in one
    if-chain and tested (or called) further down, and a new local that is a KEYWORD BUNDLE filled in under those tests and
    splatted into one call, are threaded through: the statements behind an `if` whose branches leave such locals with
    different known values are copied into both branches (tail duplication, which never changes what is executed), the
    known values are substituted, tests on them are folded and dead branches dropped.  `kind = classify(T); walker =
    TABLE[kind]; kw = {}; if kind is K1: kw["a"] = a ...; yield from walker(T, **kw)` becomes the if-chain over the
    classification with one direct call per branch."""
    params = {a.arg for a in ast.walk(fn.args) if isinstance(a, ast.arg)}
    local_names = fn_locals(fn) | params
    budget = [12]
    changed = [0]

    def constlike(e):
        if isinstance(e, ast.Constant):
            return True
        if isinstance(e, ast.Name):
            return e.id not in local_names
        if isinstance(e, ast.Attribute):
            return isinstance(e.value, ast.Name) and e.value.id not in local_names and e.value.id[:1].isupper()
        return False

    def kwdisplay(e):
        return isinstance(e, ast.Dict) and all(isinstance(k, ast.Constant) and isinstance(k.value, str) and k.value.isidentifier() for k in e.keys)

    class Sub(ast.NodeTransformer):
        def __init__(self, env):
            self.env = env

        def visit_FunctionDef(self, node):
            return node

        def visit_Lambda(self, node):
            return node

        def visit_Name(self, node):
            v = self.env.get(node.id)
            if isinstance(node.ctx, ast.Load) and v is not None and v[0] == "const":
                changed[0] += 1
                return ast.copy_location(copy.deepcopy(v[1]), node)
            return node

        def visit_Call(self, node):
            self.generic_visit(node)
            kws = []
            for k in node.keywords:
                v = self.env.get(k.value.id) if k.arg is None and isinstance(k.value, ast.Name) else None
                if v is not None and v[0] == "kwdict":
                    kws.extend(ast.keyword(arg=kk, value=copy.deepcopy(vv)) for kk, vv in v[1])
                    changed[0] += 1
                else:
                    kws.append(k)
            node.keywords = kws
            return node

    def fold(test):
        """True / False / None for a test over substituted tags"""
        if isinstance(test, ast.Constant):
            return bool(test.value)
        if isinstance(test, ast.UnaryOp) and isinstance(test.op, ast.Not):
            v = fold(test.operand)
            return None if v is None else not v
        if isinstance(test, ast.BoolOp):
            vals = [fold(v) for v in test.values]
            if isinstance(test.op, ast.And):
                return False if False in vals else True if all(v is True for v in vals) else None
            return True if True in vals else False if all(v is False for v in vals) else None
        if isinstance(test, ast.Compare) and len(test.ops) == 1 and isinstance(test.ops[0], (ast.Eq, ast.NotEq, ast.Is, ast.IsNot)):
            a, b = test.left, test.comparators[0]
            if constlike(a) and constlike(b) and not (isinstance(a, ast.Constant) and isinstance(b, ast.Constant) and isinstance(test.ops[0], (ast.Is, ast.IsNot))
                                                       and not (a.value is None or b.value is None or isinstance(a.value, bool) or isinstance(b.value, bool))):
                same = ast.dump(a) == ast.dump(b)
                if not same and not (type(a) is type(b)):
                    return None   # (a function name against an enum member ...: not decided here)
                return same if isinstance(test.ops[0], (ast.Eq, ast.Is)) else not same
        return None

    def simplify_test(test):
        """drop decided operands of an and / or"""
        if isinstance(test, ast.BoolOp):
            vals = []
            for v in test.values:
                f = fold(v)
                if f is None:
                    vals.append(simplify_test(v))
                elif f != isinstance(test.op, ast.And):
                    return ast.copy_location(ast.Constant(value=f), test)
            if not vals:
                return ast.copy_location(ast.Constant(value=isinstance(test.op, ast.And)), test)
            return vals[0] if len(vals) == 1 else ast.copy_location(ast.BoolOp(op=test.op, values=vals), test)
        return test

    def stores_in(st):
        return {n.id for n in ast.walk(st) if isinstance(n, ast.Name) and isinstance(n.ctx, (ast.Store, ast.Del))}

    def loads_in(stmts):
        return {n.id for s_ in stmts for n in ast.walk(s_) if isinstance(n, ast.Name) and isinstance(n.ctx, ast.Load)}

    def same(v1, v2):
        if v1 is None or v2 is None:
            return v1 is v2
        if v1[0] != v2[0]:
            return False
        if v1[0] == "const":
            return ast.dump(v1[1]) == ast.dump(v2[1])
        return [(k, ast.dump(v)) for k, v in v1[1]] == [(k, ast.dump(v)) for k, v in v2[1]]

    def run(stmts, env):
        """-> env at the end of the list, or None when the list cannot fall through"""
        i = 0
        while i < len(stmts):
            st = stmts[i]
            if isinstance(st, ast.Assign) and len(st.targets) == 1 and isinstance(st.targets[0], ast.Name) and st.targets[0].id in new_locals:
                x = st.targets[0].id
                st.value = Sub(env).visit(st.value)
                if constlike(st.value):
                    env[x] = ("const", st.value)
                elif kwdisplay(st.value):
                    env[x] = ("kwdict", [(k.value, v) for k, v in zip(st.value.keys, st.value.values)])
                else:
                    env.pop(x, None)
                i += 1
                continue
            if isinstance(st, ast.Assign) and len(st.targets) == 1 and isinstance(st.targets[0], ast.Subscript) \
                    and isinstance(st.targets[0].value, ast.Name) and env.get(st.targets[0].value.id, ("",))[0] == "kwdict" \
                    and isinstance(st.targets[0].slice, ast.Constant) and isinstance(st.targets[0].slice.value, str):
                x = st.targets[0].value.id
                st.value = Sub(env).visit(st.value)
                pairs = [(k, v) for k, v in env[x][1] if k != st.targets[0].slice.value] + [(st.targets[0].slice.value, st.value)]
                env[x] = ("kwdict", pairs)
                i += 1
                continue
            if isinstance(st, ast.If):
                st.test = simplify_test(Sub(env).visit(st.test))
                f = fold(st.test)
                if f is not None:
                    stmts[i:i + 1] = st.body if f else st.orelse
                    changed[0] += 1
                    continue
                e1, e2 = run(st.body, dict(env)), run(st.orelse, dict(env))
                tail = stmts[i + 1:]
                if tail and e1 is not None and e2 is not None and budget[0] > 0 and len(tail) <= 8:
                    used = loads_in(tail) & new_locals
                    if any(not same(e1.get(v), e2.get(v)) and (e1.get(v) is not None or e2.get(v) is not None) for v in used):
                        budget[0] -= 1
                        changed[0] += 1
                        st.body = st.body + copy.deepcopy(tail)
                        st.orelse = st.orelse + copy.deepcopy(tail)
                        del stmts[i + 1:]
                        continue   # process this `if` again, now with the tail inside
                if e1 is None and e2 is None:
                    if stmts[i + 1:]:
                        del stmts[i + 1:]
                        changed[0] += 1
                    return None
                src = e1 if e2 is None else e2 if e1 is None else {k: v for k, v in e1.items() if same(v, e2.get(k))}
                env.clear()
                env.update(src)
                i += 1
                continue
            if isinstance(st, (ast.For, ast.AsyncFor, ast.While, ast.Try, ast.With, ast.AsyncWith, ast.FunctionDef, ast.ClassDef, ast.Match)):
                for v in stores_in(st) | {n.value.id for n in ast.walk(st) if isinstance(n, ast.Subscript) and isinstance(n.ctx, ast.Store)
                                            and isinstance(n.value, ast.Name)}:
                    env.pop(v, None)
                i += 1
                continue
            if isinstance(st, (ast.Return, ast.Raise)):
                stmts[i] = Sub(env).visit(st)
                if stmts[i + 1:]:
                    del stmts[i + 1:]      # (copied tail statements behind a branch that leaves)
                    changed[0] += 1
                return None
            if isinstance(st, (ast.Continue, ast.Break)):
                if stmts[i + 1:]:
                    del stmts[i + 1:]
                return None
            for v in stores_in(st):
                env.pop(v, None)
            stmts[i] = Sub(env).visit(st)
            # a bundle that escapes in any other way than `**x` is an object again
            for n in ast.walk(stmts[i]):
                if isinstance(n, ast.Name) and env.get(n.id, ("",))[0] == "kwdict" and isinstance(n.ctx, ast.Load):
                    env.pop(n.id, None)
            i += 1
        return env

    # only worth it when a tag or a bundle is there at all
    cands = [st for st in _walk_fn(fn) if isinstance(st, ast.Assign) and len(st.targets) == 1 and isinstance(st.targets[0], ast.Name)
             and st.targets[0].id in new_locals and (constlike(st.value) or kwdisplay(st.value))]
    if not cands:
        return 0
    snapshot = copy.deepcopy(fn.body)
    try:
        run(fn.body, {})
    except RecursionError:
        fn.body = snapshot
        return 0
    # stores to new locals nobody reads any more
    for _ in range(4):
        store_bases = {id(n.value) for n in _walk_fn(fn) if isinstance(n, ast.Subscript) and isinstance(n.ctx, ast.Store)
                       and isinstance(n.value, ast.Name) and n.value.id in new_locals}
        live = {n.id for n in _walk_fn(fn) if isinstance(n, ast.Name) and isinstance(n.ctx, ast.Load) and id(n) not in store_bases}
        removed = False
        for owner, field, lst in _stmt_lists(fn):
            for st in list(lst):
                tgt = st.targets[0] if isinstance(st, ast.Assign) and len(st.targets) == 1 else None
                name = tgt.id if isinstance(tgt, ast.Name) else tgt.value.id if isinstance(tgt, ast.Subscript) and isinstance(tgt.value, ast.Name) else None
                if name in new_locals and name not in live and name not in params and (constlike(st.value) or kwdisplay(st.value) or is_pure(st.value)):
                    lst.remove(st)
                    removed = True
                    if not lst:
                        lst.append(ast.copy_location(ast.Pass(), st))
        if not removed:
            break
    if changed[0]:
        # `elif A: if B: X else: Y` (a branch that is nothing but another decision) is `elif A and B: X elif A: Y`
        def flatten(stmts):
            for st in stmts:
                for f_ in ("body", "orelse", "finalbody"):
                    sub = getattr(st, f_, None)
                    if isinstance(sub, list) and sub and isinstance(sub[0], ast.stmt):
                        flatten(sub)
                for h in getattr(st, "handlers", []) or []:
                    flatten(h.body)
                while isinstance(st, ast.If) and len(st.body) == 1 and isinstance(st.body[0], ast.If) and st.body[0].orelse \
                        and is_pure(st.test) and len(st.body[0].orelse) >= 1 and not (len(st.body[0].orelse) == 1 and isinstance(st.body[0].orelse[0], ast.If)):
                    inner = st.body[0]
                    rest = ast.copy_location(ast.If(test=copy.deepcopy(st.test), body=inner.orelse, orelse=st.orelse), inner)
                    st.test = ast.copy_location(ast.BoolOp(op=ast.And(), values=[st.test, inner.test]), st.test)
                    st.body = inner.body
                    st.orelse = [rest]
        flatten(fn.body)
        # a dispatcher written with early returns - `if c1: return (yield from f1(..))` ... `return (yield from fn(..))` - is the
        # if / elif / else chain that binds the delegated result to one local and returns it once (the pinned form; the local
        # is the pinned one that went missing, or the one some branches already use)
        _result_chain(fn, [v for v in pinned_locals if v not in params])
        flatten(fn.body)
        ast.fix_missing_locations(fn)
    return changed[0]


def _result_chain(fn, pinned_locals):
    def deleg(v):
        return isinstance(v, ast.YieldFrom) and isinstance(v.value, ast.Call)

    def leaf_kind(stmts):
        """('ret', yield-from) for `return (yield from f())`, ('bound', name, assign) for `r = yield from f(); return r`"""
        if len(stmts) == 1 and isinstance(stmts[0], ast.Return) and deleg(stmts[0].value):
            return ("ret", stmts[0])
        if len(stmts) == 2 and isinstance(stmts[0], ast.Assign) and len(stmts[0].targets) == 1 and isinstance(stmts[0].targets[0], ast.Name) \
                and deleg(stmts[0].value) and isinstance(stmts[1], ast.Return) and isinstance(stmts[1].value, ast.Name) \
                and stmts[1].value.id == stmts[0].targets[0].id:
            return ("bound", stmts[0].targets[0].id)
        return None

    def leaves(st, out):
        """collect the leaf statement lists of an if-chain (nested ifs included); False when a branch is something else"""
        if not isinstance(st, ast.If):
            return False
        for br in (st.body, st.orelse):
            if not br:
                continue
            if len(br) == 1 and isinstance(br[0], ast.If):
                if not leaves(br[0], out):
                    return False
            elif leaf_kind(br) is not None:
                out.append(br)
            else:
                return False
        return True

    def open_else(st):
        """the innermost if of the chain that has no else yet, or None"""
        while True:
            if not st.orelse:
                return st
            if len(st.orelse) == 1 and isinstance(st.orelse[0], ast.If):
                st = st.orelse[0]
            else:
                return None
    def push_return(stmts):
        """`if B: r = X else: r = Y` + `return r`  ->  the return inside both branches (so that every leaf looks alike)"""
        for st in stmts:
            if isinstance(st, ast.If):
                push_return(st.body)
                push_return(st.orelse)
        if len(stmts) == 2 and isinstance(stmts[0], ast.If) and isinstance(stmts[1], ast.Return) and isinstance(stmts[1].value, ast.Name):
            r_ = stmts[1].value.id
            brs = []

            def collect(st):
                for br in (st.body, st.orelse):
                    if not br:
                        return False
                    if len(br) == 1 and isinstance(br[0], ast.If):
                        if not collect(br[0]):
                            return False
                    elif len(br) == 1 and isinstance(br[0], ast.Assign) and len(br[0].targets) == 1 and isinstance(br[0].targets[0], ast.Name) \
                            and br[0].targets[0].id == r_ and deleg(br[0].value):
                        brs.append(br)
                    else:
                        return False
                return True
            if collect(stmts[0]):
                for br in brs:
                    br.append(copy.deepcopy(stmts[1]))
                del stmts[1]
    push_return(fn.body)
    body = fn.body
    if not body:
        return
    j = len(body)
    all_leaves = []
    if leaf_kind(body[j - 2:]) is not None and len(body) >= 2:
        all_leaves.append(("tail2", None))
        j -= 2
    elif leaf_kind(body[j - 1:]) is not None:
        all_leaves.append(("tail1", None))
        j -= 1
    while j > 0:
        out = []
        if isinstance(body[j - 1], ast.If) and leaves(body[j - 1], out) and (open_else(body[j - 1]) is not None or j == len(body)):
            all_leaves.extend(("leaf", br) for br in out)
            j -= 1
        else:
            break
    n_links = len(body) - j
    if n_links < 2 or not any(k == "leaf" for k, _ in all_leaves):
        return
    names = {leaf_kind(br)[1] for k, br in all_leaves if k == "leaf" and leaf_kind(br)[0] == "bound"}
    tailk = leaf_kind(body[-2:]) if all_leaves[0][0] == "tail2" else leaf_kind(body[-1:]) if all_leaves[0][0] == "tail1" else None
    if tailk is not None and tailk[0] == "bound":
        names.add(tailk[1])
    missing = [v for v in pinned_locals if v not in fn_locals(fn)]
    if len(names) == 1:
        r = names.pop()
    elif not names and len(missing) == 1:
        r = missing[0]
    else:
        return

    def bind(br):
        k = leaf_kind(br)
        if k[0] == "ret":
            st = k[1]
            br[:] = [ast.copy_location(ast.Assign(targets=[ast.Name(id=r, ctx=ast.Store())], value=st.value, lineno=st.lineno), st)]
        else:
            del br[1:]
    # build the chain back to front
    rest = None
    tail_stmts = body[j + (n_links - (2 if all_leaves[0][0] == "tail2" else 1 if all_leaves[0][0] == "tail1" else 0)):]
    links = body[j:len(body) - len(tail_stmts)] if tail_stmts else body[j:]
    if tail_stmts:
        bind(tail_stmts)
        rest = tail_stmts
    for st in reversed(links):
        out = []
        leaves(st, out)
        for br in out:
            bind(br)
        if rest is not None:
            oe = open_else(st)
            if oe is None:
                return   # (cannot happen: checked above)
            oe.orelse = rest
        rest = [st]
    body[j:] = rest + [ast.copy_location(ast.Return(value=ast.Name(id=r, ctx=ast.Load())), body[-1])]
    ast.fix_missing_locations(fn)


# ------------------------------------------------------------------------- N5 counted loops
def _has_continue(stmts):
    for st in stmts:
        for n in _walk_stmt(st):
            if isinstance(n, ast.Continue):
                # a continue inside a nested loop belongs to that loop
                p = n
                return True
    return False


def _continue_at_level(stmts):
    """does a `continue` in these statements target the enclosing loop (not a nested one)?"""
    for st in stmts:
        if isinstance(st, ast.Continue):
            return True
        if isinstance(st, (ast.For, ast.While, ast.AsyncFor, ast.FunctionDef, ast.AsyncFunctionDef, ast.ClassDef)):
            continue
        for field in ("body", "orelse", "finalbody"):
            sub = getattr(st, field, None)
            if isinstance(sub, list) and sub and isinstance(sub[0], ast.stmt) and _continue_at_level(sub):
                return True
        for h in getattr(st, "handlers", []) or []:
            if _continue_at_level(h.body):
                return True
    return False


def counted_loops(fn):
    """`for i in itertools.count(k): if C: break; BODY`  ->  `i = k; while not C: BODY; i += 1` (no continue in BODY)"""
    n = 0
    for owner, field, lst in _stmt_lists(fn):
        for i, st in enumerate(lst):
            if not (isinstance(st, ast.For) and not st.orelse and isinstance(st.target, ast.Name) and isinstance(st.iter, ast.Call)
                    and _callee(st.iter) in ("itertools.count", "count") and len(st.iter.args) <= 1 and not st.iter.keywords):
                continue
            start = st.iter.args[0] if st.iter.args else ast.Constant(value=0)
            if not isinstance(start, ast.Constant) or not st.body:
                continue
            first = st.body[0]
            if not (isinstance(first, ast.If) and not first.orelse and len(first.body) == 1 and isinstance(first.body[0], ast.Break)):
                continue
            rest = st.body[1:]
            var = st.target.id
            if _continue_at_level(rest) or any(var in _roots_written(x) for x in rest):
                continue
            test = first.test.operand if isinstance(first.test, ast.UnaryOp) and isinstance(first.test.op, ast.Not) \
                else ast.UnaryOp(op=ast.Not(), operand=first.test)
            init = ast.copy_location(ast.Assign(targets=[ast.Name(id=var, ctx=ast.Store())], value=start, lineno=st.lineno), st)
            inc = ast.copy_location(ast.AugAssign(target=ast.Name(id=var, ctx=ast.Store()), op=ast.Add(), value=ast.Constant(value=1)), st)
            loop = ast.copy_location(ast.While(test=test, body=rest + [inc], orelse=[]), st)
            for x in (init, inc, loop):
                ast.fix_missing_locations(x)
            lst[i:i + 1] = [init, loop]
            n += 1
            break
    return n


# ---------------------------------------------------------------------------------------- driver
def unchain(tree):
    """N23.  `yield from chain(a, b)` is `yield from a; yield from b`; a plain function whose body is
    `return chain.from_iterable(E)` is the generator `for c in E: yield from c` (for every consumer that iterates)."""
    names = set()
    for st in tree.body:
        if isinstance(st, ast.ImportFrom) and st.module == "itertools":
            names |= {a.asname or a.name for a in st.names if a.name == "chain"}
    def is_chain(f):
        return (isinstance(f, ast.Name) and f.id in names) or (isinstance(f, ast.Attribute) and f.attr == "chain" and isinstance(f.value, ast.Name)
                                                               and f.value.id == "itertools")
    count = 0
    for owner in ast.walk(tree):
        for fld in ("body", "orelse", "finalbody"):
            seq = getattr(owner, fld, None)
            if not isinstance(seq, list):
                continue
            out = []
            for st in seq:
                v = st.value if isinstance(st, ast.Expr) else None
                if isinstance(v, ast.YieldFrom) and isinstance(v.value, ast.Call) and is_chain(v.value.func) and not v.value.keywords \
                        and v.value.args and not any(isinstance(a, ast.Starred) for a in v.value.args):
                    for a in v.value.args:
                        out.append(ast.copy_location(ast.Expr(value=ast.YieldFrom(value=a)), st))
                    count += 1
                else:
                    out.append(st)
            seq[:] = out
    for fn in [n for n in ast.walk(tree) if isinstance(n, ast.FunctionDef)]:
        body = [s_ for s_ in fn.body if not (isinstance(s_, ast.Expr) and isinstance(s_.value, ast.Constant))]
        if len(body) == 1 and isinstance(body[0], ast.Return) and isinstance(body[0].value, ast.Call):
            c = body[0].value
            f = c.func
            if isinstance(f, ast.Attribute) and f.attr == "from_iterable" and is_chain(f.value) and len(c.args) == 1 and not c.keywords:
                var = "_chained"
                loop = ast.For(target=ast.Name(id=var, ctx=ast.Store()), iter=c.args[0],
                               body=[ast.Expr(value=ast.YieldFrom(value=ast.Name(id=var, ctx=ast.Load())))], orelse=[])
                fn.body = [s_ for s_ in fn.body if s_ is not body[0]] + [ast.copy_location(loop, body[0])]
                count += 1
    if count:
        ast.fix_missing_locations(tree)
    return count


def expand_table_dispatch(tree):
    """N24.  A statement that calls through a literal dispatch table - `r = yield from {"a": A, "b": B}[k].m(...)`,
    `{"a": f, "b": g}[k](...)` - is the if-chain over the table's keys with the entry substituted (`else: raise KeyError(k)`),
    when the key expression is a plain name and the entries are names / attribute chains."""
    count = 0

    def entry_ok(v):
        while isinstance(v, ast.Attribute):
            v = v.value
        return isinstance(v, ast.Name)

    def find(st):
        hits = []
        for sub in ast.walk(st):
            if isinstance(sub, ast.Subscript) and isinstance(sub.ctx, ast.Load) and isinstance(sub.value, ast.Dict) and isinstance(sub.slice, ast.Name) \
                    and sub.value.keys and all(k is not None and (isinstance(k, ast.Constant) or _dotted(k)) for k in sub.value.keys) \
                    and all(entry_ok(v) or _literal(v) for v in sub.value.values) \
                    and len({ast.dump(k) for k in sub.value.keys}) == len(sub.value.keys):
                hits.append(sub)
        return hits
    for owner in ast.walk(tree):
        if not isinstance(owner, (ast.FunctionDef, ast.If, ast.For, ast.While, ast.With, ast.Try, ast.ExceptHandler)):
            continue
        for fld in ("body", "orelse", "finalbody"):
            seq = getattr(owner, fld, None)
            if not isinstance(seq, list):
                continue
            for i, st in enumerate(seq):
                if not isinstance(st, (ast.Assign, ast.Expr, ast.Return)):
                    continue
                hits = find(st)
                if len(hits) != 1:
                    continue
                sub = hits[0]
                key = sub.slice
                if sum(1 for n in ast.walk(st) if isinstance(n, ast.Name) and n.id == key.id and isinstance(n.ctx, ast.Store)):
                    continue
                chain_ = None
                for k, v in reversed(list(zip(sub.value.keys, sub.value.values))):
                    class _Sub(ast.NodeTransformer):
                        def visit_Subscript(self, node):
                            if node is target:
                                return copy.deepcopy(v)
                            return self.generic_visit(node)
                    clone = copy.deepcopy(st)
                    # locate the clone's subscript by position in walk order
                    idx = [n is sub for n in ast.walk(st)].index(True)
                    target = list(ast.walk(clone))[idx]
                    clone = _Sub().visit(clone)
                    test = ast.Compare(left=ast.Name(id=key.id, ctx=ast.Load()), ops=[ast.Eq()], comparators=[copy.deepcopy(k)])
                    orelse = [chain_] if chain_ is not None else [ast.Raise(exc=ast.Call(func=ast.Name(id="KeyError", ctx=ast.Load()),
                                                                                      args=[ast.Name(id=key.id, ctx=ast.Load())], keywords=[]), cause=None)]
                    chain_ = ast.If(test=test, body=[clone], orelse=orelse)
                seq[i] = ast.copy_location(chain_, st)
                count += 1
    if count:
        ast.fix_missing_locations(tree)
    return count


def merge_guards(fn):
    """N29.  `if A: S` directly followed by `if B: S` with the same terminating body S (a raise / return / continue / break,
    no else) and effect-free tests is `if A or B: S`.  A bare-name operand (a mode flag) is put first, as the decode core
    spells such tests."""
    n = 0
    for owner, field, lst in _stmt_lists(fn):
        i = 0
        while i + 1 < len(lst):
            a, b = lst[i], lst[i + 1]
            if isinstance(a, ast.If) and isinstance(b, ast.If) and not a.orelse and not b.orelse and a.body and \
                    isinstance(a.body[-1], (ast.Raise, ast.Return, ast.Continue, ast.Break)) and len(a.body) == 1 and \
                    ast.dump(ast.Module(body=a.body, type_ignores=[])) == ast.dump(ast.Module(body=b.body, type_ignores=[])) and \
                    is_pure(a.test) and is_pure(b.test):
                ops = [a.test, b.test]
                flat = []
                for t in ops:
                    flat.extend(t.values if isinstance(t, ast.BoolOp) and isinstance(t.op, ast.Or) else [t])
                flat.sort(key=lambda t: 0 if isinstance(t, ast.Name) else 1)
                a.test = ast.copy_location(ast.BoolOp(op=ast.Or(), values=flat), a.test)
                del lst[i + 1]
                n += 1
                continue
            i += 1
    if n:
        ast.fix_missing_locations(fn)
    return n


class _SpreadKeywords(ast.NodeTransformer):
    """N27.  `f(a, **{"k": v, "l": w})` is `f(a, k=v, l=w)` (a dict display with string-literal keys that are identifiers)."""
    count = 0

    def visit_Call(self, node):
        self.generic_visit(node)
        if any(k.arg is None and isinstance(k.value, ast.Dict) for k in node.keywords):
            kws, given = [], {k.arg for k in node.keywords if k.arg}
            for k in node.keywords:
                if k.arg is None and isinstance(k.value, ast.Dict) and k.value.keys and all(
                        isinstance(x, ast.Constant) and isinstance(x.value, str) and x.value.isidentifier() and x.value not in given
                        for x in k.value.keys) and len({x.value for x in k.value.keys}) == len(k.value.keys):
                    kws.extend(ast.keyword(arg=x.value, value=v) for x, v in zip(k.value.keys, k.value.values))
                    _SpreadKeywords.count += 1
                else:
                    kws.append(k)
            node.keywords = kws
        return node


def _dotted(x):
    while isinstance(x, ast.Attribute):
        x = x.value
    return isinstance(x, ast.Name)


def expand_dict_get(fn):
    """N26.  For a local that is bound exactly once, to a dict display / dict comprehension / dict(...) call, `d.get(k)` is
    `d[k] if k in d else None` and `d.get(k, x)` is `d[k] if k in d else x` (k an effect-free expression)."""
    binds = {}
    for a in _walk_fn(fn):
        if isinstance(a, (ast.Assign, ast.AugAssign, ast.AnnAssign, ast.For, ast.With, ast.NamedExpr)):
            tg = a.targets if isinstance(a, ast.Assign) else [a.target] if isinstance(a, (ast.AugAssign, ast.AnnAssign, ast.For, ast.NamedExpr)) else \
                [it.optional_vars for it in a.items if it.optional_vars is not None]
            for t in tg:
                for n in ast.walk(t):
                    if isinstance(n, ast.Name) and isinstance(n.ctx, ast.Store):
                        binds.setdefault(n.id, []).append(a)
    dicts = {v for v, bs in binds.items() if len(bs) == 1 and isinstance(bs[0], ast.Assign) and len(bs[0].targets) == 1
             and isinstance(bs[0].targets[0], ast.Name) and (isinstance(bs[0].value, (ast.Dict, ast.DictComp))
                                                              or (isinstance(bs[0].value, ast.Call) and _callee(bs[0].value) == "dict"))}
    dicts -= {a.arg for a in ast.walk(fn.args) if isinstance(a, ast.arg)}
    count = 0

    class G(ast.NodeTransformer):
        def visit_FunctionDef(self, node):
            return node if node is not fn else self.generic_visit(node)

        def visit_Call(self, node):
            nonlocal count
            self.generic_visit(node)
            f = node.func
            if isinstance(f, ast.Attribute) and f.attr == "get" and isinstance(f.value, ast.Dict) and f.value.keys and 1 <= len(node.args) <= 2 \
                    and not node.keywords and is_pure(node.args[0]) and all(k is not None and (isinstance(k, ast.Constant) or _dotted(k)) for k in f.value.keys) \
                    and all(is_pure(v) for v in f.value.values) and len({ast.dump(k) for k in f.value.keys}) == len(f.value.keys):
                # a lookup in a table display: a case distinction on the key, the default for any other key
                out = node.args[1] if len(node.args) == 2 else ast.Constant(value=None)
                for k, v in reversed(list(zip(f.value.keys, f.value.values))):
                    out = ast.IfExp(test=ast.Compare(left=copy.deepcopy(node.args[0]), ops=[ast.Eq()], comparators=[k]), body=v, orelse=out)
                count += 1
                return ast.copy_location(out, node)
            if isinstance(f, ast.Attribute) and f.attr == "get" and isinstance(f.value, ast.Name) and f.value.id in dicts \
                    and 1 <= len(node.args) <= 2 and not node.keywords and is_pure(node.args[0]):
                k = node.args[0]
                d = node.args[1] if len(node.args) == 2 else ast.Constant(value=None)
                count += 1
                return ast.copy_location(ast.IfExp(
                    test=ast.Compare(left=copy.deepcopy(k), ops=[ast.In()], comparators=[ast.Name(id=f.value.id, ctx=ast.Load())]),
                    body=ast.Subscript(value=ast.Name(id=f.value.id, ctx=ast.Load()), slice=copy.deepcopy(k), ctx=ast.Load()),
                    orelse=d), node)
            return node
    G().visit(fn)
    if count:
        ast.fix_missing_locations(fn)
    return count


def fuse_generator_loops(tree, shape):
    """N25.  `for T in gen(args): BODY` over a new generator function of the module is the generator's body with every
    `yield X` replaced by `T = X; BODY` (consumer fused into producer), when the generator only yields at statement level,
    never returns early, BODY does not `break`, and - if BODY uses `continue` - every yield is the last statement of its loop."""
    pinned = set(shape["functions"])
    gens = {}
    for st in tree.body:
        if isinstance(st, ast.FunctionDef) and st.name not in pinned:
            h = Helper(st)
            if h.usable() and h.is_gen:
                gens[st.name] = h
    if not gens:
        return []
    fused = []

    def top_level(body, kinds):
        """statements of the given kinds that belong to this loop level (not to a nested loop / function)"""
        out = []
        def rec(stmts):
            for s_ in stmts:
                if isinstance(s_, kinds):
                    out.append(s_)
                if isinstance(s_, (ast.For, ast.While, ast.FunctionDef, ast.AsyncFunctionDef, ast.ClassDef)):
                    continue
                for f_ in ("body", "orelse", "finalbody"):
                    rec(getattr(s_, f_, []) or [])
                for hd in getattr(s_, "handlers", []) or []:
                    rec(hd.body)
        rec(body)
        return out

    def yield_sites(stmts, in_loop_tail, acc):
        """-> False if the generator has a yield that is not a plain statement; acc gets (list, index, tail?)"""
        for i, s_ in enumerate(stmts):
            if isinstance(s_, ast.Expr) and isinstance(s_.value, ast.Yield):
                if s_.value.value is None:
                    return False
                acc.append((stmts, i, in_loop_tail and i == len(stmts) - 1))
                continue
            if any(isinstance(n, (ast.Yield, ast.YieldFrom)) for n in ast.walk(s_)) and not isinstance(s_, (ast.For, ast.While, ast.If, ast.With, ast.Try)):
                return False
            if isinstance(s_, (ast.For, ast.While)):
                if any(isinstance(n, (ast.Yield, ast.YieldFrom)) for n in ast.walk(s_.iter if isinstance(s_, ast.For) else s_.test)):
                    return False
                if not yield_sites(s_.body, True, acc) or not yield_sites(s_.orelse, False, acc):
                    return False
            elif isinstance(s_, ast.If):
                if not yield_sites(s_.body, False, acc) or not yield_sites(s_.orelse, False, acc):
                    return False
            elif isinstance(s_, (ast.With, ast.Try)):
                for f_ in ("body", "orelse", "finalbody"):
                    if not yield_sites(getattr(s_, f_, []) or [], False, acc):
                        return False
                for hd in getattr(s_, "handlers", []) or []:
                    if not yield_sites(hd.body, False, acc):
                        return False
        return True
    for q, fn in functions_of(tree).items():
        taken = fn_locals(fn) | {n.id for n in _walk_fn(fn) if isinstance(n, ast.Name)}
        for owner, field, lst in _stmt_lists(fn):
            i = 0
            while i < len(lst):
                st = lst[i]
                i += 1
                if not (isinstance(st, ast.For) and not st.orelse and isinstance(st.iter, ast.Call) and isinstance(st.iter.func, ast.Name)
                        and st.iter.func.id in gens):
                    continue
                h = gens[st.iter.func.id]
                if h.fn is fn or any(isinstance(n, ast.Return) for n in _walk_fn(h.fn)):
                    continue
                if top_level(st.body, (ast.Break,)) or any(isinstance(n, (ast.FunctionDef, ast.Lambda)) for b_ in st.body for n in ast.walk(b_)):
                    continue
                # when the generator yields exactly the names the loop unpacks into, they are the same variables
                tnames = [n.id for n in ast.walk(st.target) if isinstance(n, ast.Name)]
                yvals = [y.value.value for y in _walk_fn(h.fn) if isinstance(y, ast.Expr) and isinstance(y.value, ast.Yield) and y.value.value is not None]
                same = bool(yvals) and all(ast.dump(v).replace("Load()", "X").replace("Store()", "X") == ast.dump(st.target).replace("Load()", "X").replace("Store()", "X") for v in yvals) and not (set(tnames) & set(h.params))
                try:
                    pro, body = h.instantiate(st.iter, False, (taken - set(tnames)) if same else taken)
                except NotInlineable:
                    continue
                acc = []
                if not yield_sites(body, False, acc) or not acc:
                    continue
                if top_level(st.body, (ast.Continue,)) and not all(tail for _l, _i, tail in acc):
                    continue
                for l_, k_, _tail in sorted(acc, key=lambda t: -t[1]):
                    y = l_[k_]
                    bind = ast.copy_location(ast.Assign(targets=[copy.deepcopy(st.target)], value=y.value.value, lineno=y.lineno), y)
                    for n in ast.walk(bind.targets[0]):
                        if isinstance(n, ast.Name):
                            n.ctx = ast.Store()
                    l_[k_:k_ + 1] = ([] if same else [bind]) + copy.deepcopy(st.body)
                lst[i - 1:i] = pro + body
                fused.append(h.name)
                i = i - 1 + len(pro) + len(body)
    if fused:
        ast.fix_missing_locations(tree)
        # generators that are no longer referenced are dropped
        for name, h in gens.items():
            if name in fused and not any(isinstance(n, ast.Name) and n.id == name and isinstance(n.ctx, ast.Load) for n in ast.walk(tree)):
                tree.body.remove(h.fn)
    return sorted(set(fused))


def hoist_walrus(tree):
    """N30: `if (x := E) is not None and ...:` -> `x = E` in front of the statement, when the assignment expression is the
    first thing the statement evaluates (leftmost operand all the way down), so that the binding happens exactly once and
    before anything else, as in the rewritten form.  Loop tests are left alone (they are evaluated once per iteration)."""
    count = 0

    def first_slot(e):
        # (parent, field, index) of the first-evaluated leaf expression of e
        parent, field, idx = None, None, None
        cur = e
        while True:
            if isinstance(cur, ast.NamedExpr):
                return parent, field, idx, cur
            if isinstance(cur, ast.BoolOp):
                parent, field, idx, cur = cur, "values", 0, cur.values[0]
            elif isinstance(cur, ast.Compare):
                parent, field, idx, cur = cur, "left", None, cur.left
            elif isinstance(cur, ast.UnaryOp):
                parent, field, idx, cur = cur, "operand", None, cur.operand
            elif isinstance(cur, ast.BinOp):
                parent, field, idx, cur = cur, "left", None, cur.left
            else:
                return None

    def visit(stmts):
        nonlocal count
        i = 0
        while i < len(stmts):
            st = stmts[i]
            holder = "test" if isinstance(st, ast.If) else "value" if isinstance(st, (ast.Assign, ast.Return, ast.Expr)) and \
                getattr(st, "value", None) is not None else None
            if holder:
                e = getattr(st, holder)
                slot = first_slot(e)
                if slot and isinstance(slot[3].target, ast.Name):
                    parent, field, idx, ne = slot
                    name = ast.copy_location(ast.Name(ne.target.id, ast.Load()), ne)
                    if parent is None:
                        setattr(st, holder, name)
                    elif idx is None:
                        setattr(parent, field, name)
                    else:
                        getattr(parent, field)[idx] = name
                    stmts.insert(i, ast.copy_location(ast.Assign([ast.Name(ne.target.id, ast.Store())], ne.value), st))
                    count += 1
                    continue
            for f in ("body", "orelse", "finalbody"):
                sub = getattr(st, f, None)
                if isinstance(sub, list) and sub and isinstance(sub[0], ast.stmt):
                    visit(sub)
            for h in getattr(st, "handlers", []) or []:
                visit(h.body)
            i += 1

    for fn in functions_of(tree).values():
        visit(fn.body)
    if count:
        ast.fix_missing_locations(tree)
    return count


def boolean_tests(fn):
    """N35: a test that holds a conditional expression with a constant truth value in one arm - what an inlined predicate
    helper with an early `return False` / `return True` leaves behind - is rewritten with and / or / not and negations are
    pushed inwards (De Morgan; `not a == b` becomes `a != b`, likewise is / in), so that `not (False if strict else e.c == own)`
    reads `strict or e.c != own` again.  Only `if` / `while` tests are touched (truthiness is all that is observed there), and
    only those that contain such a conditional expression."""
    def is_bool_const(e):
        return isinstance(e, ast.Constant) and isinstance(e.value, bool)

    def has_target(e):
        return any(isinstance(n, ast.IfExp) and (is_bool_const(n.body) or is_bool_const(n.orelse)) for n in ast.walk(e))

    INV = {ast.Eq: ast.NotEq, ast.NotEq: ast.Eq, ast.Is: ast.IsNot, ast.IsNot: ast.Is, ast.In: ast.NotIn, ast.NotIn: ast.In}

    def pos(e):
        """e in a truth-value context"""
        if isinstance(e, ast.IfExp) and (is_bool_const(e.body) or is_bool_const(e.orelse)):
            a, b, c = e.test, e.body, e.orelse
            if is_bool_const(b) and is_bool_const(c):
                return pos(a) if b.value and not c.value else neg(a) if c.value and not b.value else ast.copy_location(ast.Constant(value=b.value), e)
            if is_bool_const(b):
                # (True if a else c) = a or c ; (False if a else c) = not a and c
                return junction(ast.Or(), [pos(a), pos(c)], e) if b.value else junction(ast.And(), [neg(a), pos(c)], e)
            # (b if a else True) = not a or b ; (b if a else False) = a and b
            return junction(ast.Or(), [neg(a), pos(b)], e) if c.value else junction(ast.And(), [pos(a), pos(b)], e)
        if isinstance(e, ast.UnaryOp) and isinstance(e.op, ast.Not):
            return neg(e.operand)
        if isinstance(e, ast.BoolOp):
            return junction(e.op, [pos(v) for v in e.values], e)
        return e

    def neg(e):
        if isinstance(e, ast.UnaryOp) and isinstance(e.op, ast.Not):
            return pos(e.operand)
        if isinstance(e, ast.BoolOp):
            return junction(ast.Or() if isinstance(e.op, ast.And) else ast.And(), [neg(v) for v in e.values], e)
        if isinstance(e, ast.Compare) and len(e.ops) == 1 and type(e.ops[0]) in INV:
            return ast.copy_location(ast.Compare(left=e.left, ops=[INV[type(e.ops[0])]()], comparators=e.comparators), e)
        if isinstance(e, ast.IfExp) and (is_bool_const(e.body) or is_bool_const(e.orelse)):
            return neg(pos(e))
        if is_bool_const(e):
            return ast.copy_location(ast.Constant(value=not e.value), e)
        return ast.copy_location(ast.UnaryOp(op=ast.Not(), operand=e), e)

    def junction(op, vals, at):
        flat = []
        for v in vals:
            if isinstance(v, ast.BoolOp) and type(v.op) is type(op):
                flat.extend(v.values)
            else:
                flat.append(v)
        return ast.copy_location(ast.BoolOp(op=op, values=flat), at)
    k = 0
    for n in _walk_fn(fn):
        if isinstance(n, (ast.If, ast.While)) and has_target(n.test):
            n.test = pos(n.test)
            k += 1
    if k:
        ast.fix_missing_locations(fn)
    return k


def normalise(tree, modname, shape_all=None, keep=frozenset()):
    """normalise `tree` in place against the pinned shape of module `modname`; returns a log dict"""
    shape_all = shape_all if shape_all is not None else load_shape()
    log = {"inlined": [], "substituted": {}, "constants": [], "conditionals": {}, "counted_loops": {}}
    if not shape_all or modname not in shape_all:
        return log
    shape = shape_all[modname]
    log["constants"] = inline_constants(tree, shape)
    hw = hoist_walrus(tree)
    if hw:
        log["walrus"] = hw
    uc = unchain(tree)
    if uc:
        log["unchained"] = uc
    td = expand_table_dispatch(tree)
    if td:
        log["table_dispatch"] = td
    fac = instantiate_factories(tree, shape)
    if fac:
        log["factories"] = fac
    opnames = {(a.asname or a.name) for st in tree.body if isinstance(st, ast.Import) for a in st.names if a.name == "operator"}
    if opnames:
        oc = _OperatorCalls(opnames)
        oc.visit(tree)
        if oc.count:
            log["operator_calls"] = oc.count
            ast.fix_missing_locations(tree)
    itc = dissolve_iterator_classes(tree, shape)
    if itc:
        log["iterator_classes"] = itc
    rec = scalar_replace_records(tree, shape)
    if rec:
        log["records"] = rec
    fz = fuse_generator_loops(tree, shape)
    if fz:
        log["fused"] = fz
    log["inlined"] = sorted(set(inline_helpers(tree, shape, keep)) | set(fz))
    if log["constants"] or log["inlined"]:
        _Recompile().visit(tree)
        ast.fix_missing_locations(tree)
    log["counted_loops"] = {}
    for q, fn in functions_of(tree).items():
        pinned = shape["functions"].get(q)
        if pinned is None:
            continue
        if boolean_tests(fn):
            log.setdefault("boolean_tests", []).append(q)
        if pinned.get("ifexp", 0) == 0 and expand_dict_get(fn):
            log.setdefault("dict_get", []).append(q)
        if unroll_singleton_loops(fn):
            log.setdefault("unrolled", []).append(q)
        if unfold_genexp_loops(fn):
            log.setdefault("genexp_loops", []).append(q)
        if (fn_locals(fn) - set(pinned["locals"])) and split_tuple_assignments(fn, fn_locals(fn) - set(pinned["locals"])):
            log.setdefault("tuple_splits", []).append(q)
        new_locals = fn_locals(fn) - set(pinned["locals"])
        if new_locals and thread_new_locals(fn, new_locals, pinned["locals"]):
            log.setdefault("threaded", []).append(q)
            new_locals = fn_locals(fn) - set(pinned["locals"])
        if new_locals:
            kd = expand_keyword_dicts(fn, new_locals)
            k = forward_substitute(fn, new_locals)
            if k or kd:
                log["substituted"][q] = k + kd
        k = counted_loops(fn)
        while k and counted_loops(fn):
            pass
        if k:
            log["counted_loops"][q] = k
            forward_substitute(fn, fn_locals(fn) - set(pinned["locals"]))
        if pinned.get("ifexp", 0) == 0 and any(isinstance(n, ast.IfExp) for n in _walk_fn(fn)):
            if simplify_conditional_values(fn):
                log.setdefault("simplified", {})[q] = True
                forward_substitute(fn, fn_locals(fn) - set(pinned["locals"]))
        if pinned.get("ifexp", 0) == 0:
            k = total = split_conditionals(fn)
            while k:
                k = split_conditionals(fn)
                total += k
            if total:
                log["conditionals"][q] = total
                # a tag chosen by a conditional value is an if-chain over assignments now: thread it (N31) once more
                nl = fn_locals(fn) - set(pinned["locals"])
                if nl and thread_new_locals(fn, nl, pinned["locals"]):
                    log.setdefault("threaded", []).append(q)
                    nl = fn_locals(fn) - set(pinned["locals"])
                    if nl:
                        expand_keyword_dicts(fn, nl)
                        forward_substitute(fn, nl)
    for q, fn in functions_of(tree).items():
        if shape["functions"].get(q) is not None and merge_guards(fn):
            log.setdefault("merged_guards", []).append(q)
    sk = _SpreadKeywords()
    _SpreadKeywords.count = 0
    sk.visit(tree)
    if _SpreadKeywords.count:
        log["spread_keywords"] = _SpreadKeywords.count
        ast.fix_missing_locations(tree)
    # a second round: substitutions above may have turned a call into an inlineable one (`f(*table.values())` with the table
    # a local that has been substituted by now)
    if log["substituted"] or log["inlined"]:
        again = sorted(set(inline_helpers(tree, shape, keep)))
        if again:
            log["inlined"] = sorted(set(log["inlined"]) | set(again))
            _Recompile().visit(tree)
            ast.fix_missing_locations(tree)
            for q, fn in functions_of(tree).items():
                pinned = shape["functions"].get(q)
                if pinned is None:
                    continue
                new_locals = fn_locals(fn) - set(pinned["locals"])
                if new_locals:
                    forward_substitute(fn, new_locals)
                if pinned.get("ifexp", 0) == 0:
                    while split_conditionals(fn):
                        pass
    k = name_reraises(tree)
    if k:
        log["reraises"] = k
    fc = _FormatCalls()
    fc.visit(tree)
    if fc.count:
        log["format_calls"] = fc.count
    k = linear_canon(tree)
    if k:
        log["linear"] = k
        ast.fix_missing_locations(tree)
    return log
