"""Shared, lazily built analysis context (one per Project)."""
from __future__ import annotations

from .layout import Layout
from .specmodel import SpecModel

_cache = {}


def model(project) -> SpecModel:
    k = ("model", id(project))
    if k not in _cache:
        _cache[k] = SpecModel(project)
    return _cache[k]


def layout(project) -> Layout:
    k = ("layout", id(project))
    if k not in _cache:
        _cache[k] = Layout(model(project))
    return _cache[k]


def canonical(project):
    k = ("canon", id(project))
    if k not in _cache:
        _cache[k] = layout(project).canonical()
    return _cache[k]
