"""Per-function analysis view: CFG, reaching definitions, dominance, def-use resolution."""
from __future__ import annotations

import ast

from .cfg import CFG
from .flow import ReachingDefs, yields_in
from .project import AnalysisError, call_name, norm, order, walk_no_nested


class FnView:
    def __init__(self, mod, fn):
        self.mod, self.fn = mod, fn
        self.cfg = CFG(fn)
        self.rd = ReachingDefs(self.cfg)
        self._dom = None
        self.params = [a.arg for a in fn.args.args + fn.args.kwonlyargs]

    @property
    def dom(self):
        if self._dom is None:
            self._dom = self.cfg.dominators()
        return self._dom

    def node_of(self, ast_node):
        n = self.cfg.node_of(ast_node)
        if n is None:
            raise AnalysisError(f"no CFG node for `{norm(ast_node)[:60]}` in {self.fn.name}")
        return n

    def dominates(self, a_ast, b_ast):
        a, b = self.node_of(a_ast), self.node_of(b_ast)
        return a.id in self.dom[b.id]

    def calls(self, name=None, attr=None):
        out = []
        for c in walk_no_nested(self.fn):
            if isinstance(c, ast.Call):
                if name is not None and call_name(c) == name:
                    out.append(c)
                elif attr is not None and isinstance(c.func, ast.Attribute) and c.func.attr == attr:
                    out.append(c)
        return sorted(out, key=order)

    def yields(self):
        out = []
        for n in walk_no_nested(self.fn):
            if isinstance(n, (ast.Yield, ast.YieldFrom)):
                out.append(n)
        return sorted(out, key=order)

    def defs_at(self, at_ast, name):
        """definition records of `name` reaching the statement containing at_ast."""
        return self.rd.value_exprs(self.node_of(at_ast), name)

    def resolve(self, expr, at_ast, depth=6):
        """Follow single-definition locals: returns the defining expression (ast) or the expr itself."""
        while isinstance(expr, ast.Name) and depth > 0:
            if expr.id in self.params and all(r[0] == "param" for r in self.defs_at(at_ast, expr.id)):
                return expr
            recs = self.defs_at(at_ast, expr.id)
            if len(recs) == 1 and recs[0][0] == "expr":
                expr = recs[0][1]
                depth -= 1
                continue
            return expr
        return expr

    def resolve_all(self, expr, at_ast):
        """All definition records when expr is a Name with several reaching defs."""
        if isinstance(expr, ast.Name):
            return self.defs_at(at_ast, expr.id)
        return [("expr", expr)]

    def reachable_from(self, start_ast, include_exc=True):
        start = self.node_of(start_ast)
        seen, stack = set(), [s for _, s in start.succ]
        if include_exc:
            stack += self.cfg.handlers_of(start)
        while stack:
            n = stack.pop()
            if n.id in seen:
                continue
            seen.add(n.id)
            stack.extend(s for _, s in n.succ)
            if include_exc and n.kind in ("stmt", "test", "for"):
                stack.extend(self.cfg.handlers_of(n))
        return seen


def expand_expr(mod, fn, expr, at_stmt=None, depth=0):
    """All textual forms an expression can stand for: follows locals with a single definition in `fn`
    and `self.<prop>` where <prop> is a @property of the enclosing class (each return value)."""
    out = {norm(expr)}
    if depth > 4:
        return out
    if isinstance(expr, ast.Name):
        defs = [n for n in walk_no_nested(fn) if isinstance(n, ast.Assign) and len(n.targets) == 1
                and isinstance(n.targets[0], ast.Name) and n.targets[0].id == expr.id]
        if len(defs) == 1:
            out |= expand_expr(mod, fn, defs[0].value, at_stmt, depth + 1)
    if isinstance(expr, ast.Attribute) and isinstance(expr.value, ast.Name) and expr.value.id == "self":
        cls = fn
        while cls is not None and not isinstance(cls, ast.ClassDef):
            cls = getattr(cls, "_parent", None)
        if cls is not None:
            for m in cls.body:
                if isinstance(m, ast.FunctionDef) and m.name == expr.attr and any(norm(d) == "property" for d in m.decorator_list):
                    for r in [x for x in walk_no_nested(m) if isinstance(x, ast.Return) and x.value is not None]:
                        if not (isinstance(r.value, ast.Constant) and r.value.value is None):
                            out |= expand_expr(mod, m, r.value, None, depth + 1)
    return out


def linear_form(mod, fn, expr, atoms, depth=0):
    """Linear combination (dict atom-text -> integer coefficient) denoted by an integer expression built from
    +, -, unary minus, integer constants, the given atoms, single-definition locals and @property attributes.
    Returns None when the expression is not of that shape."""
    if depth > 6:
        return None
    txt = norm(expr)
    if txt in atoms:
        return {txt: 1}
    if isinstance(expr, ast.Constant) and isinstance(expr.value, int) and not isinstance(expr.value, bool):
        return {"1": expr.value} if expr.value else {}
    if isinstance(expr, ast.UnaryOp) and isinstance(expr.op, ast.USub):
        f = linear_form(mod, fn, expr.operand, atoms, depth + 1)
        return None if f is None else {k: -v for k, v in f.items()}
    if isinstance(expr, ast.BinOp) and isinstance(expr.op, (ast.Add, ast.Sub)):
        a = linear_form(mod, fn, expr.left, atoms, depth + 1)
        b = linear_form(mod, fn, expr.right, atoms, depth + 1)
        if a is None or b is None:
            return None
        out = dict(a)
        sign = 1 if isinstance(expr.op, ast.Add) else -1
        for k, v in b.items():
            out[k] = out.get(k, 0) + sign * v
        return {k: v for k, v in out.items() if v}
    if isinstance(expr, ast.Name):
        defs = [n for n in walk_no_nested(fn) if isinstance(n, ast.Assign) and len(n.targets) == 1
                and isinstance(n.targets[0], ast.Name) and n.targets[0].id == expr.id]
        if len(defs) == 1:
            return linear_form(mod, fn, defs[0].value, atoms, depth + 1)
        return None
    if isinstance(expr, ast.Call) and isinstance(expr.func, ast.Attribute) and isinstance(expr.func.value, ast.Name) \
            and expr.func.value.id == "self" and not expr.keywords:
        # a small helper method: single `return <expr>`; substitute the arguments for its parameters
        m = method_of(fn, expr.func.attr)
        if m is not None:
            body = [x for x in m.body if not (isinstance(x, ast.Expr) and isinstance(x.value, ast.Constant))]
            params = [a.arg for a in m.args.args][1:]
            if len(body) == 1 and isinstance(body[0], ast.Return) and body[0].value is not None and len(params) == len(expr.args):
                sub = substitute(body[0].value, dict(zip(params, expr.args)))
                return linear_form(mod, fn, sub, atoms, depth + 1)
        return None
    if isinstance(expr, ast.Attribute) and isinstance(expr.value, ast.Name) and expr.value.id == "self":
        cls = fn
        while cls is not None and not isinstance(cls, ast.ClassDef):
            cls = getattr(cls, "_parent", None)
        if cls is not None:
            for m in cls.body:
                if isinstance(m, ast.FunctionDef) and m.name == expr.attr and any(norm(d) == "property" for d in m.decorator_list):
                    forms = []
                    for r in [x for x in walk_no_nested(m) if isinstance(x, ast.Return) and x.value is not None]:
                        if isinstance(r.value, ast.Constant) and r.value.value is None:
                            continue
                        forms.append(linear_form(mod, m, r.value, atoms, depth + 1))
                    if forms and all(f is not None and f == forms[0] for f in forms):
                        return forms[0]
        return None
    return None


def method_of(fn, name):
    cls = fn
    while cls is not None and not isinstance(cls, ast.ClassDef):
        cls = getattr(cls, "_parent", None)
    if cls is None:
        return None
    for m in cls.body:
        if isinstance(m, ast.FunctionDef) and m.name == name:
            return m
    return None


def substitute(expr, mapping):
    import copy

    class Sub(ast.NodeTransformer):
        def visit_Name(self, n):
            if n.id in mapping and isinstance(n.ctx, ast.Load):
                return copy.deepcopy(mapping[n.id])
            return n
    out = Sub().visit(copy.deepcopy(expr))
    ast.fix_missing_locations(out)
    return out


def inlined_tests(fn):
    """Compare nodes that decide the branches of `fn`: those written in fn itself and those inside single-return helper
    methods (`self._helper(args)`) used in its tests, with the arguments substituted."""
    out = []
    for t in walk_no_nested(fn):
        if isinstance(t, ast.Compare):
            out.append(t)
        if isinstance(t, ast.Call) and isinstance(t.func, ast.Attribute) and isinstance(t.func.value, ast.Name) and t.func.value.id == "self":
            m = method_of(fn, t.func.attr)
            if m is None:
                continue
            body = [x for x in m.body if not (isinstance(x, ast.Expr) and isinstance(x.value, ast.Constant))]
            params = [a.arg for a in m.args.args][1:]
            if len(body) == 1 and isinstance(body[0], ast.Return) and body[0].value is not None and len(params) == len(t.args):
                sub = substitute(body[0].value, dict(zip(params, t.args)))
                for c in ast.walk(sub):
                    if isinstance(c, ast.Compare):
                        out.append(c)
    return out
