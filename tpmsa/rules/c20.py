"""C20 - the layout tables are coherent and match the pinned TPM 2.0 layout.

Entirely a statement over finite configurations; decided exhaustively from L (E1).
Rules: T1 area tables, T2 handle/param areas, T3 counted lists, T4 unions/selectors,
T5 list arms, T6 pinned snapshot, G model guards (decorator semantics the tables rely on).
"""
from __future__ import annotations

import ast

from .. import ctx, snapshot
from ..layout import AREA_TABLES, merge_intervals
from ..project import AnalysisError
from ..specmodel import ANY, ClassV, DictV, EnumMember, ListT
from . import guards


def squash(s):
    return s.replace("_", "").lower()


def check(run, project):
    L = ctx.layout(project)
    run.explanation = (
        "E1 reconstructs every layout table from source (no import); coherence rules T1-T5 are "
        "evaluated on all 248 structure types, Command/Response and the 4x117 area tables; T6 "
        "compares the canonical layout with pinned/layout.json facet by facet."
    )
    run.trusted_base = ["CPython ast", "E1 model of tpm_dataclass/tpm_enum/tpm_bitfield (re-validated by rules G*)"]
    guards.check(run, project, L)
    t1(run, L)
    t2(run, L)
    t3(run, L)
    t4(run, L)
    t5(run, L)
    t6(run, project, L, facets=None)
    t7(run, project, L)
    # T8 (= C01-W7): the selector -> member mapping the decoder actually USES is the pinned one (the last member listed for a
    # selector value wins, None is the wildcard) - however the union walker obtains it: an inverted table, a search, a
    # cached selection object
    from ..report import RuleView
    from ..roles import MarshalRoles
    from . import c01
    c01.w7(RuleView(run, "W7", "T8"), MarshalRoles(project), L)
    run.floor("T1", 4 * 100, "table entries")
    run.floor("T3", 20, "list fields")
    run.floor("T4", 20, "union fields")
    run.floor("T6", 700, "pinned types")
    run.cover(types=len(L.all), structure_types=len(L.struct_types), area_types=len(L.area_types),
              table_entries=sum(len(t.items) for t in L.tables.values()))


def t7(run, project, L, rule="T7"):
    """the table of all types holds one type per name: the package collects every class object visible in a layout module
    whose name is upper case, by object - a second class object of the same name (a filtered copy of an enum kept in a
    module-level variable) becomes a second entry, and lookups by name (`--type`, the type search) then pick either"""
    mod = project.modules.get("tpmstream.spec.structures")
    for name, modname, bound in L.duplicate_types:
        m = project.modules.get(modname)
        node = next((s_ for s_ in (m.tree.body if m else []) if isinstance(s_, ast.Assign) and any(
            isinstance(t_, ast.Name) and t_.id == bound for t_ in s_.targets)), None)
        run.ob(rule, False, f"{name} is one type", f"module {modname.rsplit('.', 1)[-1]} binds a second class object named {name} to "
               f"`{bound}` at module level: the package's table of all types collects it as another type called {name} (types are "
               "collected by object from every layout module), so name-based lookups and the type search see two types of one name",
               module=m or mod, node=node or (m.tree if m else None), func="<module>", construct=f"duplicate type {name} ({bound})")
    run.ob(rule, True, f"{len(L.struct_types)} structure types, one per name ({len(L.duplicate_types)} duplicates)")


# ------------------------------------------------------------------------------ T1
def t1(run, L):
    cc_members = L.TPM_CC.members
    cc_by_value = {}
    for n, m in cc_members.items():
        if isinstance(m, EnumMember):
            cc_by_value.setdefault(m.value, []).append(n)
    for tn, modname, prefix, owner, field in AREA_TABLES:
        dv = L.tables[tn]
        mod = dv.module
        seen_vals, seen_cls = {}, {}
        for k, v, knode in dv.items:
            site = f"{tn}[{k!r}]"
            okk = isinstance(k, EnumMember) and k.cls is L.TPM_CC
            run.ob("T1", okk, site + " key", "table key is not a TPM_CC member", module=mod, node=knode,
                   func=tn, construct=f"{tn} key {k!r}")
            if not okk:
                continue
            dup = k.value in seen_vals
            run.ob("T1", not dup, site + " unique",
                   f"duplicate key {k!r} (value {k.value:#x}) - the later entry silently shadows {seen_vals.get(k.value)}",
                   module=mod, node=knode, func=tn, construct=f"{tn} duplicate key {k.name}")
            seen_vals[k.value] = k.name
            isc = isinstance(v, ClassV)
            run.ob("T1", isc, site + " value", f"value is not a class: {v!r}", module=mod, node=knode,
                   func=tn, construct=f"{tn}[{k.name}] value")
            if not isc:
                continue
            run.ob("T1", id(v) not in seen_cls, site + " distinct",
                   f"class {v.name} is also the layout of {seen_cls.get(id(v))}", module=mod, node=knode,
                   func=tn, construct=f"{tn}[{k.name}] shares a class")
            seen_cls[id(v)] = k.name
            run.ob("T1", v.module.name == modname, site + " module",
                   f"{v.name} is defined in {v.module.name}, not in {modname}", module=mod, node=knode,
                   func=tn, construct=f"{tn}[{k.name}] foreign class")
            named = v.name.startswith(prefix) and squash(v.name[len(prefix):]) == squash(k.name)
            run.ob("T1", named, site + " name",
                   f"layout class {v.name} is not named after {prefix}<{k.name}>", module=v.module, node=v.node,
                   func=tn, construct=f"{tn}[{k.name}] -> {v.name}")
        missing = [n for val, ns in cc_by_value.items() if val not in seen_vals for n in ns]
        run.ob("T1", not missing, f"{tn} covers TPM_CC", f"no entry for TPM_CC members {missing}",
               module=mod, node=dv.node, func=tn, construct=f"{tn} missing keys")
        # slot in _type_maps
        oc = L.all[owner]
        tm = L.dict_attr(oc, "_type_maps")
        slot = tm.get(field) if tm is not None else None
        run.ob("T1", slot is dv, f"{owner}._type_maps[{field!r}] is {tn}",
               f"{owner}._type_maps[{field!r}] does not refer to {tn}", module=oc.module, node=oc.node,
               func=owner, construct=f"{owner}._type_maps[{field}]")
    # selectors of Command
    sel = L.dict_attr(L.Command, "_selectors")
    names = [n for n, _ in L.fields(L.Command)]
    for f in ("handles", "parameters"):
        s = sel.get(f) if sel is not None else None
        ok = s == "commandCode" and "commandCode" in names and f in names and names.index("commandCode") < names.index(f)
        run.ob("T1", ok, f"Command._selectors[{f}]", f"selector of Command.{f} is {s!r}; must be the earlier field commandCode",
               module=L.Command.module, node=L.Command.node, func="Command", construct=f"Command._selectors[{f}]")
    for owner in ("Command", "Response"):
        c = L.all[owner]
        for f in ("handles", "parameters"):
            t = dict(L.fields(c)).get(f, "missing")
            run.ob("T1", t is ANY, f"{owner}.{f} is a table-resolved area", f"{owner}.{f} has type {t!r}, expected Any",
                   module=c.module, node=c.node, func=owner, construct=f"{owner}.{f} type")


# ------------------------------------------------------------------------------ T2
def t2(run, L):
    handle_base = L.m.get("tpmstream.spec.structures.handles", "TPM_HANDLE")
    for tn, modname, prefix, owner, field in AREA_TABLES:
        for k, v, knode in L.tables[tn].items:
            if not isinstance(v, ClassV) or not L.is_dataclass(v):
                continue
            kn = getattr(k, "name", repr(k))
            if field == "handles":
                fl = L.fields(v)
                run.ob("T2", len(fl) <= 3, f"{v.name} <=3 handles", f"{len(fl)} handle fields", module=v.module,
                       node=v.node, func=v.name, construct=f"{v.name} handle count")
                for fname, ft in fl:
                    ok = (isinstance(ft, ClassV) and L.is_primitive(ft) and L.int_size(ft) == 4
                          and not L.signed(ft) and ft.is_subclass_of(handle_base))
                    run.ob("T2", ok, f"{v.name}.{fname} is a 4-byte handle",
                           f"field type {L.key(ft) if ft is not None else None} is not a 4-byte unsigned handle type",
                           module=v.module, node=v.ann_nodes.get(fname, v.node), func=v.name,
                           construct=f"{v.name}.{fname}")
                run.ob("T2", not v.is_subclass_of(L.TPMS_PARAMS), f"{v.name} not TPMS_PARAMS",
                       "a handle area must not derive from TPMS_PARAMS (it would become encryptable)",
                       module=v.module, node=v.node, func=v.name, construct=f"{v.name} bases")
            else:
                run.ob("T2", v.is_subclass_of(L.TPMS_PARAMS), f"{v.name} derives TPMS_PARAMS",
                       "a parameter area must derive from TPMS_PARAMS (else parameter encryption is never applied)",
                       module=v.module, node=v.node, func=v.name, construct=f"{v.name} bases")
    # nobody else derives TPMS_PARAMS
    area_ids = {id(v) for tn in ("command_param_types", "response_param_types") for _, v, _ in L.tables[tn].items}
    for k, c in L.all.items():
        if c.is_subclass_of(L.TPMS_PARAMS) and c is not L.TPMS_PARAMS and id(c) not in area_ids:
            run.ob("T2", False, f"{k} derives TPMS_PARAMS", "only classes of the two parameter tables may derive from TPMS_PARAMS",
                   module=c.module, node=c.node, func=c.name, construct=f"{c.name} bases")


# ------------------------------------------------------------------------------ T3
T3_EXEMPT = {
    ("Response", "authorizationArea"): "sized by responseSize (byte-sized array), not counted",
}


def t3(run, L):
    for k, c in L.all.items():
        if not L.is_dataclass(c) or c.has("_selected_by"):
            continue  # union arms get their length from _list_size (T5)
        fl = L.fields(c)
        for i, (fname, ft) in enumerate(fl):
            if not isinstance(ft, ListT):
                continue
            if (k, fname) in T3_EXEMPT:
                run.ob("T3", True, f"{k}.{fname} exempt: {T3_EXEMPT[(k, fname)]}")
                continue
            prev = fl[i - 1][1] if i > 0 else None
            ok = i > 0 and isinstance(prev, ClassV) and L.is_primitive(prev) and not L.signed(prev)
            run.ob("T3", ok, f"{k}.{fname} follows its unsigned count",
                   f"list field is not directly preceded by an unsigned primitive count (preceded by "
                   f"{fl[i - 1][0] + ': ' + L.key(prev) if i > 0 else 'nothing'})",
                   module=c.module, node=c.ann_nodes.get(fname, c.node), func=c.name, construct=f"{c.name}.{fname}")


# ------------------------------------------------------------------------------ T4
def selection_map(L, union):
    """value -> arm, as process_tpmu builds it ({v: k}: a later duplicate wins); plus wildcard."""
    sb = L.dict_attr(union, "_selected_by")
    sel, wildcard, odd = {}, None, []
    for arm, v, _ in sb.items:
        if v is None:
            wildcard = arm
        elif isinstance(v, EnumMember):
            sel[v.value] = arm
        elif isinstance(v, int) and not isinstance(v, bool):
            sel[v] = arm
        else:
            odd.append((arm, v))
    return sel, wildcard, odd


def t4(run, L):
    for k, c in L.all.items():
        if not L.is_dataclass(c) or c.has("_selected_by"):
            continue
        fl = L.fields(c)
        names = [n for n, _ in fl]
        sels = L.dict_attr(c, "_selectors")
        for i, (fname, ft) in enumerate(fl):
            if not (isinstance(ft, ClassV) and ft.has("_selected_by")):
                continue
            if c in (L.Command, L.Response):
                continue
            sname = sels.get(fname) if sels is not None else None
            ok = isinstance(sname, str) and sname in names and names.index(sname) < i
            run.ob("T4", ok, f"{k}.{fname} has an earlier selector",
                   f"union field has no _selectors entry naming an earlier field (got {sname!r})",
                   module=c.module, node=c.ann_nodes.get(fname, c.node), func=c.name, construct=f"{c.name}.{fname} selector")
            if not ok:
                continue
            st = dict(fl)[sname]
            okp = isinstance(st, ClassV) and L.is_primitive(st)
            run.ob("T4", okp, f"{k}.{sname} selector is primitive", f"selector field type {L.key(st)} is not primitive",
                   module=c.module, node=c.ann_nodes.get(sname, c.node), func=c.name, construct=f"{c.name}.{sname} selector type")
            if not okp:
                continue
            sel, wildcard, odd = selection_map(L, ft)
            if wildcard is None:
                arms = merge_intervals([[v, v] for v in sel])
                uncovered = subtract(L.valid_intervals(st), arms)
                run.ob("T4", not uncovered, f"{k}.{fname}: every valid {st.name} selects an arm of {ft.name}",
                       f"valid selector values {fmt_iv(uncovered)} of {st.name} select no member of {ft.name} (and there is no None arm)",
                       module=ft.module, node=ft.node, func=ft.name, construct=f"{c.name}.{fname}: {st.name} -> {ft.name}")
            else:
                run.ob("T4", True, f"{k}.{fname}: {ft.name} has wildcard arm {wildcard}")
    # unions themselves: _selected_by keys == field names
    for k, c in L.all.items():
        if not (L.is_dataclass(c) and c.has("_selected_by")):
            continue
        sb = L.dict_attr(c, "_selected_by")
        fnames = [n for n, _ in L.fields(c)]
        keys = [a for a, _, _ in sb.items]
        run.ob("T4", sorted(keys) == sorted(fnames) and len(set(keys)) == len(keys), f"{k}._selected_by keys = fields",
               f"_selected_by keys {sorted(set(keys) ^ set(fnames))} do not match the union's fields",
               module=c.module, node=c.node, func=c.name, construct=f"{c.name}._selected_by keys")


def subtract(a, b):
    out = []
    for lo, hi in a:
        cur = lo
        for blo, bhi in b:
            if bhi < cur or blo > hi:
                continue
            if blo > cur:
                out.append([cur, blo - 1])
            cur = max(cur, bhi + 1)
            if cur > hi:
                break
        if cur <= hi:
            out.append([cur, hi])
    return out


def fmt_iv(iv):
    return ", ".join(f"{lo:#x}" if lo == hi else f"{lo:#x}..{hi:#x}" for lo, hi in iv[:6]) + (" ..." if len(iv) > 6 else "")


# ------------------------------------------------------------------------------ T5
def reachable_unions(L):
    seen, out = set(), []
    stack = [c for c in L.all.values()]
    while stack:
        c = stack.pop()
        if isinstance(c, ListT):
            c = c.elem
        if not isinstance(c, ClassV) or id(c) in seen or not L.is_dataclass(c):
            continue
        seen.add(id(c))
        for _, ft in L.fields(c):
            t = ft.elem if isinstance(ft, ListT) else ft
            if isinstance(t, ClassV) and t.has("_selected_by") and id(t) not in {id(u) for u in out}:
                out.append(t)
            stack.append(ft)
    return out


def t5(run, L):
    for u in reachable_unions(L):
        ls = L.dict_attr(u, "_list_size")
        for fname, ft in L.fields(u):
            if not isinstance(ft, ListT):
                continue
            n = ls.get(fname) if ls is not None else None
            ok = isinstance(n, int) and not isinstance(n, bool) and n > 0
            run.ob("T5", ok, f"{u.name}.{fname} has a fixed length", f"list-valued union member has _list_size {n!r}",
                   module=u.module, node=u.ann_nodes.get(fname, u.node), func=u.name, construct=f"{u.name}._list_size[{fname}]")
    run.floor("T5", 5, "list arms")


# ------------------------------------------------------------------------------ T6
def t6(run, project, L, facets=None, rule="T6"):
    pinned = snapshot.load_pinned()
    cur = ctx.canonical(project)
    diffs = snapshot.diff(pinned, cur)
    bad = {}
    for facet, key, construct, why in diffs:
        if facet == "info":
            if facets is None:
                run.info(f"{construct}: {why}")
            continue
        if facets is not None and facet not in facets:
            continue
        bad.setdefault(key, []).append((facet, construct, why))
    for k in pinned["types"]:
        c = L.all.get(k)
        if facets is not None and not any(f in facets for f in ("decode", "valid", "naming", "masks")):
            continue
        if k in bad:
            for facet, construct, why in bad[k]:
                run.ob(rule, False, construct, f"layout differs from the pinned snapshot ({facet}): {why}",
                       module=c.module if c else None, node=c.node if c else None, func=k, construct=construct)
        else:
            run.ob(rule, True, f"type {k} equals pinned")
    for k in list(pinned["tables"]) + ["Command._type_maps", "Response._type_maps"]:
        if k in bad:
            for facet, construct, why in bad[k]:
                if facets is None or facet in facets:
                    dv = L.tables.get(k)
                    run.ob(rule, False, construct, f"differs from the pinned snapshot: {why}",
                           module=dv.module if dv else None, node=dv.node if dv else None, func=k, construct=construct)
        else:
            run.ob(rule, True, f"{k} equals pinned")
