"""C18 - response codes are classified and named by the TPM 2.0 format rules.

N1  TPM_RC.__format__ and TPM_RC.attributes are turned into decision trees by a symbolic walk of
    their bodies (conditions are `_value == 0`, `are_bits_set(M)`, `are_bits_unset(M)`, `not ...`
    with M folded from the module constants; the two helpers are checked to mean all-set /
    all-clear).  For every value of the low 12 bits in the property's domain (zero, or bit 7 or
    bit 8 set) the leaf the code reaches is compared with the reference leaf written from the
    statement; on every leaf of `attributes` the row masks must partition 0xFFFFFFFF and use the
    same table / index mask / number mask+shift as `__format__`.
N2  the three name tables equal pinned/rc_tables.json (code -> name), no duplicate keys.
Everything is finite: exhaustive.
"""
from __future__ import annotations

import ast
import json
import os

from .. import ctx
from ..pattern import match
from ..project import AnalysisError, norm
from ..specmodel import DictV

MOD = "tpmstream.spec.common.tpm_rc"
PINNED = os.path.join(os.path.dirname(os.path.dirname(os.path.dirname(os.path.abspath(__file__)))), "pinned", "rc_tables.json")
TABLES = ("TPM_RC_FMT0_ERROR_MAP", "TPM_RC_FMT1_MAP", "TPM_RC_FMT0_WARN_MAP")


# ------------------------------------------------------------------------------ symbolic walk
class UnboundOnPath(AnalysisError):
    """a local is read on a path of the walk that never assigned it: the method raises UnboundLocalError for those codes"""

    def __init__(self, name, node, msg):
        super().__init__(msg)
        self.name, self.node = name, node


class Leaf:
    def __init__(self, conds, result, rows, node):
        self.conds, self.result, self.rows, self.node = conds, result, rows, node


class Walker:
    """Symbolic execution of a straight-line/if-else method body over (self._value)."""

    def __init__(self, consts, mod, fn, helpers):
        self.consts, self.mod, self.fn, self.helpers = consts, mod, fn, helpers
        self.leaves = []

    def fold(self, node, env=None):
        if isinstance(node, ast.Constant) and isinstance(node.value, int):
            return node.value
        if env is not None and isinstance(node, ast.Name) and isinstance(env.get(node.id), tuple) and env[node.id][:1] == ("const",) \
                and isinstance(env[node.id][1], int) and not isinstance(env[node.id][1], bool):
            return env[node.id][1]
        if isinstance(node, ast.Name) and isinstance(self.consts.get(node.id), int):
            return self.consts[node.id]
        if isinstance(node, ast.BinOp):
            a, b = self.fold(node.left, env), self.fold(node.right, env)
            if a is not None and b is not None:
                if isinstance(node.op, ast.BitOr):
                    return a | b
                if isinstance(node.op, ast.BitAnd):
                    return a & b
                if isinstance(node.op, ast.LShift):
                    return a << b
                if isinstance(node.op, ast.RShift):
                    return a >> b
                if isinstance(node.op, ast.BitXor):
                    return a ^ b
                if isinstance(node.op, ast.Add):
                    return a + b
                if isinstance(node.op, ast.Sub):
                    return a - b
                if isinstance(node.op, ast.Mult):
                    return a * b
                if isinstance(node.op, ast.FloorDiv) and b:
                    return a // b
        if isinstance(node, ast.UnaryOp) and isinstance(node.op, (ast.USub, ast.Invert, ast.UAdd)):
            a = self.fold(node.operand, env)
            if a is not None:
                return -a if isinstance(node.op, ast.USub) else ~a if isinstance(node.op, ast.Invert) else a
        if isinstance(node, ast.Call) and isinstance(node.func, ast.Attribute) and node.func.attr == "bit_length" and not node.args \
                and not node.keywords:
            a = self.fold(node.func.value, env)
            if a is not None:
                return a.bit_length()
        return None

    def pred(self, node, env=None):
        """-> ('zero',) | ('set', M) | ('unset', M) | ('not', p) | ('lit', bool)"""
        env = env if env is not None else {}
        if isinstance(node, ast.UnaryOp) and isinstance(node.op, ast.Not):
            return ("not", self.pred(node.operand, env))
        if isinstance(node, ast.BoolOp):
            return ("and" if isinstance(node.op, ast.And) else "or",) + tuple(self.pred(v, env) for v in node.values)
        if isinstance(node, ast.Name) and isinstance(env.get(node.id), tuple) and env[node.id][:1] == ("pred",):
            return env[node.id][1]
        if isinstance(node, ast.Name) and isinstance(env.get(node.id), tuple):
            # truthiness of a local: a constant, or a masked part of the code (non-zero iff some bit of the mask is set)
            v = env[node.id]
            if v[0] == "const":
                return ("lit", bool(v[1]))
            if v[0] == "and" and v[1] == ("v",) and isinstance(v[2], int):
                return ("not", ("unset", v[2]))
        if isinstance(node, ast.Compare) and len(node.ops) == 1 and isinstance(node.ops[0], (ast.Eq, ast.NotEq)) \
                and match(node, "self._value == 0") is None and match(node, "0 == self._value") is None:
            a, b = self.sym(node.left, env), self.sym(node.comparators[0], env)
            if a[0] == "const" and b[0] == "const":
                return ("lit", (a[1] == b[1]) == isinstance(node.ops[0], ast.Eq))
        if match(node, "self._value == 0") is not None or match(node, "0 == self._value") is not None:
            return ("zero",)
        if isinstance(node, ast.Compare) and len(node.ops) == 1 and isinstance(node.ops[0], (ast.Is, ast.IsNot, ast.Eq, ast.NotEq)):
            # a value that depends on the code only through conditions (a classification computed first) compared with a constant
            try:
                a, b = self.sym(node.left, env), self.sym(node.comparators[0], env)
            except AnalysisError:
                a = b = None
            if a is not None and b is not None and b[0] == "const" and a[0] in ("ite", "const"):
                def eq(x):
                    if x[0] == "const":
                        return ("lit", x[1] == b[1] and type(x[1]) is type(b[1]))
                    if x[0] == "ite":
                        return ("or", ("and", x[1], eq(x[2])), ("and", ("not", x[1]), eq(x[3])))
                    raise AnalysisError(f"N1: unrecognised condition `{norm(node)}` at {self.mod.relpath}:{node.lineno}")
                p = simplify(eq(a))
                return p if isinstance(node.ops[0], (ast.Is, ast.Eq)) else simplify(("not", p))
        if isinstance(node, ast.Compare) and len(node.ops) == 1 and isinstance(node.ops[0], (ast.Is, ast.IsNot)) \
                and isinstance(node.left, ast.Name) and node.left.id in env and isinstance(node.comparators[0], ast.Constant) \
                and node.comparators[0].value is None:
            # a local that is None on some branches (a "no table entry" marker): decided by what the branch bound it to
            v = env[node.left.id]
            if v == ("const", None):
                return ("lit", isinstance(node.ops[0], ast.Is))
            if v[0] in ("row", "name", "desc", "tuple", "f", "bit", "and", "shr", "v", "T") or (v[0] == "const" and v[1] is not None):
                return ("lit", isinstance(node.ops[0], ast.IsNot))
        if isinstance(node, ast.Call) and isinstance(node.func, ast.Attribute) and isinstance(node.func.value, ast.Name) \
                and node.func.value.id == "self" and node.func.attr in self.helpers and len(node.args) == 1:
            M = self.fold(node.args[0], env)
            if M is None:
                raise AnalysisError(f"N1: cannot fold mask {norm(node.args[0])} at {self.mod.relpath}:{node.lineno}")
            return (self.helpers[node.func.attr], M)
        if isinstance(node, (ast.BinOp, ast.Name, ast.Attribute)):
            # truthiness of an expression over the code: a constant, or a masked part of it (non-zero iff a bit of the mask is set)
            try:
                v = self.sym(node, env)
            except AnalysisError:
                v = None
            if v is not None and v[0] == "const":
                return ("lit", bool(v[1]))
            if v is not None and v[0] == "and" and v[1] == ("v",) and isinstance(v[2], int):
                return ("not", ("unset", v[2]))
        raise AnalysisError(f"N1: unrecognised condition `{norm(node)}` at {self.mod.relpath}:{node.lineno}")

    def sym(self, node, env):
        if isinstance(node, ast.Constant):
            return ("const", node.value)
        if isinstance(node, ast.Name):
            if node.id in env:
                return env[node.id]
            v = self.fold(node)
            if v is not None:
                return ("const", v)
            if node.id in TABLES:
                return ("table", node.id)
            raise UnboundOnPath(node.id, node, f"N1: unbound local {node.id} at {self.mod.relpath}:{node.lineno} "
                                f"(used on a path where it is not assigned)")
        if match(node, "self._value") is not None:
            return ("v",)
        if match(node, "type(self).__name__") is not None:
            return ("T",)
        if isinstance(node, ast.BinOp) and isinstance(node.op, (ast.BitAnd, ast.RShift)):
            b = self.fold(node.right, env)
            if b is not None:
                return ("and" if isinstance(node.op, ast.BitAnd) else "shr", self.sym(node.left, env), b)
        if isinstance(node, ast.BinOp) and isinstance(node.op, ast.FloorDiv):
            # division by a power of two is a right shift (the "lowest set bit of the mask" idiom: x // (M & -M))
            b = self.fold(node.right, env)
            if isinstance(b, int) and b > 0 and b & (b - 1) == 0:
                return ("shr", self.sym(node.left, env), b.bit_length() - 1)
        if isinstance(node, ast.BinOp) and type(node.op).__name__ in _ARITH:
            # arithmetic on parts of the code that no special form above covers: kept as is and computed per enumerated code
            # (`resolve`), which is exact as long as only the enumerated low 12 bits of the code enter it
            return ("op", type(node.op).__name__, self.sym(node.left, env), self.sym(node.right, env))
        if isinstance(node, ast.UnaryOp) and isinstance(node.op, (ast.USub, ast.Invert)):
            c = self.fold(node, env)
            return ("const", c) if c is not None else ("uop", type(node.op).__name__, self.sym(node.operand, env))
        if isinstance(node, ast.JoinedStr):
            parts = []
            for p in node.values:
                if isinstance(p, ast.Constant):
                    parts.append(p.value)
                else:
                    v = self.sym(p.value, env)
                    if v[0] == "const" and isinstance(v[1], str) and p.format_spec is None and p.conversion == -1:
                        parts.append(v[1])  # a literal text spliced in
                    else:
                        parts.append(v)
            merged = []
            for x in parts:
                if isinstance(x, str) and merged and isinstance(merged[-1], str):
                    merged[-1] += x
                else:
                    merged.append(x)
            parts = merged
            return ("f", tuple(parts))
        if isinstance(node, ast.IfExp):
            p = self.pred(node.test, env)
            if p[0] == "lit":
                return self.sym(node.body if p[1] else node.orelse, env)
            return ("ite", p, self.sym(node.body, env), self.sym(node.orelse, env))
        if isinstance(node, ast.Subscript):
            base = self.sym(node.value, env) if not (isinstance(node.value, ast.Name) and node.value.id in TABLES
                                                     and node.value.id not in env) else ("table", node.value.id)
            if base[0] == "table":
                return ("row", base[1], self.sym(node.slice, env))
            if base[0] == "row" and isinstance(node.slice, ast.Constant) and node.slice.value in (0, 1):
                return ("name" if node.slice.value == 0 else "desc", base[1], base[2])
        if isinstance(node, ast.Tuple):
            return ("tuple", tuple(self.sym(x, env) for x in node.elts))
        if isinstance(node, ast.Call) and isinstance(node.func, ast.Attribute) and isinstance(node.func.value, ast.Name) \
                and node.func.value.id in getattr(self, "table_methods", {}) and node.func.value.id not in env \
                and node.func.attr == self.table_methods[node.func.value.id][0] and len(node.args) == 1 and not node.keywords:
            # a table object's lookup: the row at `code & mask` (the method's shape is checked by N2)
            return ("row", node.func.value.id, ("and", self.sym(node.args[0], env), self.table_methods[node.func.value.id][1]))
        if isinstance(node, ast.Call) and isinstance(node.func, ast.Attribute) and node.func.attr in ("lower", "upper", "title", "capitalize") \
                and not node.args:
            v = self.sym(node.func.value, env)
            if v[0] == "const" and isinstance(v[1], str):
                return ("const", getattr(v[1], node.func.attr)())
        if isinstance(node, ast.Call) and isinstance(node.func, ast.Attribute) and isinstance(node.func.value, ast.Name) \
                and node.func.value.id == "self" and node.func.attr in self.helpers:
            return ("pred", self.pred(node, env))
        if isinstance(node, ast.Compare):
            p = self.pred(node, env)
            if p[0] == "lit":
                return ("const", p[1])
            return ("pred", p)
        if isinstance(node, ast.List) and not node.elts:
            return ("list",)
        if isinstance(node, ast.Call) and isinstance(node.func, ast.Name) and node.func.id == "TPM_RC":
            mask = self.fold(node.args[0], env) if node.args else None
            kw = {k.arg: self.sym(k.value, env) for k in node.keywords}
            if mask is None and node.args:
                mask = self.sym(node.args[0], env)   # a mask chosen by the code's layout: resolved per enumerated code
            if mask is None:
                raise AnalysisError(f"N1: cannot fold row mask {norm(node)}")
            return ("bit", mask, kw.get("name"), kw.get("details"))
        if isinstance(node, ast.Attribute) and isinstance(node.value, ast.Name) and node.value.id in getattr(self, "enums", ()) \
                and node.value.id not in env:
            return ("const", f"{node.value.id}.{node.attr}")   # a member of a module-level Enum: a constant, compared by identity
        if isinstance(node, ast.Call) and isinstance(node.func, ast.Name) and node.func.id == "sorted" and "sorted" not in env \
                and len(node.args) == 1 and isinstance(node.args[0], ast.Name) and env.get(node.args[0].id) == ("rows",):
            return ("rows",)   # (order only, checked separately)
        if isinstance(node, ast.Call) and isinstance(node.func, ast.Name) and node.func.id in env \
                and env[node.func.id] == ("sortfn",) and len(node.args) == 1:
            return self.sym(node.args[0], env)
        if isinstance(node, ast.Call) and isinstance(node.func, ast.Name) and isinstance(env.get(node.func.id), tuple) \
                and env[node.func.id][:1] == ("fn",):
            return self.call_fn(env[node.func.id][1], node, env, bound_self=False)
        if isinstance(node, ast.Call) and isinstance(node.func, ast.Attribute) and isinstance(node.func.value, ast.Name) \
                and node.func.value.id == "self" and node.func.attr in getattr(self, "methods", {}):
            return self.call_fn(self.methods[node.func.attr], node, env, bound_self=True)
        raise AnalysisError(f"N1: unmodelled expression `{norm(node)}` at {self.mod.relpath}:{node.lineno}")

    # ---- small helper functions (nested functions of the method, other methods of the class): evaluated symbolically
    def call_fn(self, fn, call, env, bound_self, depth=0):
        if depth > 4:
            raise AnalysisError(f"N1: helper calls nested too deeply at {self.mod.relpath}:{call.lineno}")
        params = [a.arg for a in fn.args.args]
        if bound_self:
            params = params[1:]
        if fn.args.vararg or fn.args.kwarg or len(call.args) > len(params):
            raise AnalysisError(f"N1: call `{norm(call)}` does not fit the helper's parameters at {self.mod.relpath}:{call.lineno}")
        inner = dict(env)   # a nested function sees the enclosing bindings; a method sees module constants through fold()
        if bound_self:
            inner = {}
        defaults = dict(zip(params[len(params) - len(fn.args.defaults):], fn.args.defaults))
        vals = {}
        for name, a in zip(params, call.args):
            vals[name] = self.sym(a, env)
        for k in call.keywords:
            if k.arg not in params:
                raise AnalysisError(f"N1: call `{norm(call)}` names an unknown parameter at {self.mod.relpath}:{call.lineno}")
            vals[k.arg] = self.sym(k.value, env)
        for name in params:
            if name not in vals:
                if name not in defaults:
                    raise AnalysisError(f"N1: call `{norm(call)}` leaves `{name}` unbound at {self.mod.relpath}:{call.lineno}")
                vals[name] = self.sym(defaults[name], {})
        inner.update(vals)
        return self.eval_block(list(fn.body), inner, fn)

    def eval_block(self, stmts, env, fn):
        """symbolic value returned by a block of assignments / ifs / returns (None result: falls off the end)"""
        for i, st in enumerate(stmts):
            rest = stmts[i + 1:]
            if isinstance(st, ast.Expr) and isinstance(st.value, ast.Constant):
                continue
            if isinstance(st, ast.Return):
                return self.sym(st.value, env) if st.value is not None else ("const", None)
            if isinstance(st, ast.If):
                p = self.pred(st.test, env)
                if p[0] == "lit":
                    return self.eval_block((st.body if p[1] else st.orelse) + rest, dict(env), fn)
                return ("ite", p, self.eval_block(st.body + rest, dict(env), fn), self.eval_block(st.orelse + rest, dict(env), fn))
            if isinstance(st, ast.Assign) and len(st.targets) == 1 and isinstance(st.targets[0], ast.Name):
                env[st.targets[0].id] = self.sym(st.value, env)
                continue
            if isinstance(st, ast.Assign) and len(st.targets) == 1 and isinstance(st.targets[0], ast.Tuple) \
                    and all(isinstance(e, ast.Name) for e in st.targets[0].elts):
                self.bind_tuple(st.targets[0], self.sym(st.value, env), env, st)
                continue
            raise AnalysisError(f"N1: unmodelled statement `{norm(st).splitlines()[0]}` in helper {fn.name} at {self.mod.relpath}:{st.lineno}")
        return ("const", None)

    def bind_tuple(self, target, v, env, st):
        def comp(x, i):
            if x[0] == "tuple" and len(x[1]) == len(target.elts):
                return x[1][i]
            if x[0] == "row" and len(target.elts) == 2:
                return ("name" if i == 0 else "desc", x[1], x[2])
            if x[0] == "ite":
                return ("ite", x[1], comp(x[2], i), comp(x[3], i))
            raise AnalysisError(f"N1: tuple assignment from non-table at line {st.lineno}")
        for i, e in enumerate(target.elts):
            env[e.id] = comp(v, i)

    def walk(self, stmts, env, conds, rows):
        try:
            return self.walk_(stmts, env, conds, rows)
        except UnboundOnPath as u:
            lf = Leaf(conds, ("const", f"<UnboundLocalError: {u.name}>"), [], u.node)
            lf.failure = u.name
            self.leaves.append(lf)

    def walk_(self, stmts, env, conds, rows):
        for i, st in enumerate(stmts):
            rest = stmts[i + 1:]
            if isinstance(st.value if isinstance(st, (ast.Assign, ast.Return)) else None, ast.IfExp) and (
                    isinstance(st, ast.Return) or isinstance(st.targets[0], ast.Tuple) or any(
                        isinstance(x, ast.Constant) and x.value is None for x in (st.value.body, st.value.orelse))):
                # a conditional value is the same as an if/else over two assignments / returns
                e = st.value
                mk = (lambda v: ast.copy_location(ast.Assign(targets=st.targets, value=v, lineno=st.lineno), st)) \
                    if isinstance(st, ast.Assign) else (lambda v: ast.copy_location(ast.Return(value=v), st))
                st = ast.copy_location(ast.If(test=e.test, body=[mk(e.body)], orelse=[mk(e.orelse)]), st)
            if isinstance(st, ast.If):
                p = self.pred(st.test, env)
                if p[0] == "lit":
                    self.walk((st.body if p[1] else st.orelse) + rest, dict(env), conds, list(rows))
                    return
                self.walk(st.body + rest, dict(env), conds + [(p, True)], list(rows))
                self.walk(st.orelse + rest, dict(env), conds + [(p, False)], list(rows))
                return
            if isinstance(st, ast.Return):
                res = self.sym(st.value, env) if st.value is not None else None
                if res == ("list",):
                    res_rows = []
                elif isinstance(st.value, ast.Call) or isinstance(st.value, ast.Name):
                    res_rows = rows
                else:
                    res_rows = rows
                self.leaves.append(Leaf(conds, res, res_rows, st))
                return
            if isinstance(st, ast.Assign) and len(st.targets) == 1:
                t = st.targets[0]
                if isinstance(t, ast.Name):
                    if isinstance(st.value, ast.List) and (not st.value.elts or all(
                            isinstance(x, ast.Call) and isinstance(x.func, ast.Name) and x.func.id == "TPM_RC" for x in st.value.elts)):
                        env[t.id] = ("rows",)
                        rows.extend(self.sym(x, env) for x in st.value.elts)
                    else:
                        env[t.id] = self.sym(st.value, env)
                    continue
                if isinstance(t, ast.Tuple) and all(isinstance(e, ast.Name) for e in t.elts):
                    self.bind_tuple(t, self.sym(st.value, env), env, st)
                    continue
            if isinstance(st, ast.AugAssign) and isinstance(st.op, ast.Add) and isinstance(st.target, ast.Name) \
                    and env.get(st.target.id) == ("rows",) and isinstance(st.value, (ast.List, ast.Tuple)):
                rows.extend(self.sym(x, env) for x in st.value.elts)
                continue
            if isinstance(st, ast.Expr):
                if isinstance(st.value, ast.Constant):
                    continue
                m = match(st.value, "M_l.extend(M_x)")
                if m is not None and isinstance(m["M_l"], ast.Name) and env.get(m["M_l"].id) == ("rows",) and isinstance(m["M_x"], (ast.List, ast.Tuple)):
                    rows.extend(self.sym(x, env) for x in m["M_x"].elts)
                    continue
                m = match(st.value, "M_l.append(M_x)")
                if m is not None and isinstance(m["M_l"], ast.Name) and env.get(m["M_l"].id) == ("rows",):
                    rows.append(self.sym(m["M_x"], env))
                    continue
            if isinstance(st, ast.FunctionDef):
                rs = [r for r in ast.walk(st) if isinstance(r, ast.Return)]
                if len(rs) == 1 and isinstance(rs[0].value, ast.Call) and isinstance(rs[0].value.func, ast.Name) \
                        and rs[0].value.func.id in ("sorted", "reversed", "list", "tuple"):
                    env[st.name] = ("sortfn",)  # local helper `sort(bits)`: order only, checked separately
                else:
                    env[st.name] = ("fn", st)   # any other local helper is evaluated where it is called
                continue
            raise AnalysisError(f"N1: unmodelled statement `{norm(st).splitlines()[0]}` at {self.mod.relpath}:{st.lineno}")
        self.leaves.append(Leaf(conds, None, rows, stmts[-1] if stmts else self.fn))


def simplify(p):
    """constant folding of a condition formula"""
    if p[0] == "not":
        q = simplify(p[1])
        return ("lit", not q[1]) if q[0] == "lit" else ("not", q)
    if p[0] in ("and", "or"):
        qs = [simplify(q) for q in p[1:]]
        unit = p[0] == "and"
        if any(q == ("lit", not unit) for q in qs):
            return ("lit", not unit)
        qs = [q for q in qs if q != ("lit", unit)]
        if not qs:
            return ("lit", unit)
        return qs[0] if len(qs) == 1 else (p[0],) + tuple(qs)
    return p


def holds(p, v):
    k = p[0]
    if k == "zero":
        return v == 0
    if k == "set":
        return v & p[1] == p[1]
    if k == "unset":
        return v & p[1] == 0
    if k == "lit":
        return p[1]
    if k == "not":
        return not holds(p[1], v)
    if k == "and":
        return all(holds(q, v) for q in p[1:])
    if k == "or":
        return any(holds(q, v) for q in p[1:])
    raise AssertionError(k)


def leaf_for(leaves, v):
    hit = [lf for lf in leaves if all(holds(p, v) == truth for p, truth in lf.conds)]
    if len(hit) != 1:
        raise AnalysisError(f"N1: decision tree is not a partition at value {v:#x} ({len(hit)} leaves)")
    return hit[0]


def render(s):
    if s is None:
        return "None"
    k = s[0]
    if k == "const":
        return repr(s[1]) if not isinstance(s[1], int) else hex(s[1])
    if k == "v":
        return "v"
    if k == "T":
        return "{T}"
    if k == "and":
        return f"({render(s[1])}&{s[2]:#x})"
    if k == "shr":
        return f"({render(s[1])}>>{s[2]})"
    if k == "f":
        return "".join(p if isinstance(p, str) else "{" + render(p).strip("{}") + "}" for p in s[1])
    if k in ("name", "desc"):
        return f"{s[1]}[{render(s[2])}].{k}"
    if k == "ite":
        return f"ite({s[1]},{render(s[2])},{render(s[3])})"
    if k == "bit":
        return f"bit({s[1]:#x},{render(s[2])},{render(s[3])})"
    return repr(s)


# ------------------------------------------------------------------------------ reference (from the statement)
def reference_format(v):
    if v == 0:
        return "{T}.SUCCESS"
    if v & 0x80:  # format one
        name = "TPM_RC_FMT1_MAP[(v&0x3f)].name"
        if v & 0x40:
            det = "Parameter No. {" + hex((v & 0xf00) >> 8) + "}"
        elif v & 0x800:
            det = "Session No. {" + hex((v & 0x700) >> 8) + "}"
        else:
            det = "Handle No. {" + hex((v & 0x700) >> 8) + "}"
        return "{T}.{" + name + "} (" + det + ")"
    if v & 0x400:
        return "{T}.UNKNOWN (Vendor-defined)"
    if v & 0x800:
        return "{T}.{TPM_RC_FMT0_WARN_MAP[(v&0x7f)].name}"
    return "{T}.{TPM_RC_FMT0_ERROR_MAP[(v&0x7f)].name}"


_ARITH = {"BitAnd": lambda a, b: a & b, "BitOr": lambda a, b: a | b, "BitXor": lambda a, b: a ^ b, "RShift": lambda a, b: a >> b,
          "LShift": lambda a, b: a << b, "FloorDiv": lambda a, b: a // b, "Mod": lambda a, b: a % b, "Add": lambda a, b: a + b,
          "Sub": lambda a, b: a - b, "Mult": lambda a, b: a * b}


def concrete(s, v):
    """the integer a number expression has for the code v (only its enumerated low 12 bits may enter), else None"""
    if not isinstance(s, tuple) or not s:
        return None
    if s[0] == "const":
        return s[1] if isinstance(s[1], int) and not isinstance(s[1], bool) else None
    if s[0] == "and" and isinstance(s[2], int):
        if s[1] == ("v",):
            if s[2] & ~0xFFF:
                raise AnalysisError(f"N1: arithmetic on bits of the code beyond the enumerated low 12 (mask {s[2]:#x})")
            return v & s[2]
        a = concrete(s[1], v)
        return None if a is None else a & s[2]
    if s[0] == "shr" and isinstance(s[2], int):
        a = concrete(s[1], v)
        return None if a is None else a >> s[2]
    if s[0] == "ite":
        return concrete(s[2] if holds(s[1], v) else s[3], v)
    if s[0] == "op":
        a, b = concrete(s[2], v), concrete(s[3], v)
        if a is None or b is None:
            return None
        if s[1] in ("LShift", "RShift") and not 0 <= b <= 64:
            raise AnalysisError("N1: shift amount out of range")
        return _ARITH[s[1]](a, b)
    if s[0] == "uop":
        a = concrete(s[2], v)
        return None if a is None else (-a if s[1] == "USub" else ~a)
    return None


def resolve(s, v):
    """the symbolic value for the concrete code v: conditional values take the arm v selects"""
    if isinstance(s, tuple):
        if s and s[0] == "ite":
            return resolve(s[2] if holds(s[1], v) else s[3], v)
        if s and s[0] in ("op", "uop"):
            try:
                c = concrete(s, v)
            except ZeroDivisionError:
                return ("const", "<ZeroDivisionError>")
            if c is None:
                raise AnalysisError(f"N1: number expression {s!r} is outside the modelled arithmetic")
            return ("const", c)
        if s and s[0] in ("set", "unset", "zero", "lit", "not", "and_", "or"):
            return s
        if len(s) == 3 and s[0] == "shr" and isinstance(s[1], tuple) and s[1][:2] == ("and", ("v",)) and isinstance(s[1][2], int) \
                and not s[1][2] & ~0xFFF and isinstance(s[2], int):
            return ("const", (v & s[1][2]) >> s[2])   # a number field inside the enumerated low 12 bits: its value for this code
        return tuple(resolve(x, v) if isinstance(x, tuple) else x for x in s)
    return s


def resolve_row(r, v):
    """a bit row with its name / details resolved for v (the mask stays)"""
    if isinstance(r, tuple) and r and r[0] == "ite":
        return resolve_row(r[2] if holds(r[1], v) else r[3], v)
    if isinstance(r, tuple) and r and r[0] == "bit" and not isinstance(r[1], int):
        m = concrete(resolve(r[1], v), v)
        if m is None:
            raise AnalysisError(f"N1: row mask {r[1]!r} is not a number for code {v:#x}")
        r = ("bit", m) + tuple(r[2:])
    if isinstance(r, tuple) and r and r[0] == "bit":
        return ("bit", r[1], resolve(r[2], v) if isinstance(r[2], tuple) else r[2], resolve(r[3], v) if isinstance(r[3], tuple) else r[3])
    return r


def flatten(s):
    """inline nested f-strings so that `details` inside the outer f-string renders flat."""
    if isinstance(s, tuple) and s and s[0] == "f":
        parts = []
        for p in s[1]:
            if isinstance(p, tuple) and p[0] == "f":
                parts.extend(flatten(p)[1])
            else:
                parts.append(p)
        return ("f", tuple(parts))
    return s


def in_domain(v):
    return v == 0 or bool(v & 0x180)


def path_failures(project):
    """[(method name, local name, node, example codes)]: paths of TPM_RC.__format__ / attributes() on which a local is read
    without having been assigned (UnboundLocalError for the codes of that path) - for the printers' termination rule C14-Q6"""
    mod = project.module(MOD)
    env = ctx.model(project).env(MOD)
    consts = {k: v for k, v in env.items() if isinstance(v, int) and not isinstance(v, bool)}
    cls = mod.classes().get("TPM_RC")
    if cls is None:
        raise AnalysisError("N1: class TPM_RC not found")
    fns = {n.name: n for n in cls.body if isinstance(n, ast.FunctionDef)}
    helpers = {n: k for n, k in (("are_bits_set", "set"), ("are_bits_unset", "unset")) if n in fns}
    methods = {k: f for k, f in fns.items() if k not in helpers and k not in ("__format__", "attributes", "__str__", "__init__")
               and not any(isinstance(d, ast.Name) and d.id in ("property", "staticmethod", "classmethod") for d in f.decorator_list)}
    enums = {c.name for c in mod.tree.body if isinstance(c, ast.ClassDef) and any(norm(b) in ("Enum", "enum.Enum", "IntEnum", "enum.IntEnum")
                                                                                   for b in c.bases)}
    out = []
    for name in ("__format__", "attributes"):
        if name not in fns:
            continue
        w = Walker(consts, mod, fns[name], helpers)
        w.methods, w.enums = methods, enums
        w.walk(fns[name].body, {}, [], [])
        for lf in w.leaves:
            if getattr(lf, "failure", None):
                codes = [v for v in range(4096) if in_domain(v) and all(holds(p, v) == t for p, t in lf.conds)]
                if codes:
                    out.append((name, lf.failure, lf.node, codes))
    return mod, out


# ------------------------------------------------------------------------------ the check
def check(run, project):
    mod = project.module(MOD)
    M = ctx.model(project)
    env = M.env(MOD)
    run.explanation = ("symbolic walk of TPM_RC.__format__/attributes -> decision trees; every value of the low 12 "
                       "bits in the property's domain is routed through both trees and compared with the reference "
                       "classification; name tables compared with pinned/rc_tables.json")
    run.trusted_base = ["CPython ast", "constant folding of tpm_rc.py module constants (E1)"]
    consts = {k: v for k, v in env.items() if isinstance(v, int) and not isinstance(v, bool)}
    cls = mod.classes().get("TPM_RC")
    if cls is None:
        raise AnalysisError("N1: class TPM_RC not found")
    fns = {n.name: n for n in cls.body if isinstance(n, ast.FunctionDef)}
    for need in ("__format__", "attributes", "are_bits_set", "are_bits_unset"):
        if need not in fns:
            raise AnalysisError(f"N1: TPM_RC.{need} not found")
    # helpers mean all-set / all-clear
    helpers = {}
    for hname, kind, pats in (("are_bits_set", "set", ("bool(self._value & M_m == M_m)", "self._value & M_m == M_m")),
                              ("are_bits_unset", "unset", ("bool(self._value & M_m == 0)", "self._value & M_m == 0",
                                                           "not self._value & M_m"))):
        f = fns[hname]
        body = [s for s in f.body if not (isinstance(s, ast.Expr) and isinstance(s.value, ast.Constant))]
        ok = len(body) == 1 and isinstance(body[0], ast.Return) and len(f.args.args) == 2 and any(
            (lambda m: m is not None and norm(m["M_m"]) == f.args.args[1].arg)(match(body[0].value, p)) for p in pats)
        run.ob("N1", ok, f"{hname} means all bits of the mask {'set' if kind == 'set' else 'clear'}",
               f"helper body is `{norm(body[0]) if body else '?'}`", module=mod, node=f, func=f"TPM_RC.{hname}")
        helpers[hname] = kind
    # __str__ delegates to __format__
    if "__str__" in fns:
        rs = [s for s in ast.walk(fns["__str__"]) if isinstance(s, ast.Return)]
        ok = len(rs) == 1 and isinstance(rs[0].value, ast.Call) and norm(rs[0].value.func) == "self.__format__"
        run.ob("N1", ok, "__str__ delegates to __format__", "TPM_RC.__str__ no longer returns self.__format__(...)",
               module=mod, node=fns["__str__"], func="TPM_RC.__str__")

    methods = {k: f for k, f in fns.items() if k not in helpers and k not in ("__format__", "attributes", "__str__", "__init__")
               and not any(isinstance(d, ast.Name) and d.id in ("property", "staticmethod", "classmethod") for d in f.decorator_list)}
    enums = {c.name for c in mod.tree.body if isinstance(c, ast.ClassDef) and any(norm(b) in ("Enum", "enum.Enum", "IntEnum", "enum.IntEnum")
                                                                                   for b in c.bases)}
    table_object.methods = {}
    for t_ in TABLES:
        table_object(M.force(env.get(t_)), t_)
    wf = Walker(consts, mod, fns["__format__"], helpers)
    wf.methods = methods
    wf.enums = enums
    wf.table_methods = dict(table_object.methods)
    wf.walk(fns["__format__"].body, {}, [], [])
    wa = Walker(consts, mod, fns["attributes"], helpers)
    wa.methods = methods
    wa.enums = enums
    wa.table_methods = dict(table_object.methods)
    wa.walk(fns["attributes"].body, {}, [], [])
    # masks tested by conditions live in the low 12 bits (so the low-12 enumeration is exhaustive)
    for w in (wf, wa):
        for lf in w.leaves:
            for p, _ in lf.conds:
                for q in _atoms(p):
                    if q[0] in ("set", "unset") and q[1] & ~0xFFF:
                        raise AnalysisError(f"N1: condition mask {q[1]:#x} reaches beyond the low 12 bits")
    run.cover(format_leaves=len(wf.leaves), attributes_leaves=len(wa.leaves))

    domain = [v for v in range(4096) if in_domain(v)]
    bad_fmt, bad_part, bad_agree = {}, {}, {}
    n_fmt = n_rows = 0
    for v in domain:
        lf = leaf_for(wf.leaves, v)
        got = render(flatten(resolve(lf.result, v))) if lf.result is not None else "None"
        want = reference_format(v)
        n_fmt += 1
        if got != want:
            bad_fmt.setdefault((id(lf), got, want), [lf, []])[1].append(v)
        la = leaf_for(wa.leaves, v)
        if getattr(la, "failure", None):
            n_rows += 1
            bad_part.setdefault((id(la), f"attributes() raises UnboundLocalError: the local `{la.failure}` is read on this path without "
                                 "having been assigned"), [la, []])[1].append(v)
            continue
        rows = [resolve_row(r, v) for r in la.rows] if la.result is not None and la.result != ("list",) else []
        if la.result == ("list",) or (v == 0):
            rows = [] if la.result == ("list",) else rows
        masks = [r[1] for r in rows if r[0] == "bit"]
        n_rows += 1
        if v == 0:
            if rows:
                bad_part.setdefault((id(la), "SUCCESS has rows"), [la, []])[1].append(v)
            continue
        total, overlap = 0, 0
        for mk in masks:
            overlap |= total & mk
            total |= mk
        if overlap or total != 0xFFFFFFFF or len(masks) != len(rows):
            why = f"rows {[hex(m) for m in masks]}: overlap {overlap:#x}, missing {0xFFFFFFFF & ~total:#x}"
            bad_part.setdefault((id(la), why), [la, []])[1].append(v)
        # agreement with __format__ (same table/index mask, same number mask+shift)
        fs = render(flatten(resolve(lf.result, v))) if lf.result is not None else ""
        astr = " ".join(render(resolve_row(r, v)) for r in rows)
        for tbl in TABLES:
            in_f = [seg for seg in _lookups(fs) if seg.startswith(tbl)]
            in_a = [seg for seg in _lookups(astr) if seg.startswith(tbl)]
            if in_f and set(in_f) - set(in_a):
                bad_agree.setdefault((id(la), f"__format__ names the code by {in_f[0]}, attributes() by {in_a or 'nothing'}"),
                                     [la, []])[1].append(v)
        nf = _numbers(fs)
        na = _numbers(astr)
        if nf and set(nf) - set(na):
            bad_agree.setdefault((id(la), f"__format__ shows {nf}, attributes() shows {na}"), [la, []])[1].append(v)
        sev = [r for r in rows if r[0] == "bit" and r[2] == ("const", "severity")]
        if not (v & 0x80) and sev:
            d = sev[0][3]
            want_sev = ("const", "Warning" if v & 0x800 else "Error")   # (rows are resolved for the code v by now)
            if d != want_sev or sev[0][1] != 0x800:
                bad_agree.setdefault((id(la), f"severity row is {render(sev[0])}"), [la, []])[1].append(v)

    def report(rule_site, table, what):
        if not table:
            run.ob("N1", True, rule_site)
        for key, (lf, vals) in table.items():
            desc = key[1] if len(key) == 2 else f"code gives `{key[1]}`, the format rules give `{key[2]}`"
            run.ob("N1", False, rule_site,
                   f"{what}: {desc} for {len(vals)} codes, e.g. {', '.join(hex(x) for x in vals[:4])}",
                   module=mod, node=lf.node, func="TPM_RC." + ("__format__" if table is bad_fmt else "attributes"),
                   construct=f"leaf {norm(lf.node).splitlines()[0][:80]}",
                   path=" and ".join(("" if t else "not ") + _ps(p) for p, t in lf.conds))

    report(f"__format__ classification on {n_fmt} codes", bad_fmt, "classification differs")
    report(f"attributes() rows partition 0xFFFFFFFF on {n_rows} codes", bad_part, "bit rows do not partition the word")
    report(f"attributes() agrees with __format__ on {n_rows} codes", bad_agree, "bit rows disagree with the text form")
    # every obligation counts once per code for the evidence
    run.rule_counts["N1"] = run.rule_counts.get("N1", 0) + n_fmt + 2 * n_rows
    run.cover(codes_enumerated=len(domain), evaluations=n_fmt + 2 * n_rows)
    # rows are returned sorted by mask, descending (printer order = bit order)
    def is_sorted_call(c):
        return isinstance(c, ast.Call) and isinstance(c.func, ast.Name) and c.func.id == "sorted" and any(
            k.arg == "reverse" and isinstance(k.value, ast.Constant) and k.value.value is True for k in c.keywords) and any(
            k.arg == "key" and norm(k.value).replace(" ", "") in ("lambdab:b._value",) for k in c.keywords)
    att = fns["attributes"]
    sorters = {n.name for n in ast.walk(att) if isinstance(n, ast.FunctionDef) and n is not att
               and [r for r in ast.walk(n) if isinstance(r, ast.Return)] and all(is_sorted_call(r.value) for r in ast.walk(n) if isinstance(r, ast.Return))}
    from ..project import walk_no_nested
    for r in [r for r in walk_no_nested(att) if isinstance(r, ast.Return) and r.value is not None]:
        if isinstance(r.value, (ast.List, ast.Tuple)) and not r.value.elts:
            continue
        ok = is_sorted_call(r.value) or (isinstance(r.value, ast.Call) and isinstance(r.value.func, ast.Name) and r.value.func.id in sorters)
        run.ob("N1", ok, "rows sorted from the most significant field down",
               f"attributes() returns `{norm(r.value)[:60]}`: the rows are no longer sorted by mask, descending", module=mod, node=r,
               func="TPM_RC.attributes")
    n2(run, mod, M)
    try:
        n3(run, project)
    except AnalysisError as ex:
        run.info(f"N3: the pretty printer's bit rows could not be folded ({ex}); not judged here (C17 reports the rows)")
    run.floor("N1", 3000, "code evaluations")
    run.floor("N2", 100, "table entries")


def n3(run, project):
    """N3 "the bit rows shown for a code carry the same classification": the classification attributes() attaches to a row
    (its details text, decided per code by N1) is what the printer shows in that row - pretty_attrs folded (mini interpreter,
    C17-M2's fold) over a 32-bit word with one row that has a details text and one that has none: the first row shows its
    bits followed by that text, the second its bits only."""
    from .c17 import PRETTY, fold_pretty_attrs
    mod = project.module(PRETTY)
    f = mod.functions().get("pretty_attrs")
    rows = fold_pretty_attrs(project, "TPM_RC", 4, 0x00010001, [("lo", 0x0000FFFF, "DETAILS-LO"), ("hi", 0xFFFF0000, None)])
    if isinstance(rows, str) and not rows.startswith("raises"):
        raise AnalysisError(f"N3: {rows}")
    bits = ("................0000000000000001", "0000000000000001................")
    ok = why = None
    if isinstance(rows, str):
        ok, why = False, f"the printer {rows} for a word whose rows carry a classification"
    elif len(rows) != 2 or not all(isinstance(r, tuple) and len(r) >= 2 and isinstance(r[-1], str) for r in rows):
        ok, why = False, f"{len(rows)} rows for 2 masks"
    else:
        t0, t1 = rows[0][-1], rows[1][-1]
        ok = t0.startswith(bits[0]) and "DETAILS-LO" in t0[len(bits[0]):] and t1 == bits[1]
        why = (f"a row whose mask has the details text 'DETAILS-LO' is printed as {t0!r} and a row without one as {t1!r}: required are "
               f"the bits {bits[0]!r} followed by the details text, and the bits {bits[1]!r} alone")
    run.ob("N3", ok, "a bit row shows the classification attributes() attached to it", why, module=mod, node=f, func="pretty_attrs",
           construct="pretty_attrs details")


def _atoms(p):
    if p[0] == "not":
        return _atoms(p[1])
    if p[0] in ("and", "or"):
        return [a for q in p[1:] for a in _atoms(q)]
    return [p]


def _ps(p):
    if p[0] == "not":
        return "not " + _ps(p[1])
    if p[0] in ("and", "or"):
        return "(" + f" {p[0]} ".join(_ps(q) for q in p[1:]) + ")"
    if p[0] == "zero":
        return "value == 0"
    return f"{p[0]}({p[1]:#x})"


def _lookups(s):
    out, i = [], 0
    for t in TABLES:
        i = 0
        while True:
            j = s.find(t + "[", i)
            if j < 0:
                break
            k = s.find("]", j)
            out.append(s[j:k + 1])
            i = k
    return out


def _numbers(s):
    out = []
    for label in ("Parameter No. ", "Session No. ", "Handle No. "):
        i = s.find(label)
        if i >= 0:
            j = s.find("}", i)
            out.append(s[i:j + 1])
    return out


# ------------------------------------------------------------------------------ N2
def table_object(v, name):
    """(rows, mask, unknown row) when the model value is a table object: an instance of a plain class that keeps a tuple of
    (name, description) rows and an integer mask, and whose one public method returns `self.<rows>[<code> & self.<mask>]`"""
    from ..specmodel import InstanceV, TupleV, FuncV
    if not isinstance(v, InstanceV):
        return None
    tup = [k for k, x in v.attrs.items() if isinstance(x, TupleV)]
    ints = [k for k, x in v.attrs.items() if isinstance(x, int) and not isinstance(x, bool)]
    if len(tup) != 1 or len(ints) != 1:
        raise AnalysisError(f"N2: {name} is an object whose rows / mask are not recognisable")
    lookups = [f for k, f in v.cls.ns.items() if isinstance(f, FuncV) and not k.startswith("_")]
    if len(lookups) != 1 or len(lookups[0].node.args.args) != 2:
        raise AnalysisError(f"N2: the lookup method of {name} is not recognisable")
    f = lookups[0].node
    me, code = (a.arg for a in f.args.args)
    body = [st for st in f.body if not (isinstance(st, ast.Expr) and isinstance(st.value, ast.Constant))]
    ok = len(body) == 1 and isinstance(body[0], ast.Return) and norm(body[0].value) in (
        f"{me}.{tup[0]}[{code} & {me}.{ints[0]}]", f"{me}.{tup[0]}[{me}.{ints[0]} & {code}]")
    if not ok:
        raise AnalysisError(f"N2: {name}.{f.name} is not `rows[code & mask]`")
    unknown = next((x for x in (v.cls.lookup(k) for k in v.cls.ns) if isinstance(x, TupleV) and len(x.items) == 2), None)
    table_object.methods[name] = (f.name, v.attrs[ints[0]])
    return list(v.attrs[tup[0]].items), v.attrs[ints[0]], unknown


table_object.methods = {}


def n2(run, mod, M):
    if not os.path.exists(PINNED):
        raise AnalysisError(f"pinned RC tables missing: {PINNED}")
    pinned = json.load(open(PINNED))
    env = M.env(MOD)
    for t in TABLES:
        dv = M.force(env.get(t))
        obj = table_object(dv, t)
        if obj is not None:
            # a table object (rows flattened into a tuple, looked up by `code & mask`): every number the mask can produce
            # needs a row, the rows that are not the "unknown" row are the name table
            rows, mask, unknown = obj
            tnode = next((st_ for st_ in mod.tree.body if isinstance(st_, ast.Assign) and any(isinstance(x_, ast.Name) and x_.id == t for x_ in st_.targets)), mod.tree)
            run.ob("N2", len(rows) == mask + 1, f"{t}: one row per code number (0..{mask:#x})",
                   f"{t} holds {len(rows)} rows but is indexed with `code & {mask:#x}`: " +
                   (f"looking up the code numbers {len(rows):#x}..{mask:#x} raises IndexError (str() and attributes() of those codes fail)"
                    if len(rows) <= mask else "rows beyond the mask are never reached"), module=mod, node=tnode, func=t,
                   construct=f"{t} rows")
            want = {int(k): v for k, v in pinned[t].items()}
            cur = {}
            for i_, r_ in enumerate(rows):
                if not (hasattr(r_, "items") and len(r_.items) == 2 and isinstance(r_.items[0], str)):
                    raise AnalysisError(f"N2: {t} row {i_:#x} is not a (name, description) pair")
                if unknown is None or list(r_.items) != list(unknown.items):
                    cur[i_] = r_.items[0]
            for k in sorted(set(want) | set(cur)):
                run.ob("N2", want.get(k) == cur.get(k), f"{t}[{k:#05x}] = {want.get(k)}",
                       f"name table differs from the pinned TPM 2.0 names: pinned {want.get(k)!r}, now {cur.get(k)!r}",
                       module=mod, node=tnode, func=t, construct=f"{t}[{k:#x}]")
            run.ob("N2", unknown is not None and len(unknown.items) == 2, f"{t} default row is a (name, description) pair",
                   "unknown codes no longer map to a (name, description) pair (unpacking would fail)", module=mod, node=tnode,
                   func=t, construct=f"{t} default")
            continue
        if not isinstance(dv, DictV):
            raise AnalysisError(f"N2: {t} is not a defaultdict(<factory>, {{...}}) literal")
        seen = {}
        cur = {}
        for k, v, knode in dv.items:
            ok = isinstance(k, int) and hasattr(v, "items") and len(v.items) == 2 and isinstance(v.items[0], str)
            if not ok:
                raise AnalysisError(f"N2: {t} entry {k!r} is not `code: (name, description)`")
            run.ob("N2", k not in seen, f"{t}[{k:#05x}] unique",
                   f"duplicate key {k:#05x}: '{v.items[0]}' silently replaces '{seen.get(k)}'", module=mod, node=knode,
                   func=t, construct=f"{t} duplicate {k:#x}")
            seen[k] = v.items[0]
            cur[k] = v.items[0]
        want = {int(k): v for k, v in pinned[t].items()}
        for k in sorted(set(want) | set(cur)):
            run.ob("N2", want.get(k) == cur.get(k), f"{t}[{k:#05x}] = {want.get(k)}",
                   f"name table differs from the pinned TPM 2.0 names: pinned {want.get(k)!r}, now {cur.get(k)!r}",
                   module=mod, node=dv.node, func=t, construct=f"{t}[{k:#x}]")
        # default row for unknown codes keeps the tuple shape (name, description)
        fac = getattr(dv, "default_factory", None)
        okf = fac is not None and fac.__class__.__name__ == "LambdaV" and isinstance(fac.node.body, ast.Tuple) \
            and len(fac.node.body.elts) == 2
        run.ob("N2", okf, f"{t} default row is a (name, description) pair",
               "unknown codes no longer map to a (name, description) pair (unpacking would fail)", module=mod,
               node=dv.node, func=t, construct=f"{t} default")
