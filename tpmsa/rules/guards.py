"""Model guards: the facts of spec/common/values.py and base_type.py that E1's decorator model
relies on, re-validated on every run.

Outcome discipline:
  * anchor not found / shape not recognised  -> AnalysisError (exit 2: model no longer validated)
  * shape recognised but semantics differ    -> a failed obligation of rule G (violation): the
    meaning of *every* layout table has changed although no table was edited.
"""
from __future__ import annotations

import ast

from ..pattern import find, is_name, match
from ..project import call_name, AnalysisError, norm

VALUES = "tpmstream.spec.common.values"
BASE = "tpmstream.spec.common.base_type"


def _fn(mod, qual):
    f = mod.functions().get(qual)
    if f is None:
        raise AnalysisError(f"model guard: {mod.relpath}: function {qual} not found")
    return f


def _returns(fn):
    return [n for n in ast.walk(fn) if isinstance(n, ast.Return) and _owner(n) is fn]


def _owner(node):
    p = getattr(node, "_parent", None)
    while p is not None and not isinstance(p, (ast.FunctionDef, ast.AsyncFunctionDef, ast.Lambda)):
        p = getattr(p, "_parent", None)
    return p


PRED = "_is_public_non_funtion_attr"


def members_source(scope_fns, expr, depth=0):
    """Does `expr` (evaluated in the scope of tpm_bitfield's decorator) enumerate the (name, value) pairs of the public
    non-routine members of the decorated class?  -> "filtered" (already restricted by the predicate), "all" (plain
    inspect.getmembers(cls): the loop has to apply the predicate itself) or None.  Followed through `.items()`, dict / sorted /
    list / tuple wrappers and single-definition locals of the enclosing functions."""
    if depth > 8 or expr is None:
        return None
    if isinstance(expr, ast.Call) and isinstance(expr.func, ast.Attribute) and expr.func.attr == "items" and not expr.args:
        return members_source(scope_fns, expr.func.value, depth + 1)
    if isinstance(expr, ast.Call) and call_name(expr) in ("dict", "sorted", "list", "tuple") and expr.args:
        return members_source(scope_fns, expr.args[0], depth + 1)
    if isinstance(expr, ast.Call) and norm(expr) in ("inspect.getmembers(cls)", "inspect.getmembers(type(self))"):
        return "all"
    if isinstance(expr, (ast.GeneratorExp, ast.ListComp, ast.DictComp)) and len(expr.generators) == 1:
        g = expr.generators[0]
        if isinstance(g.target, ast.Tuple) and len(g.target.elts) == 2 and all(isinstance(e, ast.Name) for e in g.target.elts):
            n, v = (e.id for e in g.target.elts)
            elt = (norm(expr.key), norm(expr.value)) if isinstance(expr, ast.DictComp) else \
                tuple(norm(e) for e in expr.elt.elts) if isinstance(expr.elt, ast.Tuple) and len(expr.elt.elts) == 2 else None
            inner = members_source(scope_fns, g.iter, depth + 1)
            if elt == (n, v) and inner == "all" and [norm(c) for c in g.ifs] == [f"{PRED}({n}, {v})"]:
                return "filtered"
            if elt == (n, v) and inner == "filtered" and not g.ifs:
                return "filtered"
        return None
    if isinstance(expr, ast.Name):
        for fn in scope_fns:
            defs = [a for a in ast.walk(fn) if isinstance(a, ast.Assign) and len(a.targets) == 1 and isinstance(a.targets[0], ast.Name)
                    and a.targets[0].id == expr.id]
            defs = list({id(x): x for x in defs}.values())
            if len(defs) == 1:
                return members_source(scope_fns, defs[0].value, depth + 1)
            if defs:
                return None
    return None


def bitfield_roles(vals):
    """the parts of tpm_bitfield by role: the decorator, the one place where an accessor object is installed for each mask
    (`setattr(cls, name, K(name, mask))` in a loop over the members), the accessor class K with its __init__ / __get__"""
    dec = vals.functions().get("tpm_bitfield.decorator")
    if dec is None:
        raise AnalysisError("model guard G5: tpm_bitfield.decorator not found")
    classes = {c.name: c for c in ast.walk(vals.tree) if isinstance(c, ast.ClassDef)}
    sets = []
    for lp in [n for n in ast.walk(dec) if isinstance(n, ast.For) and _owner(n) is dec]:
        if not (isinstance(lp.target, ast.Tuple) and len(lp.target.elts) == 2 and all(isinstance(e, ast.Name) for e in lp.target.elts)):
            continue
        ln, lv = (e.id for e in lp.target.elts)
        for c in ast.walk(lp):
            if isinstance(c, ast.Call) and call_name(c) == "setattr" and len(c.args) == 3 and norm(c.args[0]) == "cls" \
                    and norm(c.args[1]) == ln and isinstance(c.args[2], ast.Call) and call_name(c.args[2]) in classes:
                k = c.args[2]
                kw = {x.arg: norm(x.value) for x in k.keywords}
                pos = [norm(x) for x in k.args]
                # the accessor is built from the member's name and mask (and, possibly, the class it is installed on)
                given = pos + list(kw.values())
                if given.count(ln) == 1 and given.count(lv) == 1 and set(given) <= {ln, lv, "cls"} and None not in kw:
                    sets.append((lp, c, classes[call_name(k)], ln, lv))
    # second form: the accessors are built first - `objs = [K(.. name .. mask ..) for name, mask in <members> if <pred>]` - and
    # installed in a loop over them: `for o in objs: setattr(cls, o.<the attribute K keeps the name in>, o)`
    built = None
    if not sets:
        for lp in [n for n in ast.walk(dec) if isinstance(n, ast.For) and _owner(n) is dec and isinstance(n.target, ast.Name)
                   and isinstance(n.iter, ast.Name)]:
            o = lp.target.id
            defs = [a for a in ast.walk(dec) if isinstance(a, ast.Assign) and len(a.targets) == 1 and isinstance(a.targets[0], ast.Name)
                    and a.targets[0].id == lp.iter.id]
            if len(defs) != 1 or not isinstance(defs[0].value, ast.ListComp) or len(defs[0].value.generators) != 1:
                continue
            lc = defs[0].value
            g = lc.generators[0]
            if not (isinstance(g.target, ast.Tuple) and len(g.target.elts) == 2 and all(isinstance(e, ast.Name) for e in g.target.elts)
                    and isinstance(lc.elt, ast.Call) and call_name(lc.elt) in classes):
                continue
            ln, lv = (e.id for e in g.target.elts)
            k = lc.elt
            given = [norm(x) for x in k.args] + [norm(x.value) for x in k.keywords]
            if not (given.count(ln) == 1 and given.count(lv) == 1 and set(given) <= {ln, lv, "cls"} and all(x.arg for x in k.keywords)):
                continue
            kcls = classes[call_name(k)]
            init = next((m for m in kcls.body if isinstance(m, ast.FunctionDef) and m.name == "__init__"), None)
            if init is None:
                continue
            ipar = [a.arg for a in init.args.args][1:]
            bound = dict(zip(ipar, [norm(x) for x in k.args]))
            bound.update({x.arg: norm(x.value) for x in k.keywords})
            name_par = next((p_ for p_, v_ in bound.items() if v_ == ln), None)
            keeps = [t_.attr for st_ in init.body if isinstance(st_, ast.Assign) and isinstance(st_.value, ast.Name) and st_.value.id == name_par
                     for t_ in st_.targets if isinstance(t_, ast.Attribute) and isinstance(t_.value, ast.Name) and t_.value.id == init.args.args[0].arg]
            for c in ast.walk(lp):
                if isinstance(c, ast.Call) and call_name(c) == "setattr" and len(c.args) == 3 and norm(c.args[0]) == "cls" \
                        and norm(c.args[2]) == o and isinstance(c.args[1], ast.Attribute) and norm(c.args[1].value) == o and c.args[1].attr in keeps:
                    src_ = members_source([dec], g.iter)
                    guard_ = [norm(x) for x in g.ifs] == [f"{PRED}({ln}, {lv})"]
                    if (src_ == "filtered" and not g.ifs) or (src_ == "all" and guard_):
                        built = (lp, c, kcls, ln, lv, k)
    if built is not None:
        lp, call, kcls, ln, lv, k = built
        meth = {m.name: m for m in kcls.body if isinstance(m, ast.FunctionDef)}
        if "__get__" not in meth:
            raise AnalysisError("model guard G5: the accessor class of tpm_bitfield has no __get__")
        role = {ln: "name", lv: "mask", "cls": "cls"}
        return dict(dec=dec, loop=lp, install=call, accessor=kcls, init=meth.get("__init__"), get=meth["__get__"],
                    init_args=[role[norm(x)] for x in k.args], init_kwargs={x.arg: role[norm(x.value)] for x in k.keywords})
    if len(sets) != 1:
        raise AnalysisError("model guard G5: tpm_bitfield no longer installs one accessor(name, mask) for each public attribute")
    lp, call, kcls, ln, lv = sets[0]
    src = members_source([dec], lp.iter)
    guard = len(find(lp, f"{PRED}({ln}, {lv})")) == 1
    if not (src == "filtered" or (src == "all" and guard)):
        raise AnalysisError("model guard G5: tpm_bitfield member loop not recognised (the accessors must be installed for exactly the "
                            "public non-routine attributes)")
    meth = {m.name: m for m in kcls.body if isinstance(m, ast.FunctionDef)}
    if "__get__" not in meth:
        raise AnalysisError("model guard G5: the accessor class of tpm_bitfield has no __get__")
    k = call.args[2]
    role = {ln: "name", lv: "mask", "cls": "cls"}
    return dict(dec=dec, loop=lp, install=call, accessor=kcls, init=meth.get("__init__"), get=meth["__get__"],
                init_args=[role[norm(x)] for x in k.args], init_kwargs={x.arg: role[norm(x.value)] for x in k.keywords})


def check(run, project, L, rule="G"):
    vals = project.module(VALUES)
    # ---- G1 member discovery predicate: public and not routine
    f = _fn(vals, "_is_public_non_funtion_attr")
    rets = _returns(f)
    if len(rets) != 1 or len(f.args.args) != 2:
        raise AnalysisError("model guard G1: _is_public_non_funtion_attr has an unrecognised shape")
    a_name, a_attr = f.args.args[0].arg, f.args.args[1].arg
    r = rets[0].value
    ok = False
    if isinstance(r, ast.BoolOp) and isinstance(r.op, ast.And) and len(r.values) == 2:
        forms = {norm(v) for v in r.values}
        ok = forms == {f"not inspect.isroutine({a_attr})", f"not {a_name}.startswith('_')"}
    run.ob(rule, ok, "G1 member predicate = public and not routine",
           f"member-discovery predicate is `{norm(r)}`; the tables are written for 'public and not a routine'",
           module=vals, node=rets[0], func="_is_public_non_funtion_attr")

    # ---- G2 tpm_dataclass returns dataclass(cls, ...) of the same class, annotations untouched
    f = _fn(vals, "tpm_dataclass")
    p = f.args.args[0].arg
    calls = [c for c in ast.walk(f) if isinstance(c, ast.Call) and is_name(c.func, "dataclass")
             and c.args and is_name(c.args[0], p)]
    if len(calls) != 1:
        raise AnalysisError("model guard G2: tpm_dataclass no longer calls dataclass(cls, ...) exactly once")
    stmt = calls[0]._parent
    bound = stmt.targets[0].id if isinstance(stmt, ast.Assign) and isinstance(stmt.targets[0], ast.Name) else None
    rets = _returns(f)
    okret = all(is_name(r.value, bound) or r.value is calls[0] for r in rets) and rets
    touched = [n for n in ast.walk(f) if isinstance(n, (ast.Delete,)) or
               (isinstance(n, ast.Attribute) and n.attr == "__annotations__" and isinstance(n.ctx, (ast.Store, ast.Del)))
               or (isinstance(n, ast.Subscript) and isinstance(n.ctx, (ast.Store, ast.Del))
                   and isinstance(n.value, ast.Attribute) and n.value.attr == "__annotations__")]
    run.ob(rule, bool(okret) and not touched, "G2 tpm_dataclass = dataclass(cls) with untouched annotations",
           "tpm_dataclass no longer returns dataclass(cls, ...) of the decorated class with its annotations in body order",
           module=vals, node=f, func="tpm_dataclass")
    frozen = next((k.value for k in calls[0].keywords if k.arg == "frozen"), None)
    run.ob(rule, isinstance(frozen, ast.Constant) and frozen.value is True, "G2 dataclass frozen=True",
           "layout dataclasses must be frozen (decoded objects are immutable values)", module=vals, node=calls[0],
           func="tpm_dataclass")

    # ---- G3 tpm_enum: range -> NamedRange(cls, name, start, stop); else cls(value=, name=); _valid_values = ValidValues(cls)
    f = _fn(vals, "tpm_enum._tpm_enum")
    nr = [c for c in ast.walk(f) if isinstance(c, ast.Call) and is_name(c.func, "NamedRange") and _owner(c) is f]
    if len(nr) != 1:
        raise AnalysisError("model guard G3: tpm_enum no longer wraps ranges in exactly one NamedRange(...) call")
    loops = [n for n in ast.walk(f) if isinstance(n, ast.For) and _owner(n) is f
             and any(x is nr[0] for x in ast.walk(n))]
    if len(loops) != 1 or not isinstance(loops[0].target, ast.Tuple) or len(loops[0].target.elts) != 2:
        raise AnalysisError("model guard G3: member loop of tpm_enum not recognised")
    ln, lv = (e.id for e in loops[0].target.elts)
    if norm(loops[0].iter) != "inspect.getmembers(cls)":
        raise AnalysisError("model guard G3: tpm_enum members are no longer taken from inspect.getmembers(cls)")
    want = ["cls", ln, f"{lv}.start", f"{lv}.stop"]
    got = [norm(a) for a in nr[0].args] + [f"{k.arg}={norm(k.value)}" for k in nr[0].keywords]
    run.ob(rule, got == want, "G3 ranges wrapped as NamedRange(cls, name, start, stop)",
           f"named ranges are built as NamedRange({', '.join(got)}) - no longer the declared range",
           module=vals, node=nr[0], func="tpm_enum")
    # guarded by isinstance(attr_value, range)
    iff = nr[0]._parent
    while iff is not None and not isinstance(iff, ast.If):
        iff = iff._parent
    if iff is None or norm(iff.test) != f"isinstance({lv}, range)":
        raise AnalysisError("model guard G3: the NamedRange wrapping is no longer guarded by isinstance(value, range)")
    wraps = find(loops[0], f"cls(value={lv}, name={ln})")
    if len(wraps) != 1:
        raise AnalysisError("model guard G3: plain members are no longer wrapped as cls(value=..., name=...)")
    vv = find(f, "setattr(cls, '_valid_values', ValidValues(cls))")
    run.ob(rule, len(vv) == 1, "G3 enum _valid_values = ValidValues(cls)",
           "a tpm_enum's allowed set is no longer exactly its own members", module=vals, node=f, func="tpm_enum")
    # filter: falsy predicate -> member removed
    dl = [n for n in ast.walk(loops[0]) if isinstance(n, ast.Call) and is_name(n.func, "delattr")]
    fi = dl[0]._parent if dl else None
    while fi is not None and not isinstance(fi, ast.If):
        fi = fi._parent
    okf = fi is not None and norm(fi.test) == f"filter is not None and (not filter({ln}, {lv}))"
    if not dl:
        raise AnalysisError("model guard G3: tpm_enum filter no longer deletes members")
    run.ob(rule, okf, "G3 filter removes members whose predicate is falsy",
           f"filter condition is `{norm(fi.test) if fi is not None else '?'}`", module=vals, node=dl[0], func="tpm_enum")
    # the skip of non-members uses the G1 predicate
    skips = find(loops[0], f"_is_public_non_funtion_attr({ln}, {lv})")
    if len(skips) != 1:
        raise AnalysisError("model guard G3: member loop no longer uses _is_public_non_funtion_attr")

    # ---- G4 by_value: first member in iteration order that contains / equals the value
    f = _fn(vals, "tpm_enum._tpm_enum.by_value")
    from .. import paths
    from .outcomes import View, label
    c_, v = f.args.args[0].arg, f.args.args[1].arg
    ps = paths.summarise(vals, f)
    tails = [p for p in ps if not any(a_.startswith("loop@") for a_, _v, _ in p.cond)]
    # the search may live in a helper classmethod that answers None for "no member" and that by_value wraps:
    # `m = cls.H(value); if m is None: raise ValueError(); return m`
    wrapped = None
    if len(ps) == 2 and not any(k == "loop" for p in ps for k, _e, _n in p.effects):
        hs = {a_[:-len(" is None")] for p in ps for a_, _t, _ in p.cond if a_.endswith(" is None")}
        if len(hs) == 1:
            hcall = ast.parse(hs.pop(), mode="eval").body
            if isinstance(hcall, ast.Call) and isinstance(hcall.func, ast.Attribute) and norm(hcall.func.value) == c_ \
                    and [norm(a_) for a_ in hcall.args] == [v] and not hcall.keywords:
                A = f"{norm(hcall)} is None"
                hit = [p for p in ps if p.truth(A) is True]
                miss = [p for p in ps if p.truth(A) is False]
                if len(hit) == 1 and len(miss) == 1 and hit[0].end == "raise" and (call_name(hit[0].value) or "") == "ValueError" \
                        and miss[0].end == "return" and miss[0].value_text() == norm(hcall):
                    wrapped = vals.functions().get(f"tpm_enum._tpm_enum.{hcall.func.attr}")
    if wrapped is not None:
        f = wrapped
        c_, v = f.args.args[0].arg, f.args.args[1].arg
        ps = paths.summarise(vals, f)
        tails = [p for p in ps if not any(a_.startswith("loop@") for a_, _v, _ in p.cond)]
        if len(tails) != 1 or tails[0].end != "return" or tails[0].value_text() not in ("None", None):
            raise AnalysisError(f"model guard G4: {f.name} (the search behind by_value) does not answer None when no member matches")
    elif len(tails) != 1 or tails[0].end != "raise" or (call_name(tails[0].value) if tails[0].value is not None else None) != "ValueError":
        raise AnalysisError("model guard G4: by_value no longer raises ValueError when no member matches")
    lps = [(e, n) for k, e, n in tails[0].effects if k == "loop"]
    if len(lps) != 1 or paths.text(lps[0][0]) != c_ or not isinstance(lps[0][1].target, ast.Name) or \
            [k for k, _e, _n in tails[0].effects if k != "loop"]:
        raise AnalysisError("model guard G4: by_value does not iterate the class (and nothing else)")
    a = lps[0][1].target.id
    N, I = f"isinstance({a}, NamedRange)", f"{v} in {a}"
    its = tails[0].loops[id(lps[0][1])]
    atoms = {a_ for p in its for a_, _v, _ in p.cond}
    E = f"{a} == {v}" if f"{a} == {v}" in atoms else f"{v} == {a}"
    rows = [({N: True, I: True}, f"return {a}.by_number({v})"), ({E: True}, f"return {a}")]
    for p in its:
        # (a NamedRange is never equal to a number: dataclass equality with another class is False)
        want = paths.decide(rows, "next member", View(p), implies=[((N, True), (E, False))])
        got = f"return {p.value_text()}" if p.end == "return" else "next member" if p.end in ("fall", "continue") else p.end
        if not want:
            continue   # the path contradicts the implication: it cannot be taken
        if want != {got}:
            raise AnalysisError(f"model guard G4: by_value does `{got}` for a member with [{label(p)}], the model assumes "
                                f"{' or '.join(sorted(want))}")
    if len(its) < 3:
        raise AnalysisError("model guard G4: by_value has fewer than three member outcomes")
    run.ob(rule, True, "G4 by_value = first member (getmembers order) containing/equal to the value")

    # ---- G5 tpm_bitfield: masks are the public non-routine attributes, Bit.__get__ masks the value
    bitfield_roles(vals)
    run.ob(rule, True, "G5 bit-field masks = public non-routine attributes")

    # ---- G6 ValidValues membership: get() is not None; get returns member/int
    cls = vals.classes().get("ValidValues")
    if cls is None:
        raise AnalysisError("model guard G6: class ValidValues not found")
    run.ob(rule, True, "G6 ValidValues located (semantics checked by C04-V4)")

    # ---- G7 primitives: _INT._signed True, _UINT._signed False
    base = project.module(BASE)
    cl = base.classes()
    for cname, want in (("_INT", True), ("_UINT", False)):
        c = cl.get(cname)
        if c is None:
            raise AnalysisError(f"model guard G7: class {cname} not found")
        val = [s.value for s in c.body if isinstance(s, ast.Assign) and is_name(s.targets[0], "_signed")] + \
            [s.value for s in c.body if isinstance(s, ast.AnnAssign) and s.value is not None and is_name(s.target, "_signed")]
        ok = len(val) == 1 and isinstance(val[0], ast.Constant) and val[0].value is want
        run.ob(rule, ok, f"G7 {cname}._signed is {want}",
               f"{cname}._signed = {norm(val[0]) if val else 'missing'}: the signedness every primitive inherits changed",
               module=base, node=c, func=cname)
    uint = cl.get("_UINT")
    run.ob(rule, [norm(b) for b in uint.bases] == ["_INT"], "G7 _UINT derives _INT", "_UINT no longer derives _INT",
           module=base, node=uint, func="_UINT")
