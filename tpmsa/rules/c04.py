"""C04 - strict mode rejects exactly the inputs containing an out-of-range value.

V1 check-before-emit: in the primitive walker every path to the field's event passes the
   `is_valid()` test, the error is built from that outcome and the strict raise cannot follow
   the event (no event for the offending field).
V2 the error carries the field's path, declared type, the raw integer and the type's valid set.
V3 single conversion site: wire bytes are turned into integers / typed values only in the
   primitive walker (nothing else can mint an unvalidated primitive).
V4 validity is membership: _INT.is_valid -> `_value in _valid_values`; ValidValues.__contains__
   -> `get(...) is not None`; get() returns a non-None hit for every member kind.
V5 table side: the valid-value facets of the pinned snapshot (every enumeration, handle range,
   interface subset incl. the AlgType filters, TPM_CC).
V6 unknown command code: the KeyError of the area-table lookup is converted into
   ValueConstraintViolatedError with ValidValues(TPM_CC), path <root>.commandCode.
Not decided: the iff over concrete values; 'first offending field' follows from C01-W4 ordering.
"""
from __future__ import annotations

import ast

from .. import ctx, paths
from ..flow import yields_in
from ..fnview import FnView
from ..pattern import find, match
from ..project import AnalysisError, call_name, kwarg, norm, walk_no_nested
from ..roles import CONSTRAINTS, MARSHAL, MarshalRoles
from . import c20, guards

VALUES = "tpmstream.spec.common.values"
BASE = "tpmstream.spec.common.base_type"
VERR = "ValueConstraintViolatedError"


def check(run, project):
    roles = MarshalRoles(project)
    L = ctx.layout(project)
    run.explanation = ("CFG dominance / def-use in the primitive walker, who-may-convert rule over the decode core, "
                       "structural check of the membership chain, pinned valid-value tables from E1")
    from .carriers import check_carriers
    check_carriers(run, project, "V6", {"constraint", "value"})
    guards.check(run, project, L)
    v1_v2(run, roles)
    from .c02 import primitive_event_once
    primitive_event_once(run, roles, "V1")
    v3(run, project, roles)
    v4(run, project)
    # V7 (= C15-F1): strict mode is the decoder's default through every front-end (a front-end that spells the mode flag out
    # uses the decoder's default and hands the flag on)
    from ..report import RuleView
    from . import c15
    c15.f1_f2(RuleView(run, "F1", "V7"), project)
    # V9: ... and through Canonical (bytes in, object out)
    from .shared import canonical_mode_default
    canonical_mode_default(run, project, "V9", "an out-of-range value is reported as a warning event instead of being rejected")
    c20.t6(run, project, L, facets={"valid", "naming"}, rule="V5")
    # V8 (= C01-W0): WHICH allowed set a field is checked against is decided by the type the layout declares for it: the
    # decode facets (field names, order and declared types, selector maps) of all types equal the pinned snapshot
    c20.t6(run, project, L, facets={"decode"}, rule="V8")
    v6(run, project, roles, L)
    run.floor("V5", 700, "pinned types")


def primitive_view(roles):
    prim = roles.walkers.get("process_primitive")
    if prim is None:
        raise AnalysisError("C04: primitive walker not found")
    return FnView(roles.mod, prim)


def find_event_yield(V):
    """the yield of the field's MarshalEvent (directly or through a local)."""
    outs = []
    for y in V.yields():
        if not isinstance(y, ast.Yield) or y.value is None:
            continue
        e = V.resolve(y.value, y)
        if isinstance(e, ast.Call) and call_name(e) == "MarshalEvent":
            outs.append((y, e))
    return outs


def v1_v2(run, roles):
    V = primitive_view(roles)
    mod, fn = V.mod, V.fn
    evs = find_event_yield(V)
    if not evs:
        raise AnalysisError("C04: no MarshalEvent yield in the primitive walker")
    # the is_valid() test(s)
    tests = [n for n in V.cfg.nodes if n.kind == "test" and any(
        isinstance(c, ast.Call) and isinstance(c.func, ast.Attribute) and c.func.attr == "is_valid" for c in ast.walk(n.ast))]
    run.ob("V1", len(tests) >= 1, "primitive walker tests is_valid()", "no `is_valid()` test left in the primitive walker",
           module=mod, node=fn, func=fn.name, construct="is_valid() test")
    if not tests:
        return
    t = tests[0]
    isv = [c for c in ast.walk(t.ast) if isinstance(c, ast.Call) and isinstance(c.func, ast.Attribute) and c.func.attr == "is_valid"][0]
    recv = isv.func.value
    for y, ev_call in evs:
        ynode = V.node_of(y)
        run.ob("V1", any(tt.id in V.dom[ynode.id] for tt in tests), f"validity test dominates the event at L{y.lineno}",
               "some path reaches the field's event without passing the is_valid() test", module=mod, node=y, func=fn.name,
               construct="event yield [dominated by validity test]")
        # the receiver of is_valid is the typed value that the event carries
        ev_val = ev_call.args[2] if len(ev_call.args) >= 3 else kwarg(ev_call, "value")
        run.ob("V1", ev_val is not None and norm(recv) == norm(ev_val), f"validity is tested on the value the event at L{y.lineno} carries",
               f"is_valid() is called on `{norm(recv)}` but the event carries `{norm(ev_val) if ev_val is not None else None}`",
               module=mod, node=ev_call, func=fn.name, construct="is_valid receiver vs event value")
    y, ev_call = evs[0]
    # invalid branch: builds the error; strict raise precedes the event
    neg = isinstance(t.ast, ast.UnaryOp) and isinstance(t.ast.op, ast.Not)
    branch = "true" if neg else "false"
    builds = [c for c in V.calls(name=VERR)]
    run.ob("V1", len(builds) == 1, "one ValueConstraintViolatedError construction in the primitive walker",
           f"{len(builds)} constructions", module=mod, node=fn, func=fn.name, construct=VERR + " construction")
    if len(builds) != 1:
        return
    b = builds[0]
    bnode = V.node_of(b)
    # outcome per (valid?, strict?) on the path summaries of the walker: an invalid value in strict mode raises the
    # constructed error before any event of the field; the error is raised / wrapped on no other path
    from .. import paths
    VALID = f"{norm(recv)}.is_valid()"
    n_strict = 0
    for p in paths.summarise(mod, fn):
        if p.end == "raise" and p.value is not None and norm(p.value) == "AssertionError":
            continue
        # the receiver may be expanded: find the is_valid atom
        va = [(a_, v_) for a_, v_, _ in p.cond if a_.endswith(".is_valid()")]
        valid = va[0][1] if va else None
        strict = p.truth("truthy abort_on_error")
        lab = " & ".join(("" if v_ else "not ") + a_[-40:] for a_, v_, _ in p.cond if "is_valid" in a_ or "abort_on_error" in a_) or "always"
        evs_before = [e for k, e, _ in p.effects if k == "yield" and e is not None and isinstance(e, ast.Call) and call_name(e) == "MarshalEvent"]
        warns = [e for k, e, _ in p.effects if k == "yield" and e is not None and isinstance(e, ast.Call) and call_name(e) == "WarningEvent"]
        raised_verr = p.end == "raise" and p.value is not None and isinstance(p.value, ast.Call) and call_name(p.value) == VERR
        if raised_verr:
            n_strict += 1
            run.ob("V1", valid is False and strict is True, "the error is raised exactly for an invalid value in strict mode",
                   f"ValueConstraintViolatedError is raised on the path [{lab}] (not under the `not is_valid()` outcome in strict mode)",
                   module=mod, node=p.node or b, func=fn.name, construct=VERR + " [branch]")
            run.ob("V1", not evs_before, "no event of the offending field precedes the strict raise",
                   "a raise is reachable after the event of the field was emitted (strict mode would emit an event for the offending "
                   "field)", module=mod, node=p.node or b, func=fn.name, construct="raise after event")
        elif valid is False and strict is True:
            run.ob("V1", False, "an invalid value in strict mode raises", f"no raise of the constructed error on the invalid branch: "
                   f"the path [{lab}] ends with {p.end} {p.value_text()}", module=mod, node=p.node or b, func=fn.name,
                   construct=VERR + " [raise]")
        elif p.end == "raise":
            run.ob("V1", not evs_before, f"no raise follows the field's event [{lab}]",
                   f"on the path [{lab}] a raise follows the event of the field (strict mode would emit an event for the offending field)",
                   module=mod, node=p.node or fn, func=fn.name, construct="raise after event")
        if valid is True:
            run.ob("V1", not warns and not raised_verr, "a valid value is neither warned about nor rejected",
                   f"a valid value gets {len(warns)} warning(s) on the path [{lab}]", module=mod, node=p.node or fn, func=fn.name,
                   construct=VERR + " [branch]")
        if valid is False and strict is False and p.end == "return":
            okw = len(warns) == 1 and isinstance(kwarg(warns[0], "error"), ast.Call) and call_name(kwarg(warns[0], "error")) == VERR
            run.ob("V1", okw, "an invalid value in warn mode is reported by exactly one warning wrapping the same error",
                   f"warn mode reports an invalid value with {[paths.text(w) for w in warns]}", module=mod, node=p.node or fn,
                   func=fn.name, construct=VERR + " [warn]")
    run.ob("V1", n_strict >= 1, "strict raise follows the construction of the error",
           "no raise of the constructed error on the invalid branch", module=mod, node=b, func=fn.name, construct=VERR + " [raise]")
    # (a raise after the field's event is judged per feasible path above: a raise statement that only infeasible paths reach -
    # the mode test repeated inside a shared report helper - is not a raise after the event)
    # V2 contents
    cons = kwarg(b, "constraint") or (b.args[0] if b.args else None)
    val = kwarg(b, "value") or (b.args[1] if len(b.args) > 1 else None)
    c_expr = V.resolve(cons, b) if cons is not None else None
    okc = isinstance(c_expr, ast.Call) and call_name(c_expr) == "ValueConstraint"
    tparam, pparam = fn.args.args[0].arg, fn.args.args[1].arg
    if okc:
        cp = kwarg(c_expr, "constraint_path") or (c_expr.args[0] if c_expr.args else None)
        ct = kwarg(c_expr, "tpm_type") or (c_expr.args[1] if len(c_expr.args) > 1 else None)
        cv = kwarg(c_expr, "valid_values") or (c_expr.args[2] if len(c_expr.args) > 2 else None)
        run.ob("V2", norm(cp) == pparam, "error names the field's path", f"constraint_path is `{norm(cp)}`", module=mod,
               node=c_expr, func=fn.name, construct="ValueConstraint.constraint_path")
        run.ob("V2", norm(ct) == tparam, "error names the declared type", f"tpm_type is `{norm(ct)}`", module=mod,
               node=c_expr, func=fn.name, construct="ValueConstraint.tpm_type")
        okv = cv is not None and norm(cv) in (f"{norm(recv)}._valid_values", f"{tparam}._valid_values")
        run.ob("V2", okv, "error carries the type's allowed set", f"valid_values is `{norm(cv) if cv is not None else None}`",
               module=mod, node=c_expr, func=fn.name, construct="ValueConstraint.valid_values")
    else:
        run.ob("V2", False, "error constraint is a ValueConstraint", f"constraint is `{norm(cons) if cons is not None else None}`",
               module=mod, node=b, func=fn.name, construct=VERR + ".constraint")
    # the raw integer: result of int.from_bytes (or the typed value built from it)
    v_expr = V.resolve(val, b) if val is not None else None
    from .c02 import reader_triple
    RT = reader_triple(run, roles, emit=False)
    okraw = val is not None and (RT["is_decoded"](val, b) or (
        isinstance(v_expr, ast.Call) and norm(v_expr.func) == tparam and len(v_expr.args) == 1 and RT["is_decoded"](v_expr.args[0], b)))
    run.ob("V2", okraw, "error carries the offending integer", f"value is `{norm(val) if val is not None else None}`",
           module=mod, node=b, func=fn.name, construct=VERR + ".value")


def v3(run, project, roles):
    n = 0
    for modname in (MARSHAL, CONSTRAINTS, "tpmstream.spec.commands.params_common", "tpmstream.common.object"):
        mod = project.module(modname)
        for q, fn in mod.functions().items():
            for c in walk_no_nested(fn):
                if isinstance(c, ast.Call) and norm(c.func) in ("int.from_bytes", "struct.unpack", "struct.unpack_from"):
                    n += 1
                    run.ob("V3", modname == MARSHAL and q == "process_primitive",
                           f"{q} L{c.lineno}: byte->integer conversion site",
                           f"wire bytes are converted to an integer in {q}, outside the validating primitive walker",
                           module=mod, node=c, func=q, construct=norm(c)[:100])
    from .c02 import reader_triple
    run.require(n >= 1 or reader_triple(run, roles, emit=False).get("manual"), "C04: no byte->integer conversion site found")
    # only the primitive walker receives bytes from the pump: byte requests (`yield None`) elsewhere
    # hand raw bytes to code that does not validate them
    mod = roles.mod
    for name, fn in roles.funcs.items():
        for y in walk_no_nested(fn):
            if isinstance(y, ast.Yield) and (y.value is None or (isinstance(y.value, ast.Constant) and y.value.value is None)):
                ok = name in ("process_primitive", "consume_bytes")
                run.ob("V3", ok, f"{name} L{y.lineno}: byte request", f"{name} requests raw input bytes itself: they reach "
                       "no validity check", module=mod, node=y, func=name, construct=f"byte request in {name}")


def v4(run, project):
    base = project.module(BASE)
    vals = project.module(VALUES)
    f = base.functions().get("_INT.is_valid")
    if f is None:
        raise AnalysisError("C04: _INT.is_valid not found")
    rets = [s for s in walk_no_nested(f) if isinstance(s, ast.Return)]
    bad = [r for r in rets if r.value is None or match(r.value, "self._value in self._valid_values") is None]
    ok = bool(rets) and not bad
    run.ob("V4", ok, "_INT.is_valid is membership of the value in the type's allowed set on every path",
           f"is_valid has a path returning `{norm(bad[0].value) if bad and bad[0].value is not None else None}`: on that path a value is "
           "reported valid/invalid without consulting the declared set" if bad else "is_valid has no return", module=base,
           node=bad[0] if bad else f, func="_INT.is_valid", construct="_INT.is_valid returns")
    # no subclass overrides is_valid
    for modname, mod in project.modules.items():
        if not modname.startswith("tpmstream.spec"):
            continue
        for q, fn in mod.functions().items():
            if q.endswith(".is_valid") and q != "_INT.is_valid":
                run.ob("V4", False, f"{q} overrides is_valid", "a type overrides is_valid(): its validity is no longer "
                       "membership in the declared set", module=mod, node=fn, func=q)
    c = vals.functions().get("ValidValues.__contains__")
    g = vals.functions().get("ValidValues.get")
    if c is None or g is None:
        raise AnalysisError("C04: ValidValues.__contains__/get not found")
    from .outcomes import check_table, label, stores
    p = c.args.args[1].arg
    n = check_table(run, "V4", vals, c, "ValidValues.__contains__", [({f"self.get({p}) is None": False}, "True")], lambda q: q.value_text(),
                    "False", "ValidValues.__contains__ is `get(value) is not None`", "ValidValues.__contains__", predicate=True)
    run.require(n >= 2, "C04: ValidValues.__contains__ has no two outcomes")
    valid_values_get(run, "V4", vals, g)
    from . import namedrange
    namedrange.check(run, "V4", vals)
    cc = vals.functions().get("tpm_enum._tpm_enum.class_contains")
    if cc is None:
        raise AnalysisError("C04: tpm_enum.class_contains not found")
    vv = cc.args.args[1].arg
    # a scan of the members - `any(P(m) for m in cls)` or `for m in cls: if P(m): return True ... return False` - whose
    # predicate P is "equal to the member, or the member is a container (guard first) that contains the value"; any other
    # way of answering (an index, a cached set ...) is not followed by the model: analysis error, not a verdict
    body = [s_ for s_ in cc.body if not (isinstance(s_, ast.Expr) and isinstance(s_.value, ast.Constant))]
    pred = var = src = None
    if len(body) == 1 and isinstance(body[0], ast.Return) and isinstance(body[0].value, ast.Call) and call_name(body[0].value) == "any" \
            and len(body[0].value.args) == 1 and isinstance(body[0].value.args[0], (ast.GeneratorExp, ast.ListComp)) \
            and len(body[0].value.args[0].generators) == 1 and not body[0].value.args[0].generators[0].ifs \
            and isinstance(body[0].value.args[0].generators[0].target, ast.Name):
        g_ = body[0].value.args[0]
        pred, var, src = g_.elt, g_.generators[0].target.id, g_.generators[0].iter
    elif len(body) == 2 and isinstance(body[0], ast.For) and isinstance(body[0].target, ast.Name) and not body[0].orelse \
            and len(body[0].body) == 1 and isinstance(body[0].body[0], ast.If) and not body[0].body[0].orelse \
            and [norm(x) for x in body[0].body[0].body] == ["return True"] and norm(body[1]) == "return False":
        pred, var, src = body[0].body[0].test, body[0].target.id, body[0].iter
    if pred is None or norm(src) not in ("cls", "iter(cls)", "cls.class_iter()"):
        raise AnalysisError("C04: the membership test of tpm_enum (class_contains) is not a scan of the enum's members: an indexed or cached "
                            "lookup is a rewrite of what the layout model (E1) mirrors and is not followed - DESIGN section 7")
    eqs = (f"{vv} == {var}", f"{var} == {vv}")
    conts = (f"hasattr({var}, '__contains__') and {vv} in {var}", f"isinstance({var}, NamedRange) and {vv} in {var}")
    ds = [norm(x) for x in pred.values] if isinstance(pred, ast.BoolOp) and isinstance(pred.op, ast.Or) else [norm(pred)]
    ok = len(ds) == 2 and ((ds[0] in eqs and ds[1] in conts) or (ds[1] in eqs and ds[0] in conts))
    run.ob("V4", ok, "enum class membership = equality with or containment in a member",
           f"class_contains decides per member with `{norm(pred)}`", module=vals, node=cc, func="tpm_enum.class_contains")


def valid_values_get(run, rule, vals, g):
    """ValidValues.get(value): the items of the set are examined in order; a container item (has __contains__) that contains
    the value answers with the value's representation in it (the value itself for a range, the named member for a NamedRange,
    the enum member for an enum class), a scalar item equal to the value answers with the item, anything else goes on to
    the next item; when no item answers the result is None.  Decided per iteration path of the item loop."""
    from .outcomes import View, label
    val = g.args.args[1].arg
    ps = paths.summarise(vals, g)
    outside = [p for p in ps if not any(a.startswith("loop@") for a, _v, _ in p.cond)]
    tails = [p for p in outside if any(k == "loop" for k, _e, _n in p.effects)]
    early = [p for p in outside if p not in tails]
    run.ob(rule, not early, "get(): nothing is decided before the items are examined",
           f"get() has a path [{label(early[0]) if early else ''}] that ends ({early[0].end if early else ''}) before the item loop: a "
           "value can be accepted / rejected without consulting the set (prologue)", module=vals, node=(early[0].node if early else None) or g,
           func="ValidValues.get", construct="get prologue")
    ok = len(tails) == 1 and tails[0].end in ("return", "fall") and (tails[0].value is None or tails[0].value_text() == "None")
    run.ob(rule, ok, "get(): a miss returns None", "a miss no longer returns None (non-member reported valid)" if tails else
           "get() has no path that leaves the item loop normally", module=vals, node=g, func="ValidValues.get", construct="get miss")
    if not tails:
        return
    t = tails[0]
    loops = [(e, n) for k, e, n in t.effects if k == "loop"]
    others = [k for k, e, n in t.effects if k not in ("loop",)]
    ok = len(loops) == 1 and paths.text(loops[0][0]) == "self._values" and not others
    run.ob(rule, ok, "get(): exactly the items of the set are examined, nothing is decided before or after",
           f"get() iterates {[paths.text(e) for e, _ in loops]} with other effects {others} (a value can be accepted / rejected "
           "without consulting the set)", module=vals, node=g, func="ValidValues.get", construct="get item loop")
    if len(loops) != 1:
        return
    lp = loops[0][1]
    v = lp.target.id if isinstance(lp.target, ast.Name) else None
    run.require(v is not None, "C04: the item loop of ValidValues.get does not bind a plain name")
    H, I, E = f"hasattr({v}, '__contains__')", f"{val} in {v}", f"{v} == {val}"
    R, N = f"isinstance({v}, range)", f"isinstance({v}, NamedRange)"
    its = t.loops[id(lp)]
    atoms = {a for p in its for a, _v, _ in p.cond}
    if E not in atoms and f"{val} == {v}" in atoms:
        E = f"{val} == {v}"
    rows = [({H: True, I: True, R: True}, f"return {val}"),
            ({H: True, I: True, R: False, N: True}, f"return {v}.by_number({val})"),
            ({H: True, I: True, R: False, N: False}, f"return {v}({val})"),
            ({E: True}, f"return {v}"),
            ]
    # the containers of a valid set are ranges, NamedRanges and enum classes: none of them compares equal to a number
    # ... and ranges / NamedRanges are containers
    implies = [((H, True), (E, False)), ((R, True), (H, True)), ((N, True), (H, True))]
    n = 0
    for p in its:
        want = paths.decide(rows, "next item", View(p), implies)
        if not want:
            continue
        got = f"return {p.value_text()}" if p.end == "return" else "next item" if p.end in ("fall", "continue") else p.end
        n += 1
        run.ob(rule, want == {got}, f"get() item [{label(p)}]: {got}",
               f"for an item with [{label(p)}] get() does `{got}`, required: {' or '.join(sorted(want))}: "
               + ("a member is reported invalid / a non-member valid, or the wrong representation is returned"), module=vals,
               node=p.node or lp, func="ValidValues.get", construct="get item decision")
    run.require(n >= 5, f"C04: only {n} item paths in ValidValues.get")


def named_range_contains(run, rule, vals):
    """NamedRange.__contains__(item) is true exactly for start <= item < end"""
    from .outcomes import check_table
    nc = vals.functions().get("NamedRange.__contains__")
    if nc is None:
        raise AnalysisError("C04: NamedRange.__contains__ not found")
    it = nc.args.args[1].arg
    S = paths.Summariser(vals, nc, predicate=True)
    ps = S.paths()
    atoms = {a for p in ps for a, _v, _ in p.cond}
    rng = f"{it} in range(self._start, self._end)"
    rows = [({rng: True}, "True")] if rng in atoms else [({f"{it} < self._start": False, f"{it} < self._end": True}, "True")]
    n = check_table(run, rule, vals, nc, "NamedRange.__contains__", rows, lambda q: q.value_text(), "False",
                    "NamedRange.__contains__ is half-open [start, end)", "NamedRange.__contains__", ps=ps)
    run.require(n >= 2, "C04: NamedRange.__contains__ has no two outcomes")


def v6_union(run, roles, rule="V6"):
    """the value error of the union walker (a selector that selects no member): it carries the selector itself, declares the
    selector's own type and points at the union's path - on every path that raises it (path summaries)"""
    from .. import paths
    fn = roles.walkers.get("process_tpmu")
    if fn is None:
        raise AnalysisError("C04: union walker not found")
    mod = roles.mod
    params = [a.arg for a in fn.args.args]
    if len(params) < 3:
        raise AnalysisError("C04: union walker no longer takes (tpm_type, path, selector, ...)")
    pth, sel = params[1], params[2]
    n = 0
    for p in paths.summarise(mod, fn):
        v = p.value
        if not (p.end == "raise" and isinstance(v, ast.Call) and call_name(v) == VERR):
            continue
        n += 1
        val = kwarg(v, "value") or (v.args[1] if len(v.args) > 1 else None)
        run.ob(rule, val is not None and paths.text(val) == sel, "union walker: the error carries the selector value",
               f"the ValueConstraintViolatedError of the union walker carries `{paths.text(val) if val is not None else None}` as its value, not "
               f"the selector `{sel}` that selected no member (the error reports another object - its text form / comparison with the "
               "allowed set then fail or mislead)", module=mod, node=p.node or fn, func=fn.name, construct=VERR + ".value [union selector]")
        cons = kwarg(v, "constraint") or (v.args[0] if v.args else None)
        if isinstance(cons, ast.Call) and call_name(cons) == "ValueConstraint":
            tt, cp = kwarg(cons, "tpm_type"), kwarg(cons, "constraint_path")
            run.ob(rule, tt is not None and paths.text(tt) == f"type({sel})", "union walker: declared type is the selector's type",
                   f"tpm_type is `{paths.text(tt) if tt is not None else None}`", module=mod, node=p.node or fn, func=fn.name,
                   construct="ValueConstraint.tpm_type [union selector]")
            run.ob(rule, cp is not None and paths.text(cp) == pth, "union walker: the error points at the union's path",
                   f"constraint_path is `{paths.text(cp) if cp is not None else None}`", module=mod, node=p.node or fn, func=fn.name,
                   construct="ValueConstraint.constraint_path [union selector]")
    if not n:
        run.info(f"{rule}: no path of the union walker raises a value error itself (delegated to a helper?); its details are not judged here")


def v6(run, project, roles, L):
    v6_union(run, roles)
    fn = roles.walkers.get("process_command")
    if fn is None:
        raise AnalysisError("C04: command walker not found")
    mod = roles.mod
    builds = [c for c in walk_no_nested(fn) if isinstance(c, ast.Call) and call_name(c) == VERR]
    run.ob("V6", len(builds) == 1, "command walker converts the failed area lookup into a value error",
           f"{len(builds)} ValueConstraintViolatedError constructions in the command walker", module=mod, node=fn,
           func=fn.name, construct=VERR + " in process_command")
    if len(builds) != 1:
        return
    b = builds[0]
    h = b
    while h is not None and not isinstance(h, ast.ExceptHandler):
        h = getattr(h, "_parent", None)
    okh = h is not None and h.type is not None and norm(h.type) == "KeyError"
    run.ob("V6", okh, "conversion happens in the KeyError handler of the table lookup", "not inside `except KeyError`",
           module=mod, node=b, func=fn.name, construct=VERR + " [handler]")
    if not okh:
        return
    tr = h._parent
    look = [s for s in tr.body if isinstance(s, ast.Assign) and isinstance(s.value, ast.Subscript)]
    run.ob("V6", len(look) == 1 and len(tr.body) == 1, "the try block holds only the table lookup",
           "the KeyError handler covers more than the area-table lookup", module=mod, node=tr, func=fn.name,
           construct="try: <table lookup>")
    raised = isinstance(b._parent, ast.Raise)
    run.ob("V6", raised, "the value error is raised in both modes (layout unknowable)", "the converted error is not raised",
           module=mod, node=b, func=fn.name, construct=VERR + " [raise]")
    V = FnView(mod, fn)
    cons = kwarg(b, "constraint") or (b.args[0] if b.args else None)
    ce = V.resolve(cons, b)
    okc = isinstance(ce, ast.Call) and call_name(ce) == "ValueConstraint"
    if okc:
        vv = kwarg(ce, "valid_values")
        run.ob("V6", vv is not None and norm(vv) == f"ValidValues({L.TPM_CC.name})", "allowed set is ValidValues(TPM_CC)",
               f"valid_values is `{norm(vv) if vv is not None else None}`", module=mod, node=ce, func=fn.name,
               construct="ValueConstraint.valid_values [command code]")
        cp = kwarg(ce, "constraint_path")
        sel = None
        if look:
            idx = look[0].value.slice
            sel = V.resolve(idx, look[0])
        okp = cp is not None and match(cp, "M_p + PathNode(M_s)") is not None or (cp is not None and match(cp, "M_p / PathNode(M_s)") is not None)
        run.ob("V6", okp and norm(cp).startswith(fn.args.args[0].arg), "path is <root>/<selector field>",
               f"constraint_path is `{norm(cp) if cp is not None else None}`", module=mod, node=ce, func=fn.name,
               construct="ValueConstraint.constraint_path [command code]")
        # declared type: the type of the selector field (the field whose name the path ends with), read from the layout
        tt = kwarg(ce, "tpm_type")
        tv = V.resolve(tt, ce) if tt is not None else None
        ms = match(cp, "M_p + PathNode(M_s)") or match(cp, "M_p / PathNode(M_s)") if cp is not None else None
        sname = norm(ms["M_s"]) if ms else None
        okt = False
        if tv is not None and sname is not None:
            for pat in ("next((M_f.type for M_f in fields(M_t) if M_f.name == M_s))", "next((M_f.type for M_f in fields(M_t) if M_s == M_f.name))",
                        "{M_f.name: M_f.type for M_f in fields(M_t)}[M_s]", "type(values[M_s])"):
                m_ = match(tv, pat)
                if m_ is not None and norm(m_["M_s"]) == sname and ("M_t" not in m_ or norm(V.resolve(m_["M_t"], ce)) == "Command"):
                    okt = True
            if norm(tv) == L.TPM_CC.name:
                okt = True
        run.ob("V6", okt, "declared type is the selector field's type",
               f"tpm_type is `{norm(tv) if tv is not None else None}`: not the declared type of the field `{sname}` the error points at "
               "(the error names a wrong type, or the name is unbound and the conversion itself fails)", module=mod, node=ce, func=fn.name,
               construct="ValueConstraint.tpm_type [command code]")
    else:
        run.ob("V6", False, "constraint is a ValueConstraint", "constraint not recognised", module=mod, node=b, func=fn.name,
               construct=VERR + ".constraint [command code]")
    val = kwarg(b, "value")
    if look:
        run.ob("V6", val is not None and norm(val) == norm(look[0].value.slice), "the error carries the looked-up command code",
               f"value is `{norm(val) if val is not None else None}` but the lookup key is `{norm(look[0].value.slice)}`",
               module=mod, node=b, func=fn.name, construct=VERR + ".value [command code]")
