"""Rules shared by several properties."""
from __future__ import annotations

import ast

from ..project import call_name, norm, walk_no_nested
from ..roles import CONSTRAINTS, MARSHAL


def discarded_generators(run, project, rule, modules=(MARSHAL, CONSTRAINTS, "tpmstream.common.event")):
    """In the decode core every step is a generator that the caller has to run (`yield from`, iteration, send).  A call of a
    generator function whose result is thrown away - an expression statement - creates the generator and never runs it:
    the charge / close / skip / decode it stands for silently does not happen.  Generator functions are the functions and
    methods of the core modules that contain a yield; a method call is resolved by its name when every definition of that
    name in the core is a generator."""
    gens, plain = set(), set()
    mods = [project.modules[m] for m in modules if m in project.modules]
    for m in mods:
        for q, fn in m.functions().items():
            is_gen = any(isinstance(n, (ast.Yield, ast.YieldFrom)) for n in walk_no_nested(fn))
            (gens if is_gen else plain).add(q.split(".")[-1])
    names = gens - plain
    n = 0
    for m in mods:
        for q, fn in m.functions().items():
            for st in walk_no_nested(fn):
                if isinstance(st, ast.Expr) and isinstance(st.value, ast.Call):
                    c = st.value
                    nm = c.func.attr if isinstance(c.func, ast.Attribute) else c.func.id if isinstance(c.func, ast.Name) else None
                    if nm in names:
                        n += 1
                        run.ob(rule, False, f"{q}: result of generator {nm}() is used",
                               f"`{norm(c)[:80]}` creates the generator `{nm}` and discards it (no `yield from`, no iteration): what it "
                               "stands for - a charge, a close, a skip of padding, a nested decode - never happens", module=m, node=st,
                               func=q, construct=f"discarded generator {nm}()")
    run.ob(rule, True, f"no generator of the decode core is created and discarded ({len(names)} generator names, {n} discarded)")


def call_signatures(run, project, rule, modules=(MARSHAL, CONSTRAINTS, "tpmstream.common.error", "tpmstream.common.event")):
    """A call that leaves out a required parameter, names a parameter that does not exist or passes too many positional
    arguments fails with TypeError - an internal error, not a documented outcome.  Checked for the calls in the decode core whose
    callee is a function or a class (its __init__) of the project with a name that is unique in the project; calls with
    * / ** arguments are skipped (their arity is not visible)."""
    funcs, classes = {}, {}
    for mname, m in project.modules.items():
        for st in m.tree.body:
            if isinstance(st, ast.FunctionDef):
                funcs.setdefault(st.name, []).append((m, st))
            elif isinstance(st, ast.ClassDef):
                classes.setdefault(st.name, []).append((m, st))

    def init_of(cdef, m, depth=0):
        for x in cdef.body:
            if isinstance(x, ast.FunctionDef) and x.name == "__init__":
                return x
        if depth < 4:
            for b in cdef.bases:
                bn = norm(b).split(".")[-1]
                if len(classes.get(bn, ())) == 1:
                    r = init_of(classes[bn][0][1], classes[bn][0][0], depth + 1)
                    if r is not None:
                        return r
                elif bn not in classes:
                    return "external"
        return None
    n = 0
    for mname in modules:
        m = project.modules.get(mname)
        if m is None:
            continue
        for q, fn in m.functions().items():
            for c in walk_no_nested(fn):
                if not (isinstance(c, ast.Call) and isinstance(c.func, ast.Name)):
                    continue
                if any(isinstance(a, ast.Starred) for a in c.args) or any(k.arg is None for k in c.keywords):
                    continue
                name = c.func.id
                target, skip_self = None, 0
                if len(funcs.get(name, ())) == 1 and name not in classes:
                    target = funcs[name][0][1]
                elif len(classes.get(name, ())) == 1 and name not in funcs:
                    cdef = classes[name][0][1]
                    if any(norm(d).split(".")[-1].startswith(("dataclass", "tpm_")) for d in cdef.decorator_list):
                        continue  # generated constructors
                    target = init_of(cdef, classes[name][0][0])
                    skip_self = 1
                    if target == "external" or target is None:
                        continue
                if target is None or target.decorator_list:
                    continue
                a = target.args
                pos = [x.arg for x in a.posonlyargs + a.args][skip_self:]
                n_def = len(a.defaults)
                required = set(pos[:len(pos) - n_def] if n_def else pos)
                required |= {x.arg for x, d in zip(a.kwonlyargs, a.kw_defaults) if d is None}
                allnames = set(pos) | {x.arg for x in a.kwonlyargs}
                given = set(pos[:len(c.args)]) | {k.arg for k in c.keywords}
                problems = []
                if len(c.args) > len(pos) and a.vararg is None:
                    problems.append(f"{len(c.args)} positional arguments for {len(pos)} parameters")
                unknown = {k.arg for k in c.keywords} - allnames
                if unknown and a.kwarg is None:
                    problems.append(f"unknown keyword(s) {sorted(unknown)}")
                missing = required - given
                if missing:
                    problems.append(f"required parameter(s) {sorted(missing)} not supplied")
                n += 1
                run.ob(rule, not problems, f"{q}: {name}(...) matches its signature",
                       f"`{norm(c)[:90]}`: {'; '.join(problems)} - the call raises TypeError, which is not a documented outcome of decoding",
                       module=m, node=c, func=q, construct=f"call of {name}")
    return n


def unbound_locals(run, project, rule, modules, what="internal error"):
    """A local variable that is read at a place no assignment of it can reach - on no path, through no loop back edge, from
    no handler - raises UnboundLocalError whenever that place is executed: an internal error, not a documented outcome.
    Reaching definitions over the function's flow graph (exception edges included); only *must*-unbound reads are reported
    (a read some path reaches without a binding while another path binds it is not: the analysis is path-insensitive there).
    Names bound by walrus expressions, `global` / `nonlocal` names and names only bound in nested scopes are left alone."""
    from ..fnview import FnView
    n_fn = n_use = 0
    for mname in modules:
        m = project.modules.get(mname)
        if m is None:
            continue
        for q, fn in m.functions().items():
            try:
                V = FnView(m, fn)
            except Exception:
                continue
            n_fn += 1
            bound = set()
            for d in V.rd.defs.values():
                bound.update(d)
            skip = set(V.rd.params)
            for x in walk_no_nested(fn):
                if isinstance(x, (ast.Global, ast.Nonlocal)):
                    skip.update(x.names)
                if isinstance(x, ast.NamedExpr) and isinstance(x.target, ast.Name):
                    skip.add(x.target.id)
                if isinstance(x, ast.Delete):
                    skip.update(t.id for t in x.targets if isinstance(t, ast.Name))
                if isinstance(x, (ast.Match,) if hasattr(ast, "Match") else ()):
                    skip.update(bound)
            local = bound - skip
            if not local:
                continue
            live, stack = set(), [V.cfg.entry]
            while stack:   # statements after an unconditional return / raise are not executed at all
                c = stack.pop()
                if c.id in live:
                    continue
                live.add(c.id)
                stack.extend(s_ for _, s_ in c.succ)
                if c.kind in ("stmt", "test", "for", "handler"):
                    stack.extend(V.cfg.handlers_of(c))
            for node in V.cfg.nodes:
                if node.kind not in ("stmt", "test", "for") or node.ast is None or node.id not in live:
                    continue
                roots = [node.ast.iter] if node.kind == "for" else [node.ast]
                if node.kind == "stmt" and isinstance(node.ast, (ast.FunctionDef, ast.ClassDef, ast.With, ast.Try, ast.If, ast.While, ast.For)):
                    # compound statements are split into their own nodes; only their header expressions belong to this node
                    roots = [it.context_expr for it in node.ast.items] if isinstance(node.ast, ast.With) else []
                comp_targets = set()
                for r in roots:
                    for x in ast.walk(r):
                        if isinstance(x, ast.comprehension):
                            comp_targets.update(t.id for t in ast.walk(x.target) if isinstance(t, ast.Name))
                        if isinstance(x, ast.Lambda):
                            comp_targets.update(a.arg for a in x.args.args)
                for r in roots:
                    for x in ast.walk(r):
                        if isinstance(x, ast.Name) and isinstance(x.ctx, ast.Load) and x.id in local and x.id not in comp_targets:
                            n_use += 1
                            if not V.rd.IN[node.id].get(x.id):
                                run.ob(rule, False, f"{q}: `{x.id}` is bound where it is read",
                                       f"`{x.id}` is read in `{norm(node.ast).splitlines()[0][:70]}` but no assignment of it reaches that "
                                       f"place on any path: executing it raises UnboundLocalError ({what})", module=m, node=x, func=q,
                                       construct=f"unbound local {x.id}")
    run.ob(rule, True, f"no read of a local that no assignment reaches ({n_fn} functions, {n_use} reads of locals)")
    return n_fn, n_use
