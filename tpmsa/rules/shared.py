"""Rules shared by several properties."""
from __future__ import annotations

import ast

from ..project import call_name, norm, walk_no_nested
from ..roles import CONSTRAINTS, MARSHAL


def discarded_generators(run, project, rule, modules=(MARSHAL, CONSTRAINTS, "tpmstream.common.event")):
    """In the decode core every step is a generator that the caller has to run (`yield from`, iteration, send).  A call of a
    generator function whose result is thrown away - an expression statement - creates the generator and never runs it:
    the charge / close / skip / decode it stands for silently does not happen.  Generator functions are the functions and
    methods of the core modules that contain a yield; a method call is resolved by its name when every definition of that
    name in the core is a generator."""
    gens, plain = set(), set()
    mods = [project.modules[m] for m in modules if m in project.modules]
    for m in mods:
        for q, fn in m.functions().items():
            is_gen = any(isinstance(n, (ast.Yield, ast.YieldFrom)) for n in walk_no_nested(fn))
            (gens if is_gen else plain).add(q.split(".")[-1])
    names = gens - plain
    n = 0
    for m in mods:
        for q, fn in m.functions().items():
            for st in walk_no_nested(fn):
                if isinstance(st, ast.Expr) and isinstance(st.value, ast.Call):
                    c = st.value
                    nm = c.func.attr if isinstance(c.func, ast.Attribute) else c.func.id if isinstance(c.func, ast.Name) else None
                    if nm in names:
                        n += 1
                        run.ob(rule, False, f"{q}: result of generator {nm}() is used",
                               f"`{norm(c)[:80]}` creates the generator `{nm}` and discards it (no `yield from`, no iteration): what it "
                               "stands for - a charge, a close, a skip of padding, a nested decode - never happens", module=m, node=st,
                               func=q, construct=f"discarded generator {nm}()")
    run.ob(rule, True, f"no generator of the decode core is created and discarded ({len(names)} generator names, {n} discarded)")
