"""Rules shared by several properties."""
from __future__ import annotations

import ast

from ..project import AnalysisError, enclosing_function, call_name, norm, walk_no_nested
from ..roles import CONSTRAINTS, MARSHAL


def discarded_generators(run, project, rule, modules=(MARSHAL, CONSTRAINTS, "tpmstream.common.event")):
    """In the decode core every step is a generator that the caller has to run (`yield from`, iteration, send).  A call of a
    generator function whose result is thrown away - an expression statement - creates the generator and never runs it:
    the charge / close / skip / decode it stands for silently does not happen.  Generator functions are the functions and
    methods of the core modules that contain a yield; a method call is resolved by its name when every definition of that
    name in the core is a generator."""
    gens, plain = set(), set()
    mods = [project.modules[m] for m in modules if m in project.modules]
    for m in mods:
        for q, fn in m.functions().items():
            is_gen = any(isinstance(n, (ast.Yield, ast.YieldFrom)) for n in walk_no_nested(fn))
            (gens if is_gen else plain).add(q.split(".")[-1])
    names = gens - plain
    n = 0
    for m in mods:
        for q, fn in m.functions().items():
            for st in walk_no_nested(fn):
                if isinstance(st, ast.Expr) and isinstance(st.value, ast.Call):
                    c = st.value
                    nm = c.func.attr if isinstance(c.func, ast.Attribute) else c.func.id if isinstance(c.func, ast.Name) else None
                    if nm in names:
                        n += 1
                        run.ob(rule, False, f"{q}: result of generator {nm}() is used",
                               f"`{norm(c)[:80]}` creates the generator `{nm}` and discards it (no `yield from`, no iteration): what it "
                               "stands for - a charge, a close, a skip of padding, a nested decode - never happens", module=m, node=st,
                               func=q, construct=f"discarded generator {nm}()")
    run.ob(rule, True, f"no generator of the decode core is created and discarded ({len(names)} generator names, {n} discarded)")


def call_signatures(run, project, rule, modules=(MARSHAL, CONSTRAINTS, "tpmstream.common.error", "tpmstream.common.event")):
    """A call that leaves out a required parameter, names a parameter that does not exist or passes too many positional
    arguments fails with TypeError - an internal error, not a documented outcome.  Checked for the calls in the decode core whose
    callee is a function or a class (its __init__) of the project with a name that is unique in the project; calls with
    * / ** arguments are skipped (their arity is not visible)."""
    funcs, classes = {}, {}
    for mname, m in project.modules.items():
        for st in m.tree.body:
            if isinstance(st, ast.FunctionDef):
                funcs.setdefault(st.name, []).append((m, st))
            elif isinstance(st, ast.ClassDef):
                classes.setdefault(st.name, []).append((m, st))

    def init_of(cdef, m, depth=0):
        for x in cdef.body:
            if isinstance(x, ast.FunctionDef) and x.name == "__init__":
                return x
        if depth < 4:
            for b in cdef.bases:
                bn = norm(b).split(".")[-1]
                if len(classes.get(bn, ())) == 1:
                    r = init_of(classes[bn][0][1], classes[bn][0][0], depth + 1)
                    if r is not None:
                        return r
                elif bn not in classes:
                    return "external"
        return None
    n = 0
    for mname in modules:
        m = project.modules.get(mname)
        if m is None:
            continue
        for q, fn in m.functions().items():
            for c in walk_no_nested(fn):
                if not (isinstance(c, ast.Call) and isinstance(c.func, ast.Name)):
                    continue
                if any(isinstance(a, ast.Starred) for a in c.args) or any(k.arg is None for k in c.keywords):
                    continue
                name = c.func.id
                target, skip_self = None, 0
                if len(funcs.get(name, ())) == 1 and name not in classes:
                    target = funcs[name][0][1]
                elif len(classes.get(name, ())) == 1 and name not in funcs:
                    cdef = classes[name][0][1]
                    if any(norm(d).split(".")[-1].startswith(("dataclass", "tpm_")) for d in cdef.decorator_list):
                        continue  # generated constructors
                    target = init_of(cdef, classes[name][0][0])
                    skip_self = 1
                    if target == "external" or target is None:
                        continue
                if target is None or target.decorator_list:
                    continue
                a = target.args
                pos = [x.arg for x in a.posonlyargs + a.args][skip_self:]
                n_def = len(a.defaults)
                required = set(pos[:len(pos) - n_def] if n_def else pos)
                required |= {x.arg for x, d in zip(a.kwonlyargs, a.kw_defaults) if d is None}
                allnames = set(pos) | {x.arg for x in a.kwonlyargs}
                given = set(pos[:len(c.args)]) | {k.arg for k in c.keywords}
                problems = []
                if len(c.args) > len(pos) and a.vararg is None:
                    problems.append(f"{len(c.args)} positional arguments for {len(pos)} parameters")
                unknown = {k.arg for k in c.keywords} - allnames
                if unknown and a.kwarg is None:
                    problems.append(f"unknown keyword(s) {sorted(unknown)}")
                missing = required - given
                if missing:
                    problems.append(f"required parameter(s) {sorted(missing)} not supplied")
                n += 1
                run.ob(rule, not problems, f"{q}: {name}(...) matches its signature",
                       f"`{norm(c)[:90]}`: {'; '.join(problems)} - the call raises TypeError, which is not a documented outcome of decoding",
                       module=m, node=c, func=q, construct=f"call of {name}")
    return n


def unbound_locals(run, project, rule, modules, what="internal error"):
    """A local variable that is read at a place no assignment of it can reach - on no path, through no loop back edge, from
    no handler - raises UnboundLocalError whenever that place is executed: an internal error, not a documented outcome.
    Reaching definitions over the function's flow graph (exception edges included); only *must*-unbound reads are reported
    (a read some path reaches without a binding while another path binds it is not: the analysis is path-insensitive there).
    Names bound by walrus expressions, `global` / `nonlocal` names and names only bound in nested scopes are left alone."""
    from ..fnview import FnView
    n_fn = n_use = 0
    for mname in modules:
        m = project.modules.get(mname)
        if m is None:
            continue
        for q, fn in m.functions().items():
            try:
                V = FnView(m, fn)
            except Exception:
                continue
            n_fn += 1
            bound = set()
            for d in V.rd.defs.values():
                bound.update(d)
            skip = set(V.rd.params)
            for x in walk_no_nested(fn):
                if isinstance(x, (ast.Global, ast.Nonlocal)):
                    skip.update(x.names)
                if isinstance(x, ast.NamedExpr) and isinstance(x.target, ast.Name):
                    skip.add(x.target.id)
                if isinstance(x, ast.Delete):
                    skip.update(t.id for t in x.targets if isinstance(t, ast.Name))
                if isinstance(x, (ast.Match,) if hasattr(ast, "Match") else ()):
                    skip.update(bound)
            local = bound - skip
            if not local:
                continue
            live, stack = set(), [V.cfg.entry]
            while stack:   # statements after an unconditional return / raise are not executed at all
                c = stack.pop()
                if c.id in live:
                    continue
                live.add(c.id)
                stack.extend(s_ for _, s_ in c.succ)
                if c.kind in ("stmt", "test", "for", "handler"):
                    stack.extend(V.cfg.handlers_of(c))
            # an augmented assignment (`x += ...`) binds x only if x was bound before: such definitions are grounded when a
            # plain definition (or a grounded augmented one) reaches them
            aug = {(d, v) for d, ds in V.rd.defs.items() for v, rec in ds.items() if rec[0] == "aug"}
            grounded, changed = set(), True
            while changed:
                changed = False
                for d, v in aug - grounded:
                    if any((r, v) not in aug or (r, v) in grounded for r in V.rd.IN[d].get(v, ())):
                        grounded.add((d, v))
                        changed = True

            def reaches(node_id, var):
                return any((r, var) not in aug or (r, var) in grounded for r in V.rd.IN[node_id].get(var, ()))
            for node in V.cfg.nodes:
                if node.kind not in ("stmt", "test", "for") or node.ast is None or node.id not in live:
                    continue
                roots = [node.ast.iter] if node.kind == "for" else [node.ast]
                if node.kind == "stmt" and isinstance(node.ast, (ast.FunctionDef, ast.ClassDef, ast.With, ast.Try, ast.If, ast.While, ast.For)):
                    # compound statements are split into their own nodes; only their header expressions belong to this node
                    roots = [it.context_expr for it in node.ast.items] if isinstance(node.ast, ast.With) else []
                comp_targets = set()
                for r in roots:
                    for x in ast.walk(r):
                        if isinstance(x, ast.comprehension):
                            comp_targets.update(t.id for t in ast.walk(x.target) if isinstance(t, ast.Name))
                        if isinstance(x, ast.Lambda):
                            comp_targets.update(a.arg for a in x.args.args)
                reads = [x for r in roots for x in ast.walk(r) if isinstance(x, ast.Name) and isinstance(x.ctx, ast.Load)]
                if node.kind == "stmt" and isinstance(node.ast, ast.AugAssign) and isinstance(node.ast.target, ast.Name):
                    reads.append(node.ast.target)   # `x += e` reads x first
                for r in [None]:
                    for x in reads:
                        if x.id in local and x.id not in comp_targets:
                            n_use += 1
                            if not reaches(node.id, x.id):
                                run.ob(rule, False, f"{q}: `{x.id}` is bound where it is read",
                                       f"`{x.id}` is read in `{norm(node.ast).splitlines()[0][:70]}` but no assignment of it reaches that "
                                       f"place on any path: executing it raises UnboundLocalError ({what})", module=m, node=x, func=q,
                                       construct=f"unbound local {x.id}")
    run.ob(rule, True, f"no read of a local that no assignment reaches ({n_fn} functions, {n_use} reads of locals)")
    return n_fn, n_use


def undefined_names(run, project, rule, modules, what="internal error", dead_in=None):
    """A name a function reads that is bound nowhere - not in the function, not in an enclosing function, not at module level,
    not a builtin - raises NameError whenever the read is executed (typically: the only assignment was removed, or a block was
    copied from a function that had the name).  Scopes are resolved with the standard library's symtable (the compiler's own
    scoping rules); `dead_in(qualname, function node of the unmodified source)` may name handler nodes proven unreachable for the
    property's inputs: reads inside them are not judged."""
    import builtins
    import symtable
    n_fn = n_names = 0
    for mname in modules:
        m = project.modules.get(mname)
        if m is None:
            continue
        try:
            top = symtable.symtable(m.source, m.relpath, "exec")
        except SyntaxError:
            continue
        modnames = {s_.get_name() for s_ in top.get_symbols() if s_.is_assigned() or s_.is_imported() or s_.is_namespace()}
        raw = ast.parse(m.source)
        if any(isinstance(s_, ast.ImportFrom) and any(a.name == "*" for a in s_.names) for s_ in ast.walk(raw)):
            continue   # a star import binds names this analysis cannot see
        fnodes = {}
        for x in ast.walk(raw):
            if isinstance(x, (ast.FunctionDef, ast.AsyncFunctionDef, ast.Lambda)):
                fnodes.setdefault((getattr(x, "name", "lambda"), x.lineno), x)

        def visit(tab, qual):
            nonlocal n_fn, n_names
            for ch in tab.get_children():
                q = f"{qual}.{ch.get_name()}" if qual else ch.get_name()
                if ch.get_type() == "function":
                    n_fn += 1
                    for s_ in ch.get_symbols():
                        if not (s_.is_referenced() and s_.is_global() and not s_.is_declared_global()):
                            continue
                        nm = s_.get_name()
                        n_names += 1
                        if nm in modnames or hasattr(builtins, nm) or nm in ("__class__", "__file__", "__name__", "__doc__"):
                            continue
                        fn = fnodes.get((ch.get_name(), ch.get_lineno()))
                        uses = [u for u in ast.walk(fn) if isinstance(u, ast.Name) and u.id == nm and isinstance(u.ctx, ast.Load)] if fn is not None else []
                        # the same statement in the analysed (normalised) tree, to know whether it sits in a dead handler
                        dead_ids = {id(x) for h in (dead_in(q, fn) if dead_in and fn is not None else ()) for x in ast.walk(h)}
                        live_uses = [u for u in uses if id(u) not in dead_ids]
                        if uses and not live_uses:
                            continue
                        u0 = (live_uses or uses or [None])[0]
                        run.ob(rule, False, f"{q}: `{nm}` is a known name",
                               f"`{nm}` is read in {q} but bound nowhere (not in the function, not in an enclosing function, not at module "
                               f"level, not a builtin): executing the read raises NameError ({what})", module=m,
                               node=u0 if u0 is not None else None, func=q, construct=f"undefined name {nm}")
                visit(ch, q)
        visit(top, "")
    run.ob(rule, True, f"every name read in a function resolves to a binding ({n_fn} functions, {n_names} module-level / builtin names)")
    return n_fn, n_names


def locate_function(project, module, name):
    """(module, FunctionDef) of the top-level function `name` as visible from `module` (defined there or imported, following
    re-exports), or (None, None)"""
    f = module.functions().get(name)
    if f is not None:
        return module, f
    r = project.resolve_name(module, name)
    if r and r[1]:
        f = r[0].functions().get(r[1])
        if f is not None:
            return r[0], f
    return None, None


def late_binding_closures(run, project, rule, modules, what):
    """a lambda / nested function created in a loop or comprehension that reads the loop variable but is only CALLED later
    (stored, collected, handed to a lazy consumer such as iter(callable, sentinel)): by then the variable holds the value of
    the last iteration - every closure sees the last element.  Not flagged: a closure that binds the variable as a default
    argument, one that is called on the spot, and `key=` functions (called before the iteration goes on)."""
    n = 0
    for modname in modules:
        if not project.has_module(modname):
            continue
        mod = project.module(modname)
        for node in ast.walk(mod.tree):
            if isinstance(node, (ast.ListComp, ast.SetComp, ast.GeneratorExp, ast.DictComp)):
                targets = {x.id for g in node.generators for x in ast.walk(g.target) if isinstance(x, ast.Name)}
                bodies = [node.elt] if not isinstance(node, ast.DictComp) else [node.key, node.value]
                lazy = isinstance(node, ast.GeneratorExp)
            elif isinstance(node, ast.For):
                targets = {x.id for x in ast.walk(node.target) if isinstance(x, ast.Name)}
                bodies = list(node.body)
                lazy = False
            else:
                continue
            for b in bodies:
                parents = {}
                for x in ast.walk(b):
                    for c in ast.iter_child_nodes(x):
                        parents[id(c)] = x
                for f in ast.walk(b):
                    if not isinstance(f, (ast.Lambda, ast.FunctionDef)):
                        continue
                    own = {a.arg for a in f.args.args + f.args.kwonlyargs + f.args.posonlyargs} | \
                        ({f.args.vararg.arg} if f.args.vararg else set()) | ({f.args.kwarg.arg} if f.args.kwarg else set())
                    inner = f.body if isinstance(f.body, list) else [f.body]
                    free = {x.id for st in inner for x in ast.walk(st) if isinstance(x, ast.Name) and isinstance(x.ctx, ast.Load)} - own
                    captured = sorted(free & targets)
                    if not captured:
                        continue
                    par = parents.get(id(f))
                    if isinstance(par, ast.Call) and par.func is f:
                        continue   # called on the spot
                    if isinstance(par, ast.keyword) and par.arg == "key":
                        continue   # a sort / min / max key: used before the iteration goes on
                    n += 1
                    run.ob(rule, False, f"{modname.split('.')[-1]} L{f.lineno}: closure over a loop variable",
                           f"the function created at line {f.lineno} reads the loop variable{'s' if len(captured) > 1 else ''} "
                           f"{', '.join('`' + c + '`' for c in captured)} when it is CALLED, not when it is created: every closure made by "
                           f"this loop sees the last element ({what})", module=mod, node=f,
                           func=getattr(enclosing_function(f), "name", "<module>") if enclosing_function(f) is not None else "<module>",
                           construct=f"late-binding closure over {', '.join(captured)}")
    if not n:
        run.ob(rule, True, "no closure created in a loop reads the loop variable late")


def value_keyed_memo(run, project, rule, what):
    """layout values compare and hash like the integer they carry (spec/common/base_type.py: __eq__ / __hash__ go through
    int(self)), so TPMA_SESSION(1), TPMA_LOCALITY(1) and 1 are ONE key of functools.cache / lru_cache unless the cache is
    `typed=True`.  A memoised function that is handed such a value (it reads `<param>._value`) and whose result depends on
    the value's type must be typed; functools.cache cannot be."""
    n = 0
    for mname, m in sorted(project.modules.items()):
        try:
            raw = ast.parse(m.source)   # (the normal form expands memoised pure helpers: look at the source as written)
        except SyntaxError:
            continue
        for fn in [x for x in ast.walk(raw) if isinstance(x, ast.FunctionDef)]:
            memo = [d for d in fn.decorator_list if norm(d.func if isinstance(d, ast.Call) else d).split(".")[-1] in ("lru_cache", "cache")]
            if not memo:
                continue
            params = [a.arg for a in fn.args.args + fn.args.kwonlyargs]
            valued = sorted({x.value.id for x in ast.walk(fn) if isinstance(x, ast.Attribute) and x.attr == "_value"
                             and isinstance(x.value, ast.Name) and x.value.id in params})
            if not valued:
                continue
            n += 1
            d = memo[0]
            typed = isinstance(d, ast.Call) and any(k.arg == "typed" and isinstance(k.value, ast.Constant) and k.value.value is True
                                                    for k in d.keywords)
            run.ob(rule, typed, f"{mname.split('.')[-1]}.{fn.name}: memoised on a layout value with typed=True",
                   f"`@{norm(d)}` on {fn.name}({', '.join(params)}): `{valued[0]}` is a layout value, and values of different types that "
                   f"carry the same number compare and hash alike - without typed=True they share one cache entry, the second type "
                   f"gets the first type's result ({what})", module=m, node=fn, func=fn.name, construct=f"@{norm(d)} keyed by value")
    if not n:
        run.ob(rule, True, "no memoised function is keyed by a layout value")


def reads_every_file(run, project, rule, what):
    """the file reader of tpmstream.io hands out the bytes of EVERY file it is given, each to its end: in the generator(s)
    that loop over the files no `return` lies inside a loop (it would end the whole stream at the first end-of-file or the
    first empty read) and the loop over the files itself is never left by `break`"""
    if not project.has_module("tpmstream.io"):
        run.info(f"{rule}: tpmstream.io not found; the file reader is not judged")
        return
    mod = project.module("tpmstream.io")
    n = 0
    for q, fn in mod.functions().items():
        params = {a.arg for a in fn.args.args}
        loops = [lp for lp in walk_no_nested(fn) if isinstance(lp, ast.For) and any(isinstance(x, ast.Name) and x.id in params for x in ast.walk(lp.iter))]
        reads = any(isinstance(c, ast.Call) and isinstance(c.func, ast.Attribute) and c.func.attr in ("read", "read1", "readinto", "readline")
                    for c in walk_no_nested(fn))
        if not loops or not reads:
            continue
        n += 1
        for lp in loops:
            rets = [r for r in ast.walk(lp) if isinstance(r, ast.Return)]
            run.ob(rule, not rets, f"{q}: no return inside the loop over the files",
                   f"`return` inside the loop over the input files of {q}: the byte stream ends at the first file's end - the remaining "
                   f"files are never read ({what})", module=mod, node=rets[0] if rets else lp, func=q, construct=f"{q} return in file loop")
            # a break that leaves the file loop itself (not an inner read loop)
            def level_breaks(stmts):
                out = []
                for st in stmts:
                    if isinstance(st, ast.Break):
                        out.append(st)
                    elif isinstance(st, (ast.For, ast.While, ast.FunctionDef, ast.AsyncFor)):
                        out.extend(level_breaks(st.orelse) if not isinstance(st, ast.FunctionDef) else [])
                    else:
                        for f_ in ("body", "orelse", "finalbody"):
                            out.extend(level_breaks(getattr(st, f_, []) or []))
                        for h in getattr(st, "handlers", []) or []:
                            out.extend(level_breaks(h.body))
                return out
            brs = level_breaks(lp.body)
            run.ob(rule, not brs, f"{q}: the loop over the files is not left early",
                   f"`break` leaves the loop over the input files of {q}: the remaining files are never read ({what})", module=mod,
                   node=brs[0] if brs else lp, func=q, construct=f"{q} break in file loop")
    if not n:
        run.info(f"{rule}: no generator of tpmstream.io loops over its files and reads them; the file reader is not judged in this form")


CANONICAL = "tpmstream.common.canonical"


def canonical_class(project):
    if not project.has_module(CANONICAL):
        return None, None
    mod = project.module(CANONICAL)
    return mod, mod.classes().get("Canonical")


def canonical_mode_default(run, project, rule, what):
    """`Canonical(bytes, ...)` decodes as the decoder does by default: its own mode parameter defaults to strict (True, the
    decoder's default) and is handed to the front-end's marshal() as it is"""
    mod, cls = canonical_class(project)
    if cls is None:
        run.info(f"{rule}: class Canonical not found; its default mode is not judged")
        return
    init = next((n for n in cls.body if isinstance(n, ast.FunctionDef) and n.name == "__init__"), None)
    if init is None:
        run.info(f"{rule}: Canonical.__init__ not found; its default mode is not judged")
        return
    args = init.args.args + init.args.kwonlyargs
    defaults = dict(zip([a.arg for a in init.args.args][len(init.args.args) - len(init.args.defaults):], init.args.defaults))
    defaults.update({a.arg: d for a, d in zip(init.args.kwonlyargs, init.args.kw_defaults) if d is not None})
    if "abort_on_error" not in [a.arg for a in args]:
        run.info(f"{rule}: Canonical.__init__ has no abort_on_error parameter; its default mode is not judged")
        return
    d = defaults.get("abort_on_error")
    if isinstance(d, ast.Name):
        # a named constant of the module (`DEFAULT_STRICT = True`)
        binds = [a for a in mod.tree.body if isinstance(a, ast.Assign) and any(isinstance(t, ast.Name) and t.id == d.id for t in a.targets)]
        if len(binds) == 1 and isinstance(binds[0].value, ast.Constant):
            d = binds[0].value
    if d is not None and not isinstance(d, ast.Constant):
        run.info(f"{rule}: Canonical's default mode is `{norm(d)}`, not a constant; not judged")
        return
    run.ob(rule, isinstance(d, ast.Constant) and d.value is True, "Canonical: default mode is strict",
           f"Canonical.__init__ has abort_on_error={norm(d) if d is not None else '<required>'} as default: a Canonical built from bytes "
           f"without the flag decodes in warn mode ({what})", module=mod, node=d if d is not None else init, func="Canonical.__init__",
           construct="Canonical default mode")
    calls = [c for c in walk_no_nested(init) if isinstance(c, ast.Call) and isinstance(c.func, ast.Attribute) and c.func.attr == "marshal"]
    for c in calls:
        kw = next((k for k in c.keywords if k.arg == "abort_on_error"), None)
        spread = any(k.arg is None for k in c.keywords)
        ok = spread or (kw is not None and isinstance(kw.value, ast.Name) and kw.value.id == "abort_on_error")
        if not ok and kw is not None and not isinstance(kw.value, ast.Constant):
            run.info(f"{rule}: Canonical hands `{norm(kw.value)}` to the front-end as mode; not judged")
            continue
        run.ob(rule, ok, "Canonical: the mode is handed to the front-end",
               f"Canonical.__init__ calls `{norm(c.func)}` with abort_on_error={norm(kw.value) if kw is not None else '<omitted>'}: the mode the "
               f"caller asked for does not reach the decoder ({what})", module=mod, node=c, func="Canonical.__init__",
               construct="Canonical mode hand-over")


def canonical_fill_once(run, project, rule, what):
    """what a Canonical was built from is kept: outside `__init__` a slot (`self._object`, ...) that the constructor may have
    filled from its input is assigned only where it is known to be empty (`self.<slot> is None` holds on the path)"""
    from .. import paths
    mod, cls = canonical_class(project)
    if cls is None:
        run.info(f"{rule}: class Canonical not found; not judged")
        return
    init = next((n for n in cls.body if isinstance(n, ast.FunctionDef) and n.name == "__init__"), None)
    if init is None:
        return
    # slots the constructor fills from its input on one branch and leaves empty (None) on another
    stores = {}
    for a in walk_no_nested(init):
        if isinstance(a, ast.Assign):
            for t in a.targets:
                if isinstance(t, ast.Attribute) and isinstance(t.value, ast.Name) and t.value.id == "self":
                    stores.setdefault(t.attr, []).append(a.value)
    slots = {s for s, vs in stores.items() if any(isinstance(v, ast.Constant) and v.value is None for v in vs)
             and any(not (isinstance(v, ast.Constant) and v.value is None) for v in vs)}
    n = 0
    for m in cls.body:
        if not isinstance(m, ast.FunctionDef) or m.name == "__init__":
            continue
        sites = [a for a in walk_no_nested(m) if isinstance(a, ast.Assign) and any(
            isinstance(t, ast.Attribute) and isinstance(t.value, ast.Name) and t.value.id == "self" and t.attr in slots for t in a.targets)]
        if not sites:
            continue
        for p in paths.summarise(mod, m):
            for k, e, node in p.effects:
                if k != "store" and k != "assign":
                    continue
                tgt = getattr(e, "targets", None)
                tgt = tgt[0] if tgt else None
                if not (isinstance(tgt, ast.Attribute) and isinstance(tgt.value, ast.Name) and tgt.value.id == "self" and tgt.attr in slots):
                    continue
                n += 1
                atom = f"self.{tgt.attr} is None"
                ok = p.truth(atom) is True or p.truth(f"truthy self.{tgt.attr}") is False
                slot = f"self.{tgt.attr}"
                if not ok and (any(slot in a_ for a_, _v, _ in p.cond) or slot in norm(e.value)):
                    # the slot is looked at on this path in a form that is not followed (or the new value is computed from the
                    # old one): no verdict
                    run.info(f"{rule}: Canonical.{m.name} assigns {slot} under a test / from a value that mentions it; not judged")
                    continue
                run.ob(rule, ok, f"Canonical.{m.name}: self.{tgt.attr} is filled only when empty",
                       f"Canonical.{m.name} assigns self.{tgt.attr} on a path where it is not known to be empty (`{atom}` is not tested): "
                       f"a Canonical built from an object loses that object ({what})", module=mod, node=node if node is not None else m,
                       func=f"Canonical.{m.name}", construct=f"Canonical.{tgt.attr} fill-once")
    if slots and not n:
        run.info(f"{rule}: no late assignment to {sorted(slots)} found in Canonical; nothing to judge")


def text_sources_unwrapped(run, project, rule, what):
    """the file reader of tpmstream.io reads a text-mode file (mode "r": sys.stdin, open(path)) through its byte buffer and a
    binary one ("rb") directly: the test on `<file>.mode` that guards the `.buffer` hand-over is evaluated for both"""
    if not project.has_module("tpmstream.io"):
        run.info(f"{rule}: tpmstream.io not found; the file reader is not judged")
        return
    mod = project.module("tpmstream.io")
    n = 0
    for q, fn in mod.functions().items():
        params = {a.arg for a in fn.args.args}
        loops = [lp for lp in walk_no_nested(fn) if isinstance(lp, ast.For) and isinstance(lp.target, ast.Name)
                 and any(isinstance(x, ast.Name) and x.id in params for x in ast.walk(lp.iter))]
        reads = any(isinstance(c, ast.Call) and isinstance(c.func, ast.Attribute) and c.func.attr in ("read", "read1", "readinto", "readline")
                    for c in walk_no_nested(fn))
        if not loops or not reads:
            continue
        for lp in loops:
            v = lp.target.id
            hand = [a for a in ast.walk(lp) if isinstance(a, ast.Attribute) and a.attr == "buffer" and isinstance(a.value, ast.Name) and a.value.id == v]
            ifs = [i for i in ast.walk(lp) if isinstance(i, ast.If) and any(h in list(ast.walk(i)) for h in hand)]
            passed_on = [c for c in ast.walk(lp) if isinstance(c, ast.Call) and any(
                isinstance(a, ast.Name) and a.id == v for a in list(c.args) + [k.value for k in c.keywords])]
            if not hand and passed_on:
                run.info(f"{rule}: {q} hands the file to `{norm(passed_on[0].func)}`; the text-mode hand-over is not judged")
                continue
            if not hand:
                n += 1
                run.ob(rule, False, f"{q}: text-mode files are read through their byte buffer",
                       f"{q} never takes `.buffer` of a file: a text-mode source (sys.stdin, open(path)) yields characters, not bytes ({what})",
                       module=mod, node=lp, func=q, construct=f"{q} text-mode hand-over")
                continue
            for i in ifs:
                modes = [a for a in ast.walk(i.test) if isinstance(a, ast.Attribute) and a.attr == "mode" and isinstance(a.value, ast.Name) and a.value.id == v]
                if not modes or not any(h in list(ast.walk(b)) for b in i.body for h in hand):
                    run.info(f"{rule}: {q} guards the byte-buffer hand-over by `{norm(i.test)}`; not judged")
                    continue

                def holds(mode, test=i.test):
                    import copy
                    t = copy.deepcopy(test)

                    class Sub(ast.NodeTransformer):
                        def visit_Attribute(self, a):
                            if a.attr == "mode" and isinstance(a.value, ast.Name) and a.value.id == v:
                                return ast.copy_location(ast.Constant(value=mode), a)
                            return self.generic_visit(a)
                    t = ast.fix_missing_locations(ast.Expression(body=Sub().visit(t)))
                    if any(isinstance(x, (ast.Name, ast.Call, ast.Attribute, ast.Subscript, ast.Lambda)) and not (
                            isinstance(x, ast.Call) and isinstance(x.func, ast.Attribute) and isinstance(x.func.value, ast.Constant)
                            and x.func.attr in ("startswith", "endswith")) and not (isinstance(x, ast.Attribute) and isinstance(x.value, ast.Constant))
                            for x in ast.walk(t)):
                        raise AnalysisError(f"{rule}: the mode test `{norm(test)}` of {q} is not a closed expression over the mode")
                    return bool(eval(compile(t, "<mode test>", "eval"), {"__builtins__": {}}, {}))
                try:
                    t_r, t_rb = holds("r"), holds("rb")
                except AnalysisError as ex:
                    run.info(f"{ex}; not judged")
                    continue
                except Exception as ex:   # (the test itself fails for one of the two modes)
                    run.info(f"{rule}: the mode test `{norm(i.test)}` of {q} cannot be evaluated ({type(ex).__name__}); not judged")
                    continue
                n += 1
                run.ob(rule, t_r and not t_rb, f"{q}: mode 'r' is read through .buffer, mode 'rb' directly",
                       f"the test `{norm(i.test)}` of {q} is {t_r} for mode 'r' (sys.stdin, open(path): must hand over to .buffer) and {t_rb} for "
                       f"mode 'rb' (has no .buffer): {what}", module=mod, node=i, func=q, construct=f"{q} text-mode test")
    if not n:
        run.info(f"{rule}: no file loop with a text-mode hand-over found in tpmstream.io; not judged")


def pathnode_texts_distinct(run, project, rule, what):
    """the text of a path node tells a list from its elements and the elements from each other: PathNode.__str__ evaluated (mini
    interpreter) for index None, 0, 1, 2 gives four different texts"""
    from ..minieval import Imprecise, Interp, NeedBit, Raised, TypeRef
    name = "tpmstream.common.path"
    if not project.has_module(name):
        run.info(f"{rule}: {name} not found; not judged")
        return
    mod = project.module(name)
    cls = mod.classes().get("PathNode")
    f = next((m for m in cls.body if isinstance(m, ast.FunctionDef) and m.name == "__str__"), None) if cls is not None else None
    if f is None:
        run.info(f"{rule}: PathNode.__str__ not found; not judged")
        return
    texts = {}
    for idx in (None, 0, 1, 2):
        it = Interp({}, module_tree=mod.tree, max_steps=20000)
        try:
            texts[idx] = it.call(f, [TypeRef("PathNode", attrs={"name": "n", "index": idx, "__partial__": True})])
        except Raised as r:
            texts[idx] = f"<raises {r.cls}>"
        except (NeedBit, Imprecise) as ex:
            raise AnalysisError(f"{rule}: PathNode.__str__ could not be evaluated ({ex})")
    ok = all(isinstance(t, str) and not t.startswith("<raises") for t in texts.values()) and len(set(texts.values())) == 4
    run.ob(rule, ok, "PathNode.__str__: a list and its elements 0, 1, 2 have four different texts",
           f"PathNode('n', index) prints as {texts}: {what}", module=mod, node=f, func="PathNode.__str__", construct="PathNode text")
