"""C01 - well-formed encodings decode to exactly the field-by-field event sequence.

W0 table side: the decode-relevant facets of the pinned snapshot (field order, names, types,
   widths, signedness, selectors, selector->arm maps, list sizes, area tables, TPM_CC numbers).
W1 dispatch agreement: the dispatcher's if/elif chain, read as a decision list over its predicate
   vocabulary, is evaluated on the descriptors of all 719 types (+ every list type, both array
   contexts, the stream type): the walker each type reaches must match its kind in L; every
   TPM2B*-named type is (unsigned size, payload), every TPMU*-named type has _selected_by.
W2 primitive walker: _int_size byte requests, int.from_bytes(byteorder='big', signed=_signed),
   event MarshalEvent(path, tpm_type, tpm_type(value)).
W3 container-first: in every container walker the container's `...` event dominates every
   recursive decode.
W4 declaration order: struct/command/response walkers iterate fields(type) directly; exactly one
   decode per non-skipped field; values[field.name] is bound from that decode's result.
W5 child path: parent path extended by one PathNode named after the same field whose type is
   decoded (arrays: parent_path / path[-1].with_index(i)).
W6 count and selector sources.  W7 union arm selection.
F  framing (loop specialiser on Command/Response from L): fields processed per (tag, response code)
   variant, area types from the right table keyed by the right code, session area iff SESSIONS,
   header-only failed responses, opaque-first-parameter flag provenance.
Not decided: event *values* for concrete bytes (needs int.from_bytes / dataclasses.fields /
generator semantics, trusted not verified).
"""
from __future__ import annotations

import ast

from .. import ctx, paths
from ..fnview import FnView
from ..pattern import find, match
from ..project import AnalysisError, call_name, kwarg, norm, walk_no_nested
from ..roles import MarshalRoles, if_chain
from ..specialise import Specialiser, render
from ..specmodel import ANY, ClassV, ListT
from . import c02, c20, guards

WALKER_OF_KIND = {
    "stream": "process_command_response_stream", "command": "process_command", "response": "process_response",
    "primitive": "process_primitive", "tpm2b": "process_tpm2b", "union": "process_tpmu", "struct": "process_tpms",
    "list": "process_array", "list+asc": "process_byte_sized_array",
}
CONTAINERS = ["process_array", "process_byte_sized_array", "process_tpms", "process_tpm2b", "process_tpmu",
              "process_command", "process_response"]


def check(run, project):
    roles = MarshalRoles(project)
    L = ctx.layout(project)
    run.explanation = ("pinned decode facets of L; dispatcher chain evaluated as a decision list over all type descriptors; "
                       "walker obligations by CFG dominance and def-use on abstract traces; framing by loop specialisation")
    guards.check(run, project, L)
    c20.t6(run, project, L, facets={"decode"}, rule="W0")
    # W16 (= C04-V5): a well-formed encoding only decodes in strict mode if the value of every field is in the allowed set the
    # layout declares for it: the valid-value facets of all types equal the pinned snapshot (a value dropped from a set makes
    # strict decoding reject well-formed input)
    c20.t6(run, project, L, facets={"valid"}, rule="W16")
    w1(run, roles, L)
    w2(run, roles)
    from .c02 import primitive_event_once
    primitive_event_once(run, roles, "W2")
    w3(run, roles)
    w45_struct(run, roles, L)
    w5_arrays(run, roles)
    w6(run, roles, L)
    w7(run, roles, L)
    framing(run, roles, L)
    from .c09 import s3
    s3(run, roles, L)  # which session bit makes the first parameter opaque (decrypt for commands, encrypt for responses)
    helper_semantics(run, project, roles)
    w9(run, roles)
    w11(run, roles)
    from .shared import discarded_generators
    discarded_generators(run, project, "W12")
    w14(run, roles)
    w15(run, roles)
    # W13: every member of a named range (handle ranges: the last PCR, the last NV index ...) is a valid value - a well-formed
    # encoding that carries it must decode in strict mode: the membership / member-construction semantics of NamedRange (C04-V4)
    from . import namedrange
    namedrange.check(run, "W13", project.module("tpmstream.spec.common.values"))
    # W8: a decode starts from its own empty region list (a shared default would charge this decode with regions
    # another decode left open, and reject a well-formed encoding)
    from .c03 import r4
    r4(run, roles)
    # W10: the pump forwards every event of a non-stream decode: its one silent return (end of input at the root event of a
    # new message) is restricted to the command/response stream, else the root event of a zero-length structure decoded at
    # top level is swallowed (the rule is C05-E3, re-used here under its own name)
    from ..report import RuleView
    from . import c05
    c05.check(RuleView(run, "E3", "W10"), project)
    run.floor("W0", 700, "pinned types")
    run.floor("W1", 719, "types classified")
    run.floor("W3", 7, "container walkers")
    run.floor("F", 30, "framing obligations")


# ------------------------------------------------------------------------------ W1
def meaning_kind(L, c):
    if c is L.Stream:
        return "stream"
    if c is L.Command:
        return "command"
    if c is L.Response:
        return "response"
    if isinstance(c, ListT):
        return "list"
    if L.is_primitive(c):
        return "primitive"
    if c.name.startswith("TPM2B"):
        return "tpm2b"
    if c.has("_selected_by") or c.name.startswith("TPMU"):
        return "union"
    return "struct"


def eval_pred(test, c, asc, L, tparam):
    """evaluate one dispatcher predicate on a type descriptor"""
    if isinstance(test, ast.BoolOp):
        vals = [eval_pred(v, c, asc, L, tparam) for v in test.values]
        return all(vals) if isinstance(test.op, ast.And) else any(vals)
    if isinstance(test, ast.UnaryOp) and isinstance(test.op, ast.Not):
        return not eval_pred(test.operand, c, asc, L, tparam)
    if isinstance(test, ast.Constant):
        return bool(test.value)
    if isinstance(test, ast.Compare) and len(test.ops) == 1 and isinstance(test.ops[0], (ast.Is, ast.IsNot)):
        l, r = test.left, test.comparators[0]
        pos = isinstance(test.ops[0], ast.Is)
        if isinstance(l, ast.Name) and l.id == tparam and isinstance(r, ast.Name):
            target = {"Command": L.Command, "Response": L.Response, L.Stream.name: L.Stream}.get(r.id) or L.struct_types.get(r.id)
            if target is None:
                raise AnalysisError(f"W1: dispatcher compares the type with unknown `{r.id}`")
            return (c is target) == pos
        if isinstance(l, ast.Name) and l.id == "array_size_constraint" and isinstance(r, ast.Constant) and r.value is None:
            return (not asc) == pos
    if isinstance(test, ast.Call):
        name = call_name(test)
        if name == "hasattr" and len(test.args) == 2 and norm(test.args[0]) == tparam and isinstance(test.args[1], ast.Constant):
            return isinstance(c, ClassV) and c.has(test.args[1].value)
        if name == "is_list" and len(test.args) == 1 and norm(test.args[0]) == tparam:
            return isinstance(c, ListT)
        if name == f"{tparam}.__name__.startswith" and len(test.args) == 1 and isinstance(test.args[0], ast.Constant):
            nm = c.name if isinstance(c, ClassV) else "list"
            return nm.startswith(test.args[0].value)
        if name == "issubclass" and len(test.args) == 2 and norm(test.args[0]) == tparam and isinstance(test.args[1], ast.Name):
            target = L.struct_types.get(test.args[1].id) or {"TPMS_PARAMS": L.TPMS_PARAMS}.get(test.args[1].id)
            return isinstance(c, ClassV) and target is not None and c.is_subclass_of(target)
    raise AnalysisError(f"W1: dispatcher predicate `{norm(test)}` is outside the modelled vocabulary")


def type_atom(text, subject):
    """a predicate over a type, from the text of a path atom: `subject` (e.g. `type(obj)`) is the type expression; returns
    f(c, L) -> bool, or None when the atom does not speak about the subject / is outside the vocabulary of eval_pred"""
    try:
        tree = ast.parse(text, mode="eval").body
    except SyntaxError:
        return None
    hit = []

    class S(ast.NodeTransformer):
        def visit(self, node):
            if isinstance(node, ast.expr) and norm(node) == subject:
                hit.append(1)
                return ast.copy_location(ast.Name(id="__t__", ctx=ast.Load()), node)
            return self.generic_visit(node)
    tree = S().visit(tree)
    ast.fix_missing_locations(tree)
    if not hit:
        return None

    def f(c, L):
        return eval_pred(tree, c, None, L, "__t__")
    return f


def w1(run, roles, L):
    mod, disp = roles.mod, roles.dispatcher
    chain = roles.dispatch_chain
    calls = roles.dispatch_calls
    tparam = roles.type_param

    def route(c, asc):
        for (test, _), call in zip(chain, calls):
            if test is None or eval_pred(test, c, asc, L, tparam):
                return call.func.id, call
        return None, None

    domain = [(k, c) for k, c in L.all.items()] + [(L.Stream.name, L.Stream), ("TPM2B_ENCRYPTED_PARAM", L.TPM2B_ENCRYPTED_PARAM)]
    lists = {}
    for k, c in L.all.items():
        if L.is_dataclass(c):
            for fname, ft in L.fields(c):
                if isinstance(ft, ListT):
                    lists[L.key(ft)] = ft
    n = 0
    for k, c in domain:
        kind = meaning_kind(L, c)
        got, call = route(c, False)
        n += 1
        run.ob("W1", got == WALKER_OF_KIND[kind], f"{k} ({kind}) -> {WALKER_OF_KIND[kind]}",
               f"type {k} is a {kind} but the dispatcher routes it to {got}", module=mod, node=call or disp,
               func=disp.name, construct=f"dispatch of {k}")
        if kind == "tpm2b":
            f = L.fields(c) if L.is_dataclass(c) else []
            ok = len(f) == 2 and isinstance(f[0][1], ClassV) and L.is_primitive(f[0][1]) and not L.signed(f[0][1]) \
                and (isinstance(f[1][1], (ClassV, ListT)))
            run.ob("W1", ok, f"{k}: (unsigned size, payload)", f"TPM2B type has fields {[(a, L.key(b)) for a, b in f]}: the "
                   "TPM2B walker unpacks exactly (size, payload)", module=c.module, node=c.node, func=k, construct=f"{k} TPM2B shape")
            if ok and isinstance(f[1][1], ListT):
                et = f[1][1].elem
                run.ob("W1", isinstance(et, ClassV) and L.is_primitive(et) and L.int_size(et) == 1,
                       f"{k}: list payload has 1-byte elements", f"payload list[{L.key(et)}]: size is in bytes but the list is "
                       "decoded as `size` elements", module=c.module, node=c.node, func=k, construct=f"{k} payload element width")
        if kind == "union":
            run.ob("W1", isinstance(c, ClassV) and c.has("_selected_by"), f"{k}: union has _selected_by",
                   "TPMU-named type without _selected_by is decoded as a plain struct (all members in sequence)", module=c.module,
                   node=c.node, func=k, construct=f"{k} _selected_by")
        if kind == "primitive":
            run.ob("W1", not L.is_dataclass(c), f"{k}: primitive is not a dataclass", "type is both primitive and dataclass",
                   module=c.module, node=c.node, func=k, construct=f"{k} primitive/dataclass")
    for k, lt in sorted(lists.items()):
        for asc, kind in ((False, "list"), (True, "list+asc")):
            got, call = route(lt, asc)
            n += 1
            run.ob("W1", got == WALKER_OF_KIND[kind], f"{k} ({kind}) -> {WALKER_OF_KIND[kind]}",
                   f"{k} with{'' if asc else 'out'} a byte-size region is routed to {got}", module=mod, node=call or disp,
                   func=disp.name, construct=f"dispatch of {k} [{kind}]")
    # arguments forwarded by each dispatch call: the type and path unchanged, the kind-specific inputs by name
    need = {"process_tpmu": ["selector"], "process_array": ["count"], "process_byte_sized_array": ["array_size_constraint"],
            "process_response": ["command_code", "parameter_encryption"], "process_tpms": ["parameter_encryption"]}
    for (test, _), call in zip(chain, calls):
        w = call.func.id
        fn = roles.funcs[w]
        params = [a.arg for a in fn.args.args]
        pos = [norm(a) for a in call.args]
        exp_pos = [tparam, "path"] if params and params[0] == "tpm_type" else ["path"]
        run.ob("W1", pos == exp_pos, f"dispatch -> {w}: forwards (type, path)", f"positional arguments are {pos}", module=mod,
               node=call, func=disp.name, construct=f"{w}(...) positional")
        for kwn in need.get(w, []):
            k = kwarg(call, kwn)
            run.ob("W1", k is not None and norm(k) == kwn, f"dispatch -> {w}: forwards {kwn}",
                   f"`{kwn}` is {'not forwarded' if k is None else 'forwarded as ' + norm(k)}", module=mod, node=call,
                   func=disp.name, construct=f"{w}(...) {kwn}")
        for k in call.keywords:
            run.ob("W1", k.arg in params and norm(k.value) == k.arg, f"dispatch -> {w}: {k.arg} passed through",
                   f"keyword {k.arg}={norm(k.value)}", module=mod, node=call, func=disp.name, construct=f"{w}(...) {k.arg}")
    # the dispatcher returns what the walker returned
    rets = [s for s in walk_no_nested(disp) if isinstance(s, ast.Return)]
    run.ob("W1", len(rets) == 1 and norm(rets[0].value) == roles.dispatch_result, "dispatcher returns the walker's result",
           "dispatcher does not return the delegated result", module=mod, node=disp, func=disp.name, construct="dispatcher return")
    run.cover(types_classified=n)


# ------------------------------------------------------------------------------ W2
def w2(run, roles):
    R = c02.reader_triple(run, roles)
    mod, fn, t, V = R["mod"], R["fn"], R["tparam"], R["V"]
    run.ob("W2", R["loop_ok"], "one byte request per loop iteration, appended in wire order",
           "read loop does not append exactly the requested byte per iteration", module=mod, node=R["call"], func=fn.name,
           construct="read loop")
    run.ob("W2", R["count"] is not None and norm(R["count"]) == f"{t}._int_size", "reads tpm_type._int_size bytes",
           f"reads `{norm(R['count']) if R['count'] is not None else None}` bytes", module=mod, node=R["call"], func=fn.name,
           construct="read width")
    bo = R["byteorder"]
    run.ob("W2", isinstance(bo, ast.Constant) and bo.value == "big", "big-endian", f"byteorder is `{norm(bo) if bo is not None else None}`",
           module=mod, node=R["call"], func=fn.name, construct="int.from_bytes byteorder")
    sg = R["signed"]
    run.ob("W2", sg is not None and norm(sg) == f"{t}._signed", "signedness from the declared type",
           f"signed is `{norm(sg) if sg is not None else None}`", module=mod, node=R["call"], func=fn.name,
           construct="int.from_bytes signed")
    data = R["call"].args[0]
    run.ob("W2", R.get("manual") or isinstance(V.resolve(data, R["call"]), ast.List) or isinstance(data, ast.Name), "bytes are collected in read order",
           "int.from_bytes does not consume the collected bytes", module=mod, node=R["call"], func=fn.name, construct="from_bytes data")
    # event
    from .c04 import find_event_yield
    evs = find_event_yield(V)
    if not evs:
        raise AnalysisError("W2: event yield of the primitive walker not found")
    args = []
    for y, ev in evs:
        args = list(ev.args)
        ok = len(args) == 3 and norm(args[0]) == fn.args.args[1].arg and norm(args[1]) == t
        run.ob("W2", ok, f"event at L{y.lineno} carries (path, declared type, value)", f"event is `{norm(ev)}`", module=mod, node=ev,
               func=fn.name, construct="MarshalEvent args")
        if len(args) == 3:
            tv = V.resolve(args[2], y)
            okv = isinstance(tv, ast.Call) and norm(tv.func) == t and len(tv.args) == 1 and R["is_decoded"](tv.args[0], y)
            run.ob("W2", okv, f"event value at L{y.lineno} is tpm_type(<decoded integer>)",
                   f"event value is `{norm(tv)}`: not the typed value (its class, text form and byte form are those of a plain int)",
                   module=mod, node=ev, func=fn.name, construct="MarshalEvent value")
    # returns (size, typed value)
    rets = [s for s in walk_no_nested(fn) if isinstance(s, ast.Return)]
    tvn = None
    for y, ev in evs:
        if len(ev.args) == 3 and isinstance(V.resolve(ev.args[2], y), ast.Call) and norm(V.resolve(ev.args[2], y).func) == t:
            tvn = norm(ev.args[2])
    ok = bool(rets) and all(isinstance(r.value, ast.Tuple) and len(r.value.elts) == 2 and norm(r.value.elts[1]) == tvn for r in rets)
    run.ob("W2", ok, "returns (size, typed value)", f"returns `{[norm(r.value) for r in rets]}`", module=mod,
           node=rets[0] if rets else fn, func=fn.name, construct="primitive return")


# ------------------------------------------------------------------------------ W3
def w3(run, roles):
    mod = roles.mod
    d = roles.dispatcher.name
    for w in CONTAINERS:
        fn = roles.walkers.get(w)
        if fn is None:
            raise AnalysisError(f"W3: walker {w} not found")
        V = FnView(mod, fn)
        tvar = "tpm_type"
        cont = []
        for y in V.yields():
            if isinstance(y, ast.Yield) and isinstance(y.value, ast.Call) and call_name(y.value) == "MarshalEvent":
                a = y.value.args
                if len(a) == 3 and norm(a[0]) == "path" and norm(a[1]) == tvar and isinstance(a[2], ast.Constant) and a[2].value is ...:
                    cont.append(y)
        run.ob("W3", len(cont) == 1, f"{w}: one container event MarshalEvent(path, tpm_type, ...)",
               f"{len(cont)} container events", module=mod, node=fn, func=w, construct=f"{w} container event")
        if len(cont) != 1:
            continue
        rec = V.calls(name=d)
        bad = [c for c in rec if not V.dominates(cont[0], c)]
        run.ob("W3", not bad and rec, f"{w}: container event precedes every nested decode ({len(rec)} calls)",
               "a nested field can be decoded (and its events emitted) before the container's own event", module=mod,
               node=bad[0] if bad else fn, func=w, construct=f"{w} container-first")
        # nothing is yielded before it
        others = [y for y in V.yields() if y is not cont[0]]
        early = [y for y in others if not V.dominates(cont[0], y)]
        run.ob("W3", not early, f"{w}: the container event is the first thing emitted", "something is yielded before the container event",
               module=mod, node=early[0] if early else cont[0], func=w, construct=f"{w} first yield")


# ------------------------------------------------------------------------------ W4 / W5 (struct walker + framing walkers)
def field_iteration(fn):
    loops = [n for n in walk_no_nested(fn) if isinstance(n, ast.For) and isinstance(n.iter, ast.Call) and call_name(n.iter) == "fields"]
    return loops


def w45_struct(run, roles, L):
    mod = roles.mod
    d = roles.dispatcher.name
    for w in ("process_tpms", "process_command", "process_response"):
        fn = roles.walkers[w]
        loops = [lp for lp in field_iteration(fn) if any(isinstance(c, ast.Call) and call_name(c) == d for c in ast.walk(lp))]
        run.ob("W4", len(loops) == 1 and norm(loops[0].iter) == "fields(tpm_type)" and isinstance(loops[0].target, ast.Name),
               f"{w}: iterates fields(tpm_type) directly", f"field loop is `{[norm(lp.iter) for lp in loops]}` (sorted/filtered/reversed "
               "iteration changes wire order)", module=mod, node=loops[0] if loops else fn, func=w, construct=f"{w} field loop")
    # struct walker: abstract iteration
    fn = roles.walkers["process_tpms"]
    sp = Specialiser(L, mod, fn, None, dispatcher=d)
    traces = [s for s in sp.run() if s.status == "return"]
    n_iter = 0
    for tr in traces:
        if not any(e.kind == "iter" for e in tr.trace):
            continue
        n_iter += 1
        i0 = max(i for i, e in enumerate(tr.trace) if e.kind == "iter")
        seg = tr.trace[i0:]
        procs = [e for e in seg if e.kind == "process"]
        stores = [e for e in seg if e.kind == "store" and e.data["dict"] == "values"]
        vid = "[" + ", ".join(f"{k}={v}" for k, v in sorted(tr.decisions.items())) + "]"
        run.ob("W4", len(procs) == 1, f"process_tpms {vid}: exactly one decode per field", f"{len(procs)} decodes in one iteration",
               module=mod, node=fn, func=fn.name, construct=f"process_tpms decodes per field {vid}")
        if len(procs) != 1:
            continue
        p = procs[0]
        fld = ("sym", "field")
        okt = p.data["type"] == ("attr", fld, "type")
        run.ob("W5", okt, f"process_tpms {vid}: decodes field.type", f"decodes `{render(p.data['type'])}`", module=mod, node=p.node,
               func=fn.name, construct=f"process_tpms decoded type {vid}")
        okp = p.data["path"] == ("path", ("param", "path"), ("pathnode", ("attr", fld, "name")))
        run.ob("W5", okp, f"process_tpms {vid}: child path = path / PathNode(field.name)", f"child path is `{render(p.data['path'])}`",
               module=mod, node=p.node, func=fn.name, construct=f"process_tpms child path {vid}")
        oks = len(stores) == 1 and stores[0].data["key"] == render(("attr", fld, "name")) and \
            stores[0].data["value"] == ("result", (None, p.data["index"]), 1)
        run.ob("W4", oks, f"process_tpms {vid}: values[field.name] = decoded value of this field",
               f"stores {[(s.data['key'], render(s.data['value'])) for s in stores]}", module=mod, node=stores[0].node if stores else fn,
               func=fn.name, construct=f"process_tpms store {vid}")
    run.require(n_iter >= 3, f"W4: only {n_iter} iteration variants of process_tpms found")
    # the object is built from values by field name
    rets = [s for s in walk_no_nested(fn) if isinstance(s, ast.Return)]
    ok = len(rets) == 1 and isinstance(rets[0].value, ast.Tuple) and norm(rets[0].value.elts[1]) == "tpm_type(**values)"
    run.ob("W4", ok, "process_tpms builds tpm_type(**values)", f"returns `{norm(rets[0].value) if rets else None}`", module=mod,
           node=rets[0] if rets else fn, func=fn.name, construct="process_tpms return")


def w5_arrays(run, roles):
    mod = roles.mod
    d = roles.dispatcher.name
    for w in ("process_array", "process_byte_sized_array"):
        fn = roles.walkers[w]
        V = FnView(mod, fn)
        calls = V.calls(name=d)
        run.ob("W5", len(calls) == 1, f"{w}: one element decode per iteration", f"{len(calls)} dispatcher calls", module=mod, node=fn,
               func=w, construct=f"{w} element decode")
        if len(calls) != 1:
            continue
        c = calls[0]
        et = V.resolve(c.args[0], c)
        run.ob("W5", norm(et) == "tpm_type.__args__[0]", f"{w}: element type is the list's parameter", f"element type `{norm(et)}`",
               module=mod, node=c, func=w, construct=f"{w} element type")
        pth = c.args[1]
        m = match(pth, "M_parent / M_child")
        ok = False
        idxvar = None
        if m is not None:
            par = V.resolve(m["M_parent"], c)
            ch = V.resolve(m["M_child"], c)
            mm = match(ch, "path[-1].with_index(M_i)")
            ok = norm(par) == "path[:-1]" and mm is not None and isinstance(mm["M_i"], ast.Name)
            idxvar = mm["M_i"].id if mm is not None and isinstance(mm["M_i"], ast.Name) else None
        run.ob("W5", ok, f"{w}: element path = path[:-1] / path[-1].with_index(i)", f"element path is `{norm(pth)}`", module=mod,
               node=c, func=w, construct=f"{w} element path")
        # the index counts elements from 0 in order
        if idxvar:
            lp = c
            while lp is not None and not isinstance(lp, (ast.For, ast.While)):
                lp = getattr(lp, "_parent", None)
            if isinstance(lp, ast.For):
                oki = isinstance(lp.target, ast.Name) and lp.target.id == idxvar and norm(lp.iter) == "range(count)"
            else:
                init = [s for s in walk_no_nested(fn) if isinstance(s, ast.Assign) and norm(s.targets[0]) == idxvar]
                incs = [s for s in ast.walk(lp) if isinstance(s, ast.AugAssign) and norm(s.target) == idxvar]
                oki = len(init) == 1 and norm(init[0].value) == "0" and len(incs) == 1 and isinstance(incs[0].op, ast.Add) \
                    and norm(incs[0].value) == "1" and incs[0]._parent is lp
            run.ob("W5", oki, f"{w}: index runs 0,1,2,... over the elements", "element index does not count from 0 in steps of 1",
                   module=mod, node=lp or fn, func=w, construct=f"{w} element index")
        # elements appended in order
        app = [x for x in V.calls(attr="append")]
        run.ob("W5", len(app) == 1, f"{w}: elements collected in order", f"{len(app)} append calls", module=mod, node=fn, func=w,
               construct=f"{w} element collection")


# ------------------------------------------------------------------------------ W6
def w6(run, roles, L):
    mod = roles.mod
    d = roles.dispatcher.name
    fn = roles.walkers["process_tpms"]
    V = FnView(mod, fn)
    calls = V.calls(name=d)
    # the struct walker, specialised on every struct layout of L: each field's decode must carry exactly the inputs its
    # kind needs (list: count = the last non-list value decoded so far; union: selector = the value decoded for the field
    # that _selectors names, decoded before; plain: neither) - however the walker writes its branches
    n_types = n_fields = 0
    for k, c in sorted(L.all.items()):
        if meaning_kind(L, c) != "struct" or not L.is_dataclass(c) or c in (L.Command, L.Response):
            continue
        sp = Specialiser(L, mod, fn, c, dispatcher=d, env={"parameter_encryption": ("const", None)})
        traces = [s_ for s_ in sp.run() if s_.status == "return" and not any(e.kind == "iter" and e.data.get("field") is None for e in s_.trace)]
        if len(traces) != 1:
            # a branch of the walker depends on something other than the layout
            run.ob("W6", False, f"{k}: one decode sequence per layout", f"{len(traces)} decode sequences for the layout {k}: the struct "
                   "walker branches on something other than the declared fields", module=mod, node=fn, func=fn.name,
                   construct="process_tpms decode sites")
            continue
        n_types += 1
        tr = traces[0]
        sels = L.dict_attr(c, "_selectors")
        sels = {f_: s_ for f_, s_, _ in sels.items} if sels is not None else {}
        procs = {e.data["field"]: e for e in tr.trace if e.kind == "process"}
        unbound = [e for e in tr.trace if e.kind == "unbound_key"]
        for fname, ftype in L.fields(c):
            e = procs.get(fname)
            if e is None:
                run.ob("W6", False, f"{k}.{fname}: decoded", f"field {fname} of {k} is never decoded", module=mod, node=fn, func=fn.name,
                       construct="process_tpms decode sites")
                continue
            n_fields += 1
            kw = e.data["kwargs"]
            extra = sorted(x for x in ("count", "selector") if x in kw and kw[x] != ("const", None))
            if isinstance(ftype, ListT):
                node = e.data["kw_nodes"].get("count")
                cnt = V.resolve(node, e.node) if node is not None else None
                m = match(cnt, "[M_v for M_v in values.values() if not is_list(type(M_v))][-1]") if cnt is not None else None
                run.ob("W6", m is not None, f"{k}.{fname}: list member, count is the last non-list value decoded so far",
                       f"count is `{norm(cnt) if cnt is not None else None}`", module=mod, node=e.node, func=fn.name,
                       construct="list count source")
                run.ob("W6", extra == ["count"], f"{k}.{fname}: list branch is taken for list-typed fields",
                       f"the list field {fname} is decoded with inputs {extra} (branch condition of the list member changed)", module=mod,
                       node=e.node, func=fn.name, construct="list branch condition")
            elif fname in sels:
                want = ("value", sels[fname])
                got = kw.get("selector")
                run.ob("W6", got == want, f"{k}.{fname}: union member, selector is values[{sels[fname]!r}]",
                       f"selector is `{render(got) if got is not None else None}`", module=mod, node=e.node, func=fn.name,
                       construct="union selector source")
                run.ob("W6", extra == ["selector"], f"{k}.{fname}: union branch is taken for fields listed in _selectors",
                       f"the union field {fname} is decoded with inputs {extra} (branch condition of the union member changed)",
                       module=mod, node=e.node, func=fn.name, construct="union branch condition")
                late = [u for u in unbound if u.data["key"] == sels[fname]]
                run.ob("W6", not late, f"{k}.{fname}: its selector {sels[fname]} is decoded first",
                       f"the selector field {sels[fname]} is read before it was decoded", module=mod, node=e.node, func=fn.name,
                       construct="union selector source")
            else:
                run.ob("W6", not extra, f"{k}.{fname}: plain member", f"the plain field {fname} is decoded with inputs {extra}", module=mod,
                       node=e.node, func=fn.name, construct="process_tpms decode sites")
    run.require(n_types >= 100 and n_fields >= 300, f"W6: only {n_types} struct layouts / {n_fields} fields specialised")
    # every field that _selectors names is a union / every union field is named (from L) -> C20-T4; here: nothing else has a selector
    for k, c in L.all.items():
        if not L.is_dataclass(c) or c in (L.Command, L.Response):
            continue
        sels = L.dict_attr(c, "_selectors")
        if sels is None:
            continue
        ft = dict(L.fields(c))
        for fname, sname, _ in sels.items:
            t = ft.get(fname)
            run.ob("W6", isinstance(t, ClassV) and t.has("_selected_by"), f"{k}._selectors[{fname}] names a union field",
                   f"_selectors names `{fname}` whose type {L.key(t) if t is not None else None} is not a union: it would be decoded "
                   "with a stray selector", module=c.module, node=c.node, func=k, construct=f"{k}._selectors[{fname}]")
    # TPM2B: payload count = decoded size
    fn = roles.walkers["process_tpm2b"]
    V = FnView(mod, fn)
    cc = [c for c in V.calls(name=d) if kwarg(c, "count") is not None]
    ok = len(cc) == 1
    if ok:
        cnt = V.defs_at(cc[0], norm(kwarg(cc[0], "count"))) if isinstance(kwarg(cc[0], "count"), ast.Name) else []
        size_call = V.calls(name=d)[0]
        ok = any(r[0] == "unpack" and r[2] == 1 and isinstance(r[1], ast.YieldFrom) and r[1].value is size_call for r in cnt)
    run.ob("W6", ok, "TPM2B byte payload: count = the decoded size", "the payload count is not the value decoded for the size field",
           module=mod, node=cc[0] if cc else fn, func=fn.name, construct="TPM2B payload count")
    unp = [s for s in walk_no_nested(fn) if isinstance(s, ast.Assign) and isinstance(s.targets[0], ast.Tuple)
           and norm(s.value) == "fields(tpm_type)"]
    run.ob("W6", len(unp) == 1 and len(unp[0].targets[0].elts) == 2, "TPM2B: (size field, payload field) = fields(tpm_type)",
           "TPM2B walker no longer unpacks exactly two fields in declaration order", module=mod, node=unp[0] if unp else fn,
           func=fn.name, construct="TPM2B field unpacking")


# ------------------------------------------------------------------------------ W7
def w7(run, roles, L=None):
    """union walker, decided on its path summaries: arm = inverted _selected_by at the selector, else at None, else a value
    error; the arm's field is looked up by name; an arm without payload decodes to nothing; otherwise exactly one decode of
    field.type at path / PathNode(field.name) (count = _list_size[member] for list arms) and the object holds that arm."""
    from .. import paths
    mod = roles.mod
    fn = roles.walkers["process_tpmu"]
    d = roles.dispatcher.name
    S = paths.Summariser(mod, fn)
    ps = [p for p in S.paths() if not (p.end == "raise" and p.value is not None and norm(p.value) == "AssertionError")]
    inv = {norm(e.targets[0]): e for p in ps for k, e, _ in p.effects if k == "assign" and isinstance(e.value, ast.DictComp)}
    if L is not None and not (len(inv) == 1 and match(list(inv.values())[0].value, "{M_v: M_k for M_k, M_v in tpm_type._selected_by.items()}") is not None):
        # the arm is not looked up in an inverted copy of _selected_by: whatever the walker does instead is folded over every
        # union of the layout and every selector value (W7 in folding mode)
        return w7_fold(run, roles, L)
    run.require(len(ps) >= 5, "W7: paths of process_tpmu not found")
    ok = len(inv) == 1 and match(list(inv.values())[0].value, "{M_v: M_k for M_k, M_v in tpm_type._selected_by.items()}") is not None
    run.ob("W7", ok, "arm lookup = inverted _selected_by (selector value -> member)",
           f"selection map is `{[norm(e.value) for e in inv.values()]}`", module=mod, node=fn, func=fn.name, construct="selection map")
    if not ok:
        return
    SEL = list(inv)[0]
    A, B = f"selector in {SEL}", f"None in {SEL}"
    n_dec = 0
    # the map's values are member names (the keys of _selected_by, field names by C20-T4): `map[k] is None` never holds, so a
    # "no member found" marker None is told apart from a found member without further ado
    def never(a_):
        return a_ in (f"{SEL}[selector] is None", f"{SEL}[None] is None")
    ps = [p for p in ps if not any(never(a_) and v for a_, v, _ in p.cond)]
    for p in ps:
        p.cond = [c_ for c_ in p.cond if not never(c_[0])]
    for p in ps:
        lab = " & ".join(("" if v else "not ") + a_[:50] for a_, v, _ in p.cond if a_ not in ("none is None", "hasattr(tpm_type, '_selected_by')"))
        a_, b_ = p.truth(A), p.truth(B)
        key = "selector" if a_ else "None" if (a_ is False and b_) else None
        yfs = [(e, n) for k, e, n in p.effects if k == "yieldfrom"]
        if a_ is False and b_ is False:
            okr = p.end == "raise" and not yfs and (call_name(p.value) or "") == "ValueConstraintViolatedError"
            run.ob("W7", okr, "a selector value without arm (and no wildcard arm) is a value error", f"[{lab}] ends with {p.end} "
                   f"{p.value_text()}", module=mod, node=p.node or fn, func=fn.name, construct="selection chain")
            continue
        if key is None:
            run.ob("W7", False, f"process_tpmu [{lab}]", "member = map[selector], else the None (wildcard) member, else error: this path "
                   f"decides without consulting `{A}` / `{B}` in that order", module=mod, node=p.node or fn, func=fn.name,
                   construct="selection chain")
            continue
        F = f"next((M_f for M_f in fields(tpm_type) if M_f.name == {SEL}[{key}]))"
        empty = None
        for c_, v_, _n in p.cond:
            if c_.endswith(".type is None"):
                okf = match(paths.pattern_expr(c_), f"{F}.type is None") is not None
                run.ob("W7", okf, "the selected member is the field of that name", f"member lookup by name changed: `{c_}`", module=mod,
                       node=_n, func=fn.name, construct="member lookup")
                empty = v_
        if empty is None:
            run.ob("W7", False, f"process_tpmu [{lab}]", "the `field.type is None` shortcut changed: an arm is decoded without testing for "
                   "an absent payload", module=mod, node=p.node or fn, func=fn.name, construct="empty member")
            continue
        if empty:
            run.ob("W7", p.end == "return" and p.value_text() == "(0, None)" and not yfs, "a member without payload decodes to nothing",
                   f"the `field.type is None` shortcut changed: [{lab}] gives {p.end} {p.value_text()}", module=mod,
                   node=p.node or fn, func=fn.name, construct="empty member")
            continue
        n_dec += 1
        if len(yfs) != 1 or not isinstance(yfs[0][0], ast.Call) or call_name(yfs[0][0]) != d:
            run.ob("W5", False, f"process_tpmu [{lab}]", f"{len(yfs)} decodes for one arm", module=mod, node=p.node or fn, func=fn.name,
                   construct="process_tpmu child")
            continue
        c = yfs[0][0]
        # (the name of the field found by name is that name: summaries spell `field.name` as the looked-up name itself)
        NAME = f"{SEL}[{key}]"
        okc = len(c.args) == 2 and match(c.args[0], f"{F}.type") is not None and (
            match(c.args[1], f"path / PathNode({F}.name)") is not None or match(c.args[1], f"path / PathNode({NAME})") is not None)
        run.ob("W5", okc, "process_tpmu: decodes field.type at path / PathNode(field.name)",
               f"decodes `{norm(c.args[0])[:80]}` at `{norm(c.args[1])[:80]}`" if len(c.args) == 2 else "positional arguments changed",
               module=mod, node=yfs[0][1], func=fn.name, construct="process_tpmu child")
        kws = {k.arg: k.value for k in c.keywords if k.arg}
        for kn in ("size_constraints", "abort_on_error"):
            run.ob("W5", kn in kws and norm(kws[kn]) == kn, f"process_tpmu: {kn} passed down", f"{kn} is "
                   f"`{norm(kws[kn]) if kn in kws else None}`", module=mod, node=yfs[0][1], func=fn.name, construct=f"process_tpmu {kn}")
        islist = None
        for c_, v_, _n in p.cond:
            if c_.startswith("is_list(") and match(paths.pattern_expr(c_), f"is_list({F}.type)") is not None:
                islist = v_
        cnt = kws.get("count")
        has_cnt = cnt is not None and not (isinstance(cnt, ast.Constant) and cnt.value is None)
        if islist:
            okl = has_cnt and (match(cnt, f"tpm_type._list_size[{F}.name]") is not None or match(cnt, f"tpm_type._list_size[{NAME}]") is not None)
            run.ob("W6", okl, "union member of list type: count = _list_size[member]", f"count is `{norm(cnt) if cnt is not None else None}`",
                   module=mod, node=yfs[0][1], func=fn.name, construct="union list arm count")
        else:
            run.ob("W6", islist is False and not has_cnt, "union member of scalar type: no count",
                   f"count is `{norm(cnt) if cnt is not None else None}` on a path where the arm is "
                   f"{'not known to be a list' if islist is None else 'not a list'}", module=mod, node=yfs[0][1], func=fn.name,
                   construct="union list arm count")
        extra = sorted(set(kws) - {"size_constraints", "abort_on_error", "count"})
        run.ob("W6", not extra, "union arm decode takes no other inputs", f"extra inputs {extra}", module=mod, node=yfs[0][1],
               func=fn.name, construct="process_tpmu child")
        okr = p.end == "return" and p.value_text() == f"(_yf0[0], tpm_type(**{{{SEL}[{key}]: _yf0[1]}}))"
        run.ob("W7", okr, "union object holds exactly the selected member", f"returns `{p.value_text()}`", module=mod, node=p.node or fn,
               func=fn.name, construct="process_tpmu return")
    run.require(n_dec >= 2, "W7: decoding paths of process_tpmu not found")
    if L is not None and getattr(run, "tier", "quick") == "thorough":
        # thorough tier: the folding mode as a second, independent decision of the same clause
        w7_fold(run, roles, L)


def w7_fold(run, roles, L):
    """W7 in folding mode.  The union walker is evaluated (tpmsa.minieval, no import) for every union class of the layout and
    every selector value of its table, plus one value outside the table; its sub-decodes are stubbed and recorded.  Required
    (the meaning of the inverted `_selected_by` lookup): the member is the LAST one listed for the selector, else the last one
    listed for None, else a value error; a member without payload decodes to (0, None); otherwise exactly one decode of the
    member's type at path / PathNode(member), with count = _list_size[member] exactly for list members and the two context
    arguments handed down, and the object holds that one member."""
    from ..minieval import Interp, Raised, TypeRef, ListAlias, GenResult
    from ..specmodel import ClassV, ListT, EnumMember
    mod, project = roles.mod, roles.project
    fn = roles.walkers["process_tpmu"]
    d = roles.dispatcher.name
    params = [a.arg for a in fn.args.args]
    if params[:3] != ["tpm_type", "path", "selector"]:
        raise AnalysisError("W7: process_tpmu no longer takes (tpm_type, path, selector, ...)")

    def skey(v):
        if isinstance(v, EnumMember):
            return v.value
        if v is None or isinstance(v, (int, str)):
            return v
        return f"<{getattr(v, 'name', repr(v))}>"

    def tref(t):
        if t is None:
            return None
        if isinstance(t, ListT):
            return ListAlias(tref(t.elem))
        return TypeRef(getattr(t, "name", str(t)))

    n_cases = n_unions = 0
    from .c20 import reachable_unions   # (the unions some command / response / structure can reach, as in C20-T5)
    for c in sorted(reachable_unions(L), key=lambda u: u.name):
        uname = c.name
        sb = L.dict_attr(c, "_selected_by")
        ls = L.dict_attr(c, "_list_size") if c.has("_list_size") else None
        table = [(k, skey(v)) for k, v, _ in sb.items]
        sizes = {k: skey(v) for k, v, _ in ls.items} if ls is not None else None
        flds = L.fields(c)
        n_unions += 1
        outside = "<no such selector>"
        for sel in list(dict.fromkeys(v for _, v in table if v is not None)) + [outside]:
            n_cases += 1
            # ---- required
            hit = [k for k, v in table if v == sel and v is not None] or [k for k, v in table if v is None]
            member = hit[-1] if hit else None
            # ---- observed
            calls = []

            def process_stub(*a, **kw):
                calls.append((a, kw))
                return GenResult((7, "<value>"), [("child", len(calls))])
            path = TypeRef("path")
            path.attrs["__binop__"] = lambda op, b: ("path", op, b)
            made = []
            T = TypeRef(uname, attrs={"_selected_by": dict(table)})
            if sizes is not None:
                T.attrs["_list_size"] = dict(sizes)
            T.attrs["__call__"] = lambda *a, **kw: made.append((a, kw)) or ("object", len(made))
            field_objs = [TypeRef("Field", attrs={"name": n_, "type": tref(t_)}) for n_, t_ in flds]
            g = {"fields": lambda t_: list(field_objs) if t_ is T else [], "is_list": lambda t_: isinstance(t_, ListAlias),
                 d: process_stub, "MarshalEvent": lambda *a, **kw: ("event",) + tuple(a), "PathNode": lambda *a, **kw: ("node",) + tuple(a) +
                 tuple(sorted(kw.items())), "ValueConstraint": lambda *a, **kw: ("constraint",), "ValidValues": lambda *a, **kw: ("valid",) + tuple(a)}
            it = Interp(g, max_steps=200000, module_tree=mod.tree)
            # functions and classes of other project modules the walker uses by name are evaluated from their source as well
            from ..minieval import bind_project
            bind_project(it, project, mod, g)
            SC, AOE = TypeRef("size_constraints"), TypeRef("abort_on_error")
            kwargs = {}
            if "size_constraints" in params:
                kwargs["size_constraints"] = SC
            if "abort_on_error" in params:
                kwargs["abort_on_error"] = AOE
            where = f"{uname} with selector {sel}"
            try:
                res = ("return", it.call(fn, [T, path, sel], kwargs))
            except Raised as r:
                res = ("raise", r.cls)
            own = [y for y in it.yields if not (isinstance(y, tuple) and y and y[0] == "child")]
            if member is None:
                ok = res == ("raise", "ValueConstraintViolatedError") and not calls
                run.ob("W7", ok, f"{where}: no member, no wildcard member -> value error",
                       f"process_tpmu for {where} (no member listed for it and no wildcard member) gives {res[0]} {res[1]!r} after "
                       f"{len(calls)} decode(s) where a ValueConstraintViolatedError is required", module=mod, node=fn, func=fn.name,
                       construct="selection chain")
                continue
            ftype = dict(flds).get(member, "?")
            if ftype == "?":
                raise AnalysisError(f"W7: {uname}._selected_by names `{member}`, which is not a field (C20-T4)")
            okev = own[:1] == [("event", path, T, Ellipsis)] and len(own) == 1
            run.ob("W7", okev, f"{where}: the union's own event comes first, once", f"process_tpmu for {where} yields {own!r} of its own",
                   module=mod, node=fn, func=fn.name, construct="process_tpmu return")
            if ftype is None:
                ok = res == ("return", (0, None)) and not calls
                run.ob("W7", ok, f"{where}: member `{member}` has no payload -> (0, None)", f"process_tpmu for {where} (member `{member}`, "
                       f"without payload) gives {res[0]} {res[1]!r} after {len(calls)} decode(s) where (0, None) and no decode is required",
                       module=mod, node=fn, func=fn.name, construct="empty member")
                continue
            want_t = tref(ftype)
            islist = isinstance(ftype, ListT)
            desc = None
            if res[0] != "return" or len(calls) != 1:
                desc = f"gives {res[0]} {res[1]!r} after {len(calls)} decode(s)"
                picked = None
            else:
                a, kw = calls[0]
                got_t = a[0] if a else kw.get("tpm_type")
                got_p = a[1] if len(a) > 1 else kw.get("path")
                same_t = (isinstance(got_t, TypeRef) and isinstance(want_t, TypeRef) and got_t.name == want_t.name) or \
                    (isinstance(got_t, ListAlias) and isinstance(want_t, ListAlias) and getattr(got_t.elem, "name", None) == getattr(want_t.elem, "name", None))
                picked = next((n_ for n_, fo in zip((n for n, _ in flds), field_objs) if fo.attrs["type"] is got_t), None)
                if not same_t or got_p != ("path", "Div", ("node", member)):
                    desc = f"decodes {got_t!r} at {got_p!r} (member `{picked}`)" if picked != member else f"decodes at {got_p!r}"
                elif kw.get("size_constraints") is not SC or kw.get("abort_on_error") is not AOE:
                    desc = "does not hand size_constraints / abort_on_error down to the member's decode"
                elif set(kw) - {"size_constraints", "abort_on_error", "count", "tpm_type", "path"} or len(a) > 2:
                    desc = f"passes extra inputs {sorted(set(kw) - {'size_constraints', 'abort_on_error', 'count'})} to the member's decode"
                elif (kw.get("count") if islist else None) != (sizes or {}).get(member) if islist else kw.get("count") is not None:
                    desc = f"decodes with count={kw.get('count')!r}" + (f" where _list_size[{member}] = {(sizes or {}).get(member)!r} is required" if islist else
                                                                        " although the member is not a list")
                elif not (isinstance(res[1], tuple) and len(res[1]) == 2 and res[1][0] == 7 and res[1][1] == ("object", 1)
                          and made == [((), {member: "<value>"})]):
                    desc = f"returns {res[1]!r} built from {made!r}"
            kind = "union list arm count" if desc and "count" in desc else "process_tpmu return" if desc and desc.startswith("returns") else \
                "selection chain" if desc and ("member `" in desc or "gives" in desc) else "process_tpmu child"
            run.ob("W6" if kind == "union list arm count" else "W7", desc is None,
                   f"{where}: member `{member}` decoded once at path / PathNode({member}) and returned as the only member",
                   f"process_tpmu for {where} must decode member `{member}` (the last one listed for the selector, else the wildcard member): it {desc}",
                   module=mod, node=fn, func=fn.name, construct=kind)
    run.require(n_unions >= 10 and n_cases >= 60, f"W7: only {n_unions} unions / {n_cases} selector cases folded")
    run.info(f"W7: the union walker was folded over {n_unions} reachable unions x their selector values ({n_cases} cases)")


# ------------------------------------------------------------------------------ framing
REF_FIELDS = {
    ("process_command", False): ["tag", "commandSize", "commandCode", "handles", "parameters"],
    ("process_command", True): ["tag", "commandSize", "commandCode", "handles", "authSize", "authorizationArea", "parameters"],
    ("process_response", False, False): ["tag", "responseSize", "responseCode", "handles", "parameters"],
    ("process_response", True, False): ["tag", "responseSize", "responseCode", "handles", "parameterSize", "parameters", "authorizationArea"],
    ("process_response", False, True): ["tag", "responseSize", "responseCode"],
    ("process_response", True, True): ["tag", "responseSize", "responseCode"],
}


def penc_flag_ok(sp, tr, pe, wants, area_kw=None):
    """is the encryption flag `pe` handed to a decode `E or None` for one of the accepted predicate calls E (wants:
    [("ornone", ("penc", kwargs, args))]) - spelled as that value, or as a branch on E that sets the flag to True
    (`flag = None ... if E: flag = True`), in which case the trace's decision on E and the flag must agree"""
    def same_call(v, w):
        if v == w[1]:
            return True
        # the area may be passed by keyword under any name
        if v[0] == "penc" and w[1][0] == "penc" and area_kw is not None:
            kv = dict(v[1])
            kw_ = dict(w[1][1])
            extra = [x for k_, x in kv.items() if k_ not in kw_]
            return {k_: x for k_, x in kv.items() if k_ in kw_} == kw_ and tuple(extra) + tuple(v[2]) == tuple(w[1][2])
        return False
    if pe in wants:
        return True
    if isinstance(pe, tuple) and pe[:1] == ("encreq",) and wants:
        # the normal form of the request (tpmsa.encreq): True exactly when a session of THE area sets THE direction's bit,
        # None otherwise (and for an absent area)
        bit = "encrypt" if dict(wants[0][1][1]).get("for_response") == ("const", True) else "decrypt"
        return area_kw is not None and pe[1] == area_kw and pe[2] == bit and pe[3] == (None, True, None)
    if isinstance(pe, tuple) and pe[:1] == ("ornone",) and any(same_call(pe[1], w) for w in wants):
        return True
    for key, val in tr.decisions.items():
        v = getattr(tr, "decision_values", {}).get(key)
        if v is None:
            continue
        if isinstance(v, tuple) and v[:1] == ("penc",) and any(same_call(v, w) for w in wants):
            return (pe == ("const", True)) if val else (pe in (("const", None), None))
    return False


def atom_semantics(text):
    """map a dynamic condition text to (what, polarity-when-True)"""
    t = text.replace('"', "'")
    if t in ("values['tag'] != TPM_ST.SESSIONS", "TPM_ST.SESSIONS != values['tag']"):
        return ("sessions", False)
    if t in ("values['tag'] == TPM_ST.SESSIONS", "TPM_ST.SESSIONS == values['tag']"):
        return ("sessions", True)
    if t in ("values['tag'] == TPM_ST.NO_SESSIONS", "TPM_ST.NO_SESSIONS == values['tag']"):
        return ("sessions", False, "when-true")   # (says nothing when false: another tag may still be the sessions tag)
    if t in ("values['responseCode'] != TPM_RC.SUCCESS", "TPM_RC.SUCCESS != values['responseCode']"):
        return ("failed", True)
    if t in ("values['responseCode'] == TPM_RC.SUCCESS", "TPM_RC.SUCCESS == values['responseCode']"):
        return ("failed", False)
    if t.startswith("is_parameter_encryption(") and t.endswith(")"):
        return ("encryption requested", True)   # decides the flag handed to the parameter decode, not which fields exist
    return None


def framing(run, roles, L):
    mod = roles.mod
    d = roles.dispatcher.name
    for w, T, tables in (("process_command", L.Command, ("command_handle_types", "command_param_types")),
                         ("process_response", L.Response, ("response_handle_types", "response_param_types"))):
        fn = roles.walkers[w]
        sp = Specialiser(L, mod, fn, T, dispatcher=d)
        traces = [s for s in sp.run() if s.status == "return"]
        # the walker decodes T: `tpm_type = Command`
        bind = [s for s in fn.body if isinstance(s, ast.Assign) and norm(s.targets[0]) == "tpm_type"]
        run.ob("F", len(bind) == 1 and norm(bind[0].value) == T.name, f"{w} decodes {T.name}", f"tpm_type is `{norm(bind[0].value) if bind else None}`",
               module=mod, node=bind[0] if bind else fn, func=w, construct=f"{w} type")
        seen_variants = set()
        for tr in traces:
            sem = {}
            unknown = []
            for text, val in tr.decisions.items():
                a = atom_semantics(text)
                if a is None:
                    unknown.append(text)
                elif len(a) == 3 and a[2] == "when-true":
                    if val:
                        sem[a[0]] = a[1]
                    else:
                        sem.setdefault(a[0], None)   # a tag other than this one: undecided unless another test decides
                else:
                    sem[a[0]] = val if a[1] else not val
            vid = "[" + ", ".join(f"{k}={v}" for k, v in sorted(sem.items())) + ("; " + "; ".join(unknown) if unknown else "") + "]"
            procs = [e for e in tr.trace if e.kind == "process"]
            got = [p.data["field"] for p in procs]
            if sem.get("sessions", 0) is None:
                # (every tag that is not the sessions tag is framed like NO_SESSIONS: the reference layout without sessions)
                sem["sessions"] = False
            sessions = sem.get("sessions")
            failed = sem.get("failed") if w == "process_response" else False
            key = (w, bool(sessions)) if w == "process_command" else (w, bool(sessions), bool(failed))
            # a trace that never consulted the tag / the response code stands for inputs of both kinds: the layouts of all
            # variants it covers must coincide (else the framing ignores a condition it has to depend on)
            cands = [REF_FIELDS[k] for k in REF_FIELDS if k[0] == w and (sessions is None or k[1] == bool(sessions))
                     and (w == "process_command" or failed is None or k[2] == bool(failed))]
            ref = cands[0] if cands and all(c == cands[0] for c in cands) else None
            if ref is None and cands:
                # report against the variant the trace does NOT handle
                ref = next((c for c in cands if c != got), cands[0])
            seen_variants.add(key)
            for u in unknown:
                run.ob("F", False, f"{w} {vid}", f"framing depends on an extra condition `{u}` (which fields exist must be decided by "
                       "the tag and the response code alone)", module=mod, node=fn, func=w, construct=f"{w} extra framing condition: {u}")
            run.ob("F", ref is not None and got == ref, f"{w} {vid}: decodes {ref}",
                   f"decodes {got}; the layout for this tag / response code is {ref}", module=mod,
                   node=procs[-1].node if procs else fn, func=w, construct=f"{w} fields {vid}")
            for p in procs:
                f = p.data["field"]
                decl = dict(L.fields(T)).get(f)
                t = p.data["type"]
                exp_path = ("path", ("param", "path"), ("pathnode", ("const", f)))
                run.ob("W5", p.data["path"] == exp_path, f"{w} {vid}: {f} at path / PathNode('{f}')", f"path is `{render(p.data['path'])}`",
                       module=mod, node=p.node, func=w, construct=f"{w} child path of {f}")
                if decl is ANY:
                    tbl = tables[0] if f == "handles" else tables[1]
                    keysrc = ("value", "commandCode") if w == "process_command" else ("param", "command_code")
                    ok = isinstance(t, tuple) and t[0] == "tabletype" and t[1] == tbl and t[2] == keysrc
                    run.ob("F", ok, f"{w} {vid}: {f} layout = {tbl}[{render(keysrc)}]",
                           f"{f} is decoded as `{render(t)}`", module=mod, node=p.node, func=w, construct=f"{w} area type of {f}")
                else:
                    ok = isinstance(t, tuple) and t[0] == "type" and t[1] is decl
                    run.ob("F", ok, f"{w} {vid}: {f} decoded as its declared type", f"{f} is decoded as `{render(t)}`", module=mod,
                           node=p.node, func=w, construct=f"{w} type of {f}")
                # byte-sized session area
                asc = p.data["kwargs"].get("array_size_constraint")
                if f == "authorizationArea":
                    run.ob("F", asc is not None and asc[0] == "region", f"{w} {vid}: session area is sized in bytes",
                           f"array_size_constraint is `{render(asc)}`", module=mod, node=p.node, func=w,
                           construct=f"{w} authorizationArea sizing")
                else:
                    run.ob("F", asc is None or asc == ("const", None), f"{w} {vid}: {f} has no byte-size region of its own",
                           f"array_size_constraint is `{render(asc)}`", module=mod, node=p.node, func=w,
                           construct=f"{w} array_size_constraint of {f}")
                # encryption flag
                pe = p.data["kwargs"].get("parameter_encryption")
                # a value read back from the object under construction is the value that was stored there
                st_now = {e.data["key"]: e.data["value"] for e in tr.trace if e.kind == "store" and e.data.get("dict") == "values"}

                def back(v):
                    if isinstance(v, tuple):
                        if len(v) == 2 and v[0] == "value" and v[1] in st_now:
                            return st_now[v[1]]
                        return tuple(back(x) for x in v)
                    return v
                pe = back(pe)
                # the predicate called without any session area answers False (C09-S3): `E(None) or None` is None
                if isinstance(pe, tuple) and pe[:1] == ("ornone",) and isinstance(pe[1], tuple) and pe[1][:1] == ("penc",) \
                        and [x for _k, x in pe[1][1] if _k in ("authorizationArea", "command")] + list(pe[1][2]) == [("const", None)] \
                        and not [x for _k, x in pe[1][1] if _k not in ("authorizationArea", "command", "for_response")]:
                    pe = ("const", None)
                if w == "process_command":
                    if f == "parameters" and sessions:
                        auth = next((q for q in procs if q.data["field"] == "authorizationArea"), None)
                        area_v = ("result", ("authorizationArea", auth.data["index"]), 1) if auth else None
                        wants = [("ornone", ("penc", (("authorizationArea", area_v),), ())), ("ornone", ("penc", (), (area_v,)))] if auth else []
                        run.ob("F", bool(auth) and penc_flag_ok(sp, tr, pe, wants, area_kw=area_v),
                               f"{w} {vid}: first parameter opaque iff a session requests decryption",
                               f"parameter_encryption for parameters is `{render(pe)}`", module=mod, node=p.node, func=w,
                               construct=f"{w} parameter_encryption provenance")
                    else:
                        run.ob("F", pe is None or pe == ("const", None), f"{w} {vid}: no encryption flag for {f}",
                               f"parameter_encryption for {f} is `{render(pe)}`", module=mod, node=p.node, func=w,
                               construct=f"{w} parameter_encryption of {f}")
                else:
                    run.ob("F", pe == ("param", "parameter_encryption"), f"{w} {vid}: caller's encryption flag reaches {f}",
                           f"parameter_encryption for {f} is `{render(pe)}`", module=mod, node=p.node, func=w,
                           construct=f"{w} parameter_encryption of {f}")
            # the cross-check of the caller's encryption flag against the decoded session area can only be made where a
            # session area was decoded: evaluated in any other variant (no sessions, failed response) it compares the flag
            # with "no area" and fails for a perfectly well-formed message whose command asked for response encryption
            if w == "process_response":
                for e in tr.trace:
                    if e.kind == "assertion" and "parameter_encryption" in e.data["src"]:
                        has_area = "authorizationArea" in [q.data["field"] for q in procs]
                        run.ob("F", has_area, f"{w} {vid}: the encryption cross-check is made only where a session area was decoded",
                               f"`assert {e.data['src'][:70]}` is evaluated in the variant {vid}, which decodes no session area: a well-formed "
                               "message of this kind (a failed response, a response without sessions) decoded with the encryption flag set "
                               "dies with AssertionError after its header", module=mod, node=e.node, func=w,
                               construct=f"{w} cross-check outside session variants")
            # stores: values[f] = decoded value, for exactly the processed fields
            stores = {e.data["key"]: e for e in tr.trace if e.kind == "store" and e.data["dict"] == "values"}
            for p in procs:
                f = p.data["field"]
                s = stores.get(f)
                ok = s is not None and s.data["value"] == ("result", (f, p.data["index"]), 1)
                run.ob("W4", ok, f"{w} {vid}: values['{f}'] = decoded {f}", f"values['{f}'] is `{render(s.data['value']) if s else None}`",
                       module=mod, node=s.node if s else p.node, func=w, construct=f"{w} store of {f}")
            run.ob("W4", set(stores) == set(got), f"{w} {vid}: object has exactly the decoded fields",
                   f"stored {sorted(stores)} vs decoded {got}", module=mod, node=fn, func=w, construct=f"{w} stored fields {vid}")
            unb = [e for e in tr.trace if e.kind == "unbound_key"]
            for e in unb:
                run.ob("F", False, f"{w} {vid}: values[{e.data['key']!r}] read before it is decoded",
                       f"values['{e.data['key']}'] is read on a path where that field has not been decoded (KeyError)", module=mod,
                       node=e.node, func=w, construct=f"{w} early read of {e.data['key']}")
        need = {k for k in REF_FIELDS if k[0] == w}
        run.ob("F", need <= seen_variants or (w == "process_response" and {k for k in need if not k[2]} <= seen_variants),
               f"{w}: every (tag, response code) variant is reachable", f"variants found {sorted(seen_variants)}", module=mod,
               node=fn, func=w, construct=f"{w} variants")
    # encrypted first parameter: substitution exactly when the flag is truthy and the type is a TPMS_PARAMS subclass
    fn = roles.walkers["process_tpms"]
    encrypted_guard(run, roles, L, "F")
    # the struct walker does not forward the flag to children (it is inert below the area)
    d_calls = [c for c in walk_no_nested(fn) if isinstance(c, ast.Call) and call_name(c) == d]
    fw = [c for c in d_calls if kwarg(c, "parameter_encryption") is not None]
    run.ob("F", not fw, "the encryption flag stops at the parameter area", "the struct walker forwards parameter_encryption to nested fields",
           module=mod, node=fw[0] if fw else fn, func=fn.name, construct="parameter_encryption forwarding")


def encrypted_guard(run, roles, L, rule):
    """`tpm_type.encrypted()` replaces the layout exactly when the flag is set and the type is a parameter area: the
    type-dependent conditions on the substituting paths of the struct walker are evaluated on every dataclass of L."""
    from .. import paths
    mod = roles.mod
    fn = roles.walkers["process_tpms"]
    tparam = fn.args.args[0].arg
    head = []
    for st in fn.body:
        head.append(st)
        if any(isinstance(x, (ast.Yield, ast.YieldFrom)) for x in ast.walk(st)):
            break
    S = paths.Summariser(mod, fn)
    done, live = S.run(head[:-1])
    pre = done + live
    if not pre:
        raise AnalysisError("F: prologue of the struct walker has no path")
    subst = [p for p in pre if p.env.get(tparam) is not None and paths.text(p.env[tparam]) == f"{tparam}.encrypted()"]
    plain = [p for p in pre if p.env.get(tparam) is None]
    other = [p for p in pre if p not in subst and p not in plain]
    run.ob(rule, bool(subst) and not other, "the struct walker substitutes tpm_type.encrypted() on some path and nothing else",
           f"layout substitutions: {[paths.text(p.env[tparam]) for p in other]}" if other else "no path substitutes the encrypted layout",
           module=mod, node=fn, func=fn.name, construct="encrypted() substitution")
    FLAG = "truthy parameter_encryption"

    def has_attr(c, name):
        return isinstance(c, ClassV) and (c.has(name) or any(n == name for n, _ in (L.fields(c) if L.is_dataclass(c) else [])))

    def holds(atom, val, c):
        """truth of a type-dependent atom for class c (None: not type-dependent)"""
        e = paths.pattern_expr(atom[len("truthy "):] if atom.startswith("truthy ") else atom)
        if isinstance(e, ast.Call) and call_name(e) == "hasattr" and len(e.args) == 2 and norm(e.args[0]) == tparam \
                and isinstance(e.args[1], ast.Constant):
            return has_attr(c, e.args[1].value) == val
        try:
            return eval_pred(e, c, False, L, tparam) == val
        except AnalysisError:
            return None
    domain = [(k, c) for k, c in sorted(L.all.items()) if isinstance(c, ClassV) and L.is_dataclass(c)] + [("TPMS_PARAMS", L.TPMS_PARAMS)]
    for p in subst:
        run.ob(rule, p.truth(FLAG) is True, "opaque first parameter only when the flag is set",
               f"the encrypted layout is substituted on a path where the flag is {p.truth(FLAG)}", module=mod, node=fn, func=fn.name,
               construct="encrypted() substitution")
        type_atoms = [(a, v) for a, v, _ in p.cond if a != FLAG and tparam in a]
        unknown = [a for a, v in type_atoms if holds(a, v, L.TPMS_PARAMS) is None]
        if unknown:
            raise AnalysisError(f"F: substitution guard `{unknown[0]}` is outside the modelled vocabulary")
        bad = []
        for k, c in domain:
            taken = all(holds(a, v, c) for a, v in type_atoms)
            if taken != c.is_subclass_of(L.TPMS_PARAMS):
                bad.append(k)
        run.ob(rule, not bad, "opaque first parameter iff the flag is set and the type is a parameter area",
               f"substitution guard is `{' and '.join(('' if v else 'not ') + a for a, v, _ in p.cond)}`: for {bad[:4]} "
               f"({len(bad)} types) it {'calls' if bad and not L.all.get(bad[0], L.TPMS_PARAMS).is_subclass_of(L.TPMS_PARAMS) else 'skips'} "
               "`.encrypted()` although the type is "
               f"{'not ' if bad and not L.all.get(bad[0], L.TPMS_PARAMS).is_subclass_of(L.TPMS_PARAMS) else ''}a parameter area "
               "(a field named `encrypted` is not the classmethod: TypeError)", module=mod, node=p.cond[-1][2] if p.cond else fn,
               func=fn.name, construct="encrypted() substitution")
    # with the flag set and a parameter area, no path keeps the plain layout
    for p in plain:
        if p.truth(FLAG) is True:
            type_atoms = [(a, v) for a, v, _ in p.cond if a != FLAG and tparam in a]
            keeps = [k for k, c in domain if c.is_subclass_of(L.TPMS_PARAMS) and c is not L.TPMS_PARAMS
                     and all(holds(a, v, c) for a, v in type_atoms)]
            run.ob(rule, not keeps, "with the flag set every parameter area gets the encrypted layout",
                   f"{keeps[:3]} keep their plain layout although the flag is set", module=mod, node=fn, func=fn.name,
                   construct="encrypted() substitution")


def helper_semantics(run, project, roles):
    """is_list and the encrypted() synthesis that the walkers rely on: the functions are folded over the table data they
    are applied to (every type shape / every parameter area of L) and the results compared - their text is not looked at"""
    from ..minieval import Interp, ListAlias, NewType, Raised, TypeRef
    L = ctx.layout(project)
    util = project.module("tpmstream.common.util")
    f = util.functions().get("is_list")
    if f is None:
        raise AnalysisError("is_list not found")
    lst = TypeRef("list")
    cases = [("list", lst, True), ("list[BYTE]", ListAlias(TypeRef("BYTE")), True), ("list[TPMS_X]", ListAlias(TypeRef("TPMS_X")), True),
             ("UINT16", TypeRef("UINT16"), False), ("TPMS_X", TypeRef("TPMS_X", annotations={}), False), ("None", None, False),
             ("dict", TypeRef("dict"), False)]
    for label_, v, want in cases:
        try:
            got = Interp({"list": lst}).call(f, [v])
        except Raised as r:
            got = f"raises {r.cls}"
        run.ob("W6", got is want, f"is_list({label_}) is {want}", f"is_list({label_}) gives {got}: is_list recognises list and list[...] only",
               module=util, node=f, func="is_list", construct="is_list")
    pc = project.module("tpmstream.spec.commands.params_common")
    e = pc.functions().get("TPMS_PARAMS.encrypted")
    if e is None:
        raise AnalysisError("TPMS_PARAMS.encrypted not found")
    ENC = TypeRef("TPM2B_ENCRYPTED_PARAM")

    def tref(t):
        return ListAlias(TypeRef(L.key(t.elem))) if isinstance(t, ListT) else TypeRef(t.name if isinstance(t, ClassV) else str(t))
    areas = [(k, c) for k, c in sorted(L.all.items()) if isinstance(c, ClassV) and c.is_subclass_of(L.TPMS_PARAMS)]
    n = 0
    for k, c in areas:
        own = [(fn_, ft) for fn_, ft in L.fields(c)] if c is not L.TPMS_PARAMS else []
        cls = TypeRef(c.name, annotations={fn_: tref(ft) for fn_, ft in own} if own else None, attrs={"_encrypted": False})
        marks = []

        def tpm_dataclass(x, marks=marks):
            marks.append(x)
            return x
        try:
            got = Interp({"TPM2B_ENCRYPTED_PARAM": ENC, "tpm_dataclass": tpm_dataclass}, module_tree=pc.tree).call(e, [cls])
        except Raised as r:
            run.ob("F", False, f"encrypted() of {k}", f"encrypted() raises {r.cls} for the parameter area {k} (line {getattr(r.node, 'lineno', '?')})",
                   module=pc, node=r.node, func="TPMS_PARAMS.encrypted", construct="encrypted() failure")
            continue
        n += 1
        first = own[0][1] if own else None
        opaque = isinstance(first, ClassV) and first.name.startswith("TPM2B")
        if not opaque:
            run.ob("F", got is cls, f"encrypted() of {k}: no leading TPM2B parameter, the area is unchanged",
                   f"encrypted() of {k} (first parameter {L.key(first) if first is not None else None}) gives {got!r} instead of the class "
                   "itself: the synthesis of the encrypted parameter layout changed", module=pc, node=e, func="TPMS_PARAMS.encrypted",
                   construct="encrypted() plain areas")
            continue
        ok = isinstance(got, NewType) and got.name == c.name and got in marks
        ann = got.attrs.get("__annotations__") if isinstance(got, NewType) else None
        want = [(own[0][0], "TPM2B_ENCRYPTED_PARAM")] + [(fn_, tref(ft)) for fn_, ft in own[1:]]
        okann = isinstance(ann, dict) and len(ann) == len(want) and all(
            a == w[0] and ((isinstance(t, TypeRef) and (t.name == w[1] if isinstance(w[1], str) else isinstance(w[1], TypeRef) and t.name == w[1].name))
                           or (isinstance(t, ListAlias) and isinstance(w[1], ListAlias) and t.elem.name == w[1].elem.name))
            for (a, t), w in zip(ann.items(), want))
        run.ob("F", ok and okann and got.attrs.get("_encrypted") is True,
               f"encrypted() of {k}: first parameter becomes TPM2B_ENCRYPTED_PARAM, the others keep their order",
               f"encrypted() of {k} gives {got!r} (dataclass: {got in marks if isinstance(got, NewType) else None}, _encrypted: "
               f"{got.attrs.get('_encrypted') if isinstance(got, NewType) else None}): the synthesis of the encrypted parameter layout changed",
               module=pc, node=e, func="TPMS_PARAMS.encrypted", construct="encrypted() synthesis")
    run.require(n >= 200, f"F: encrypted() folded over only {n} parameter areas")


def w11(run, roles):
    """the size-prefixed walker chooses the payload decode by (payload is a list, size is 0): a list payload is decoded
    with count = the size value, a structured payload of size 0 is absent (its own `...` event, value None, nothing
    decoded), any other structured payload is decoded as its declared type - as a decision table over the walker's
    completing paths"""
    from .outcomes import View, label
    fn = roles.walkers.get("process_tpm2b")
    if fn is None:
        raise AnalysisError("size-prefixed walker not found")
    mod, d = roles.mod, roles.dispatcher.name
    ps = [p for p in paths.summarise(mod, fn) if p.end == "return" and not any(a.startswith("try@") for a, _v, _ in p.cond)]
    atoms = {a for p in ps for a, _v, _ in p.cond}
    Ls = sorted(a for a in atoms if a.startswith("is_list("))
    Zs = sorted(a for a in atoms if a.endswith(" == 0"))
    run.require(len(Ls) == 1 and len(Zs) == 1, f"W11: payload-kind tests of process_tpm2b not found ({Ls}, {Zs})")
    Lx, Zx = Ls[0], Zs[0]
    size_sym = Zx[:-len(" == 0")]
    rows = [({Lx: True}, "list payload, count = size"), ({Lx: False, Zx: True}, "absent payload: its own event, value None"),
            ({Lx: False, Zx: False}, "structured payload decoded as declared")]
    n = 0
    for p in ps:
        procs = [e for k, e, _n in p.effects if k == "yieldfrom" and isinstance(e, ast.Call) and call_name(e) == d]
        evs = [e for k, e, _n in p.effects if k == "yield" and isinstance(e, ast.Call) and call_name(e) == "MarshalEvent"]
        nones = [paths.text(e) for k, e, _n in p.effects if k == "store" and paths.text(e).endswith("= None")]
        # (... or the member is given as None where the object is built: `T(**{size.name: n, buffer.name: None})`)
        rv = p.value.elts[1] if isinstance(p.value, ast.Tuple) and len(p.value.elts) == 2 else p.value
        if isinstance(rv, ast.Call):
            nones += [norm(k_) for k_ in rv.keywords if k_.arg is not None and isinstance(k_.value, ast.Constant) and k_.value.value is None]
            nones += [norm(x) for k_ in rv.keywords if k_.arg is None and isinstance(k_.value, ast.Dict) for x in k_.value.values
                      if isinstance(x, ast.Constant) and x.value is None]
        if len(procs) == 2 and kwarg(procs[1], "count") is not None:
            got = "list payload, count = size" if paths.text(kwarg(procs[1], "count")) == size_sym else \
                f"list payload, count = {paths.text(kwarg(procs[1], 'count'))}"
        elif len(procs) == 2:
            got = "structured payload decoded as declared"
        elif len(procs) == 1 and len(evs) == 2 and nones and len(evs[1].args) == 3 and paths.text(evs[1].args[2]) == "...":
            got = "absent payload: its own event, value None"
        else:
            got = f"{len(procs)} decodes, {len(evs)} events"
        want = paths.decide(rows, "?", View(p))
        n += 1
        run.ob("W11", want == {got}, f"process_tpm2b [{label(p)}]: {got}",
               f"on the path [{label(p)}] the size-prefixed walker does `{got}`, required: {' or '.join(sorted(want))}: the payload of a "
               "size-prefixed structure is decoded as the wrong kind (or not at all)", module=mod, node=p.node or fn, func=fn.name,
               construct="process_tpm2b payload kind")
    run.require(n >= 3, f"W11: only {n} completing paths of process_tpm2b")


def w15(run, roles):
    """the byte pump creates the processor from its own arguments: the requested type, the root path, the command code, the
    encryption flag and the mode all reach the dispatcher (a dropped one falls back to the dispatcher's default: a Response
    is decoded without its command, an encrypted parameter area as plain, warn mode as strict)"""
    pump, disp = roles.pump, roles.dispatcher
    calls = [c for c in walk_no_nested(pump) if isinstance(c, ast.Call) and call_name(c) == disp.name]
    run.require(len(calls) == 1, f"W15: the pump creates {len(calls)} processors")
    c = calls[0]
    dpar = [a.arg for a in disp.args.args]
    ppar = [a.arg for a in pump.args.args]
    got = {dpar[i]: norm(a) for i, a in enumerate(c.args) if i < len(dpar)}
    got.update({k.arg: norm(k.value) for k in c.keywords if k.arg})
    V = FnView(roles.mod, pump)
    for name in ("command_code", "parameter_encryption", "abort_on_error"):
        if name in dpar and name in ppar:
            run.ob("W15", got.get(name) == name, f"pump -> dispatcher: {name} forwarded",
                   f"the pump creates the processor with {name}={got.get(name, '<dispatcher default>')}: its own `{name}` argument "
                   "does not reach the decoder", module=roles.mod, node=c, func=pump.name, construct=f"processor {name}")
    tp = dpar[0]
    run.ob("W15", got.get(tp) == ppar[0], "pump -> dispatcher: the requested type",
           f"the processor is created for `{got.get(tp)}`, not for the pump's `{ppar[0]}`", module=roles.mod, node=c, func=pump.name,
           construct="processor type")
    pv = got.get("path")
    ok = pv is not None and ("root_path" in pv or any(r[0] == "expr" and "root_path" in norm(r[1]) for r in V.defs_at(c, pv)))
    run.ob("W15", ok, "pump -> dispatcher: the root path", f"the processor's path is `{pv}`: not the pump's root path", module=roles.mod,
           node=c, func=pump.name, construct="processor path")


def w14(run, roles):
    """every walker hands (size, decoded value) back to its caller on every completing path - the callers unpack exactly that
    (a path that falls off the end hands back None: the unpacking fails with TypeError and the decoded value is lost)"""
    mod = roles.mod
    n = 0
    def endless(fn):   # the stream walker: an unconditional loop without break never completes
        last = fn.body[-1]
        return isinstance(last, ast.While) and isinstance(last.test, ast.Constant) and bool(last.test.value) \
            and not any(isinstance(x, (ast.Break, ast.Return)) for x in ast.walk(last))
    for name, fn in list(roles.walkers.items()) + [(roles.dispatcher.name, roles.dispatcher)]:
        if endless(fn):
            continue
        for p in paths.summarise(mod, fn):
            if p.end == "raise":
                continue
            v = p.value
            ok = p.end == "return" and v is not None and (
                (isinstance(v, ast.Tuple) and len(v.elts) == 2) or (isinstance(v, ast.Name) and v.id.startswith("_yf")))
            n += 1
            lab = " & ".join(("" if t else "not ") + a[:50] for a, t, _ in p.cond[:4]) or "always"
            run.ob("W14", ok, f"{name} [{lab}]: returns (size, value)",
                   f"on the path [{lab}] {name} ends with `{p.end} {p.value_text() if v is not None else ''}`: the walker does not hand "
                   "(size, value) back (its caller unpacks two values)", module=mod, node=p.node or fn, func=name,
                   construct=f"{name} result")
    run.require(n >= 20, f"W14: only {n} completing walker paths")


def w9(run, roles):
    """parameters that carry decoded data or the decode position are never re-bound inside a walker
    (clamping / normalising a count, selector, command code or path changes what is decoded); the only
    re-binding is the encrypted-layout substitution of `tpm_type` in the struct walker (checked by F)."""
    mod = roles.mod
    data_params = {"count", "selector", "command_code", "parameter_encryption", "array_size_constraint", "path", "tpm_type",
                   "abort_on_error"}
    n = 0
    for w, fn in list(roles.walkers.items()) + [(roles.dispatcher.name, roles.dispatcher)]:
        params = {a.arg for a in fn.args.args} & data_params
        for st in walk_no_nested(fn):
            targets = []
            if isinstance(st, ast.Assign):
                targets = st.targets
            elif isinstance(st, (ast.AugAssign, ast.AnnAssign)):
                targets = [st.target]
            elif isinstance(st, (ast.For, ast.comprehension)):
                targets = [st.target]
            for t in targets:
                for nm in [x for x in ast.walk(t) if isinstance(x, ast.Name) and isinstance(x.ctx, ast.Store)]:
                    if nm.id in params:
                        allowed = (w == "process_tpms" and nm.id == "tpm_type" and norm(st) == "tpm_type = tpm_type.encrypted()") or \
                                  (w in ("process_command", "process_response") and nm.id in ("parameter_encryption",) and w == "process_command")
                        n += 1
                        run.ob("W9", allowed, f"{w} L{st.lineno}: re-binding of `{nm.id}`",
                               f"`{norm(st).splitlines()[0][:80]}` re-binds the parameter `{nm.id}` inside the walker: the decoded "
                               "count / selector / code / position is altered before it is used", module=mod, node=st, func=w,
                               construct=f"{w} rebinds {nm.id}")
    run.ob("W9", True, f"walker parameters carrying decoded data are not re-bound ({n} allowed re-bindings)")
