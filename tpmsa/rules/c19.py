"""C19 - the command line is a faithful front-end to the decoder (necessary structural conditions).

L1 the `choices` lists of --in / --out equal the keys of the dispatch dicts in convert / find_type,
   and each key maps to the front-end / printer of that name.
L2 every refusal path (fuzzy_match(...) is None, Response without --command) returns a non-zero
   constant; fuzzy_match prints its suggestion to stderr; the normal end of convert returns 0;
   main() exits with the sub-command's return value.
L3 convert passes the selected type, the command code, bytes_from_files(args.file) and warn mode to
   the selected front-end and prints *every* item the selected printer yields (hex for bytes
   items), without break / continue / filtering.
L4 parse_all_types decodes strictly, catches a superset of the documented escape set of the decoder
   (C06) and nothing broader, skips only the stream type and union types, and tries every command
   code for Response.
L5 `example` prints only under the command-code match or from find_fields (exact-type match) and
   re-encodes what it prints from the same event list.
The observable of the statement is a process's stdout / exit status: not decided here.
"""
from __future__ import annotations

import ast

from ..fnview import FnView
from .. import ctx
from .. import paths
from ..cfg import CFG
from ..pattern import canon, match
from ..project import AnalysisError, call_name, kwarg, norm, walk_no_nested

MAIN = "tpmstream.__main__"
FRONT = {"auto": "Auto", "binary": "Binary", "hex": "Hex", "pcapng": "Pcapng", "swtpm-log": "SWTPMLog"}
OUT = {"binary": "Binary", "events": "Events", "pretty": "Pretty"}
DOCUMENTED = {"InputStreamBytesDepletedError", "InputStreamSuperfluousBytesError", "ConstraintViolatedError"}


def dict_literal(node):
    if isinstance(node, ast.Subscript):
        node = node.value
    if isinstance(node, ast.Dict):
        return {k.value: norm(v) for k, v in zip(node.keys, node.values) if isinstance(k, ast.Constant)}
    return None


def check(run, project):
    mod = project.module(MAIN)
    run.explanation = ("agreement of argparse choices with dispatch tables; refusal/return statuses on the CFG; def-use of the convert "
                       "pipeline; path summaries of Canonical (an eager object has decoded) and of the type search; cc_name folded "
                       "over all command codes; unbound / undefined names")
    fns = mod.functions()
    for need in ("convert", "find_type", "parse_all_types", "examples", "fuzzy_match", "main", "find_fields"):
        if need not in fns:
            raise AnalysisError(f"C19: {need} not found in __main__")
    l1(run, mod, fns)
    l2(run, mod, fns)
    l3(run, mod, fns)
    l4(run, mod, fns, project)
    l5(run, mod, fns)
    l7(run, mod, fns, project)
    l8(run, mod, fns, project)
    # L9 (= C15-F2): `type` needs the decoded object from whichever front-end --in selects
    from ..report import RuleView
    from . import c15
    c15.f1_f2(RuleView(run, "F2", "L9"), project)
    # L13 (= C15-F1): convert decodes in warn mode through whichever front-end --in selects: the options it passes
    # (abort_on_error=False) reach the decoder on every branch of every front-end
    try:
        c15.f1_f2(RuleView(run, "F1", "L13"), project)
    except AnalysisError as ex:
        run.info(f"L13: the front-ends could not be followed ({ex}); not judged here (C15 reports it)")
    # L17 (= C14-Q1): `--out events` / `--out pretty` print every event of a warn-mode decode and exit 0: the printers look at
    # path / type / value of an item only where it is known to be a MarshalEvent
    from . import c14
    try:
        c14.check(RuleView(run, "Q1", "L17"), project)
    except AnalysisError as ex:
        run.info(f"L17: the printers could not be followed ({ex}); not judged here (C14 reports it)")
    # L14 (= C02-B2): `--out binary` prints the bytes of every decoded field and exits 0 also when the event stream carries
    # warnings (convert decodes in warn mode): the encoder's guards skip events without a value before they look at one
    from . import c02
    try:
        c02.b2_b3(RuleView(run, "B2", "L14"), project)
    except AnalysisError as ex:
        run.info(f"L14: the binary encoder could not be followed ({ex}); not judged here (C02 reports it)")
    # L11 (= C11-A1): `example` prints what the events rebuilt from the decoded object say; the members a message may lack
    # altogether (no sessions, failure) must be exactly those the object-to-events conversion leaves out, else a printed
    # example carries a field its bytes do not have
    # L12: `convert a b` / `type a b` decode the bytes of ALL files given, in order
    from .shared import reads_every_file
    reads_every_file(run, project, "L12", what="convert / type answer for the first file only and still exit 0")
    # L16 (= C10-T12): convert / type read standard input (a text-mode file) through its byte buffer
    from .shared import text_sources_unwrapped
    try:
        text_sources_unwrapped(run, project, "L16", "convert / type fail on standard input")
    except AnalysisError as ex:
        run.info(f"L16: the file reader's mode test could not be evaluated ({ex}); not judged here (C10 reports it)")
    # L15 (= C15-F5): what convert decodes from a capture is every message in it: the pcapng cutter drops nothing but runts
    # below the header size
    try:
        c15.f5(RuleView(run, "F5", "L15"), project, ctx.layout(project))
    except AnalysisError as ex:
        run.info(f"L15: the front-ends' message cutting could not be followed ({ex}); not judged here (C15 reports it)")
    from . import c11
    try:
        c11.check(RuleView(run, "A1", "L11"), project)
    except AnalysisError as ex:
        run.info(f"L11: the object conversion could not be followed ({ex}); not judged here (C11 reports it)")
    from .shared import unbound_locals
    unbound_locals(run, project, "L6", (MAIN, "tpmstream.common.canonical"), what="a traceback instead of the command's output")
    from .shared import undefined_names
    undefined_names(run, project, "L6", (MAIN, "tpmstream.common.canonical"), what="a traceback instead of the command's output")
    run.floor("L1", 6)
    run.floor("L2", 5)


def label(p):
    return " & ".join(("" if v else "not ") + a for a, v, _ in p.cond if not a.startswith("loop@")) or "always"


def tables_in(exprs, dest):
    """dispatch tables `{...}[args.<dest>]` occurring in the given expressions"""
    out = []
    for e in exprs:
        for n in ast.walk(e):
            if isinstance(n, ast.Subscript) and norm(n.slice) == f"args.{dest}" and isinstance(n.value, ast.Dict):
                out.append({k.value: norm(v) for k, v in zip(n.value.keys, n.value.values) if isinstance(k, ast.Constant)})
    return out


def all_exprs(ps):
    out = []
    for p in ps:
        out.extend(e for _k, e, _n in p.effects if e is not None)
        if p.value is not None:
            out.append(p.value)
        for sub in p.loops.values():
            out.extend(all_exprs(sub))
    return out


def choice_values(e):
    """the option strings an argparse `choices` expression stands for: a list / tuple display of constants, or the keys of a
    literal table (`list(TABLE)`, `TABLE.keys()`, `tuple(TABLE)`, `sorted(TABLE)`, `[*TABLE]`)"""
    if e is None:
        return None
    if isinstance(e, (ast.List, ast.Tuple)) and len(e.elts) == 1 and isinstance(e.elts[0], ast.Starred):
        return choice_values(e.elts[0].value)
    if isinstance(e, (ast.List, ast.Tuple)) and all(isinstance(x, ast.Constant) for x in e.elts):
        return [x.value for x in e.elts]
    if isinstance(e, ast.Call) and call_name(e) in ("list", "tuple", "sorted", "set", "frozenset") and len(e.args) == 1 and not e.keywords:
        return choice_values(e.args[0])
    if isinstance(e, ast.Call) and isinstance(e.func, ast.Attribute) and e.func.attr == "keys" and not e.args:
        return choice_values(e.func.value)
    if isinstance(e, ast.Dict) and all(isinstance(k, ast.Constant) for k in e.keys):
        return [k.value for k in e.keys]
    return None


def l1(run, mod, fns):
    args = {}
    for st in mod.tree.body:
        if isinstance(st, ast.Assign) and isinstance(st.value, ast.Dict) and isinstance(st.targets[0], ast.Name):
            d = {k.value: v for k, v in zip(st.value.keys, st.value.values) if isinstance(k, ast.Constant)}
            ch = choice_values(d.get("choices"))
            if ch is not None and "dest" in d:
                args[d["dest"].value] = (ch, d.get("default"), st)
    for dest, want, users in (("format_in", FRONT, ("convert", "find_type")), ("format_out", OUT, ("convert",))):
        run.require(dest in args, f"C19: argument spec for {dest} not found")
        choices, default, st = args[dest]
        for u in users:
            fn = fns[u]
            ps = paths.Summariser(mod, fn, impure={"fuzzy_match"}).paths()
            tabs = tables_in(all_exprs(ps), dest)
            distinct = {tuple(sorted(t.items())) for t in tabs}
            run.ob("L1", len(distinct) == 1, f"{u}: one dispatch table for --{dest}", f"{len(distinct)} tables", module=mod, node=fn,
                   func=u, construct=f"{u} {dest} table")
            if len(distinct) != 1:
                continue
            t = tabs[0]
            run.ob("L1", sorted(t) == sorted(choices), f"{u}: choices of {dest} = keys of its dispatch table",
                   f"choices {sorted(choices)} vs dispatch keys {sorted(t)}: an accepted option has no handler (KeyError) or a handler is unreachable",
                   module=mod, node=st, func=u, construct=f"{dest} choices vs {u} table")
            for k, v in t.items():
                run.ob("L1", want.get(k) == v, f"{u}: {dest}={k} -> {want.get(k)}", f"{dest}={k} is handled by {v}", module=mod, node=fn,
                       func=u, construct=f"{u} {dest}[{k}]")
        run.ob("L1", default is not None and isinstance(default, ast.Constant) and default.value in choices, f"default of {dest} is a choice",
               "default is not among the choices", module=mod, node=st, func="<module>", construct=f"{dest} default")
    # the option strings are wired to these specs
    wired = [c for c in ast.walk(mod.tree) if isinstance(c, ast.Call) and isinstance(c.func, ast.Attribute) and c.func.attr == "add_argument"
             and c.args and isinstance(c.args[0], ast.Constant) and c.args[0].value in ("--in", "--out")]
    for c in wired:
        spec = [norm(k.value) for k in c.keywords if k.arg is None]
        want_spec = "format_in_arg" if c.args[0].value == "--in" else "format_out_arg"
        run.ob("L1", spec == [want_spec], f"{norm(c.func.value)} {c.args[0].value} uses {want_spec}", f"uses {spec}", module=mod,
               node=c, func="<module>", construct=f"{norm(c.func.value)}.add_argument({c.args[0].value})")


def nonzero(v):
    if isinstance(v, ast.UnaryOp) and isinstance(v.op, ast.USub) and isinstance(v.operand, ast.Constant):
        return v.operand.value != 0
    return isinstance(v, ast.Constant) and isinstance(v.value, int) and not isinstance(v.value, bool) and v.value != 0


def fuzzy_binds(p):
    """{variable: fuzzy_match call} resolved on this path"""
    return {norm(e.targets[0]): e.value for k, e, _ in p.effects if k == "bind" and isinstance(e.value, ast.Call)
            and call_name(e.value) == "fuzzy_match" and isinstance(e.targets[0], ast.Name)}


def decodes(p):
    return any("format_in].marshal(" in paths.text(e) for _k, e, _n in p.effects if e is not None)


def stderr_print(p):
    return any(k == "call" and call_name(e) == "print" and kwarg(e, "file") is not None and norm(kwarg(e, "file")) == "sys.stderr"
               for k, e, _ in p.effects)


TYPES_TABLE = "{M_t.__name__: M_t for M_t in all_types}"
CODES_TABLE = "{cc_name(M_c): M_c for M_c in TPM_CC}"


def l2(run, mod, fns):
    conv = fns["convert"]
    ps = paths.Summariser(mod, conv, impure={"fuzzy_match"}).paths()
    run.require(len(ps) >= 6, "C19: paths of convert not found")
    n_fm = 0
    seen_refusal = {"type": False, "command": False, "response": False, "auto": False, "ok": False}
    for p in ps:
        fb = fuzzy_binds(p)
        n_fm = max(n_fm, len(fb))
        lab = label(p)
        tv = [v for v, c in fb.items() if c.args and norm(c.args[0]) == "args.type"]
        cv = [v for v, c in fb.items() if c.args and norm(c.args[0]) == "args.command"]
        T = tv[0] if tv else ("CommandResponseStream" if p.truth("args.type is None") else None)
        # an unknown name (fuzzy_match returned None) is refused with a non-zero status and nothing is decoded
        refused = False
        for v in fb:
            if p.truth(f"{v} is None") is True:
                refused = True
                seen_refusal["type" if v in tv else "command"] = True
                ok = p.end == "return" and p.value is not None and nonzero(p.value) and not decodes(p)
                run.ob("L2", ok, f"convert [{lab}]: unknown {v} is refused with a non-zero status",
                       f"no `if {v} is None: return <non-zero>` after fuzzy_match: the path ends with {p.end} {p.value_text()}"
                       f"{' after decoding' if decodes(p) else ''} (an unknown name would be decoded as None / exit 0)", module=mod,
                       node=p.node or conv, func="convert", construct=f"refusal for {'tpm_type' if v in tv else 'command_code'}")
            elif p.truth(f"{v} is None") is None and (decodes(p) or p.end != "return" or not nonzero(p.value)):
                # the result is used without having been tested
                run.ob("L2", False, f"convert [{lab}]: {v} tested", f"no `if {v} is None: return <non-zero>` after fuzzy_match (an unknown "
                       "name would be decoded as None / exit 0)", module=mod, node=p.node or conv, func="convert",
                       construct=f"refusal for {'tpm_type' if v in tv else 'command_code'}")
        if refused:
            continue
        # --type=Response without --command
        if T is not None and p.truth(f"{T} is Response") is True and p.truth("truthy args.command") is False:
            seen_refusal["response"] = True
            ok = p.end == "return" and p.value is not None and nonzero(p.value) and stderr_print(p) and not decodes(p)
            run.ob("L2", ok, "convert: --type=Response without --command is refused on stderr with a non-zero status",
                   f"the Response-needs-command refusal changed: [{lab}] ends with {p.end} {p.value_text()}, stderr message: {stderr_print(p)}",
                   module=mod, node=p.node or conv, func="convert", construct="refusal Response without command")
            continue
        if T is not None and p.truth(f"{T} is Response") is True and not cv and (decodes(p) or p.end == "raise"):
            run.ob("L2", False, f"convert [{lab}]: Response needs its command", "a Response is decoded without resolving --command",
                   module=mod, node=p.node or conv, func="convert", construct="refusal Response without command")
        # --in=auto with a custom type
        is_stream = True if T == "CommandResponseStream" else p.truth(f"{T} is CommandResponseStream") if T else None
        auto = p.truth("args.format_in == 'auto'")
        raises = p.end == "raise"
        if raises:
            seen_refusal["auto"] = True
            ok = is_stream is False and auto is True and p.value is not None and (call_name(p.value) or "") == "RuntimeError"
            run.ob("L2", ok, "convert refuses --in=auto only for a type other than the stream type",
                   f"the refusal is taken on the path [{lab}] (stream type: {is_stream}, --in=auto: {auto}): "
                   "`--type=CommandResponseStream --in=auto` (the defaults spelled out) is refused although the library decodes it",
                   module=mod, node=p.node or conv, func="convert", construct="convert auto/custom-type refusal guard")
            continue
        if is_stream is False and auto is True:
            run.ob("L2", False, f"convert [{lab}]", "a custom type is decoded with --in=auto (format detection is only defined for streams)",
                   module=mod, node=p.node or conv, func="convert", construct="convert auto/custom-type refusal guard")
        # the normal end
        seen_refusal["ok"] = True
        run.ob("L2", p.end == "return" and p.value is not None and isinstance(p.value, ast.Constant) and p.value.value == 0 and decodes(p),
               f"convert [{lab[:60]}]: the normal end returns 0", f"convert ends with `{p.end} {p.value_text()}`", module=mod,
               node=p.node or conv, func="convert", construct="convert final return")
        l3_path(run, mod, conv, p, T, cv, fb)
    run.ob("L2", n_fm >= 2, "convert resolves type and command names through fuzzy_match", f"{n_fm} fuzzy_match calls", module=mod,
           node=conv, func="convert", construct="fuzzy_match calls")
    for k, what in (("type", "refusal for tpm_type"), ("command", "refusal for command_code"), ("response", "refusal Response without command"),
                    ("auto", "convert auto/custom-type refusal guard"), ("ok", "convert final return")):
        run.ob("L2", seen_refusal[k], f"convert has the path: {what}", f"convert has no path for: {what}", module=mod, node=conv,
               func="convert", construct=what)
    # ---- fuzzy_match
    fz = fns["fuzzy_match"]
    a_in, a_opt = fz.args.args[0].arg, fz.args.args[1].arg
    fps = paths.Summariser(mod, fz).paths()
    hit = [p for p in fps if not any(a.startswith("try@") for a, _v, _ in p.cond)]
    miss = [p for p in fps if any(a.startswith("try@") and "KeyError" in a for a, _v, _ in p.cond)]
    ok = bool(hit) and all(p.end == "return" and p.value_text() == f"{a_opt}[{a_in}]" and not stderr_print(p) for p in hit)
    run.ob("L2", ok, "fuzzy_match: an exact name is returned as is", f"fuzzy_match hit path changed: {[p.value_text() for p in hit]}",
           module=mod, node=fz, func="fuzzy_match", construct="fuzzy_match hit")
    ok = bool(miss) and all(p.end == "return" and p.value_text() in ("None", None) and stderr_print(p) and
                            any("get_close_matches(" in paths.text(e) for k, e, _ in p.effects if k == "call") for p in miss) \
        and len(hit) + len(miss) == len(fps)
    run.ob("L2", ok, "fuzzy_match: a miss prints a suggestion to stderr and returns None", "fuzzy_match miss path changed", module=mod,
           node=fz, func="fuzzy_match", construct="fuzzy_match miss")
    # the suggestion always exists: the closest of *all* option names (cutoff 0 admits every candidate; a higher cutoff or
    # another index makes the lookup raise IndexError on a name that resembles nothing - a traceback instead of a suggestion)
    gcm = [c for c in ast.walk(fz) if isinstance(c, ast.Call) and call_name(c) in ("get_close_matches", "difflib.get_close_matches")]
    for c in gcm:
        par = getattr(c, "_parent", None)
        idx = par.slice.value if isinstance(par, ast.Subscript) and par.value is c and isinstance(par.slice, ast.Constant) else None
        kw = {k.arg: k.value for k in c.keywords}
        cut = kw.get("cutoff", c.args[3] if len(c.args) > 3 else None)
        nn = kw.get("n", c.args[2] if len(c.args) > 2 else None)
        nval = nn.value if isinstance(nn, ast.Constant) else 3 if nn is None else None
        if idx is None:
            continue   # the list is used otherwise (tested for emptiness, joined ...): not this shape
        ok = isinstance(cut, ast.Constant) and cut.value == 0 and isinstance(nval, int) and 0 <= idx < nval and \
            len(c.args) >= 2 and norm(c.args[0]) == a_in and norm(c.args[1]) in (f"{a_opt}.keys()", a_opt, f"list({a_opt})", f"list({a_opt}.keys())")
        run.ob("L2", ok, "fuzzy_match: the suggestion is the closest of all option names (always exists)",
               f"`{norm(par)}`: with cutoff {norm(cut) if cut is not None else '0.6 (default)'}, n={nval} and index {idx} the lookup of the "
               "closest name fails (IndexError) for an unknown name that resembles no option: a traceback instead of the suggestion",
               module=mod, node=c, func="fuzzy_match", construct="fuzzy_match suggestion")
    # ---- main
    mn = fns["main"]
    mps = paths.Summariser(mod, mn, impure={"parser.parse_args"}).paths()
    ok = len(mps) == 1
    if ok:
        calls = [paths.text(e) for k, e, _ in mps[0].effects if k == "call"]
        av = [norm(e.targets[0]) for k, e, _ in mps[0].effects if k == "bind" and "parse_args" in norm(e.value)]
        ok = len(av) == 1 and calls[-1:] == [f"sys.exit({av[0]}.func({av[0]}))"]
    run.ob("L2", ok, "main exits with the sub-command's status", "main() no longer exits with the sub-command's return value",
           module=mod, node=mn, func="main", construct="main exit status")
    # ---- examples refusal
    ex = fns["examples"]
    eps = paths.Summariser(mod, ex, impure={"fuzzy_match"}).paths()
    n = 0
    for p in eps:
        for v in fuzzy_binds(p):
            t = p.truth(f"{v} is None")
            if t is True:
                n += 1
                run.ob("L2", p.end == "return" and p.value is not None and nonzero(p.value), "example: an unknown name is refused with a "
                       "non-zero status", "refusal in examples changed", module=mod, node=p.node or ex, func="examples",
                       construct="examples refusal")
            elif t is None:
                run.ob("L2", False, "example: the resolved name is tested", "refusal in examples changed: the result of fuzzy_match is used "
                       "untested", module=mod, node=p.node or ex, func="examples", construct="examples refusal")
    run.ob("L2", n >= 1, "example: refusal path exists", "refusal in examples changed", module=mod, node=ex, func="examples",
           construct="examples refusal")


def l3_path(run, mod, conv, p, T, cv, fb):
    """a decoding path of convert: arguments of the decode call, and the print loop"""
    lab = label(p)[:60]
    loops = [(e, n) for k, e, n in p.effects if k == "loop"]
    dec = [c for e, _n in loops for c in ast.walk(e) if isinstance(c, ast.Call) and isinstance(c.func, ast.Attribute)
           and c.func.attr == "marshal" and "args.format_in" in norm(c.func.value)]
    run.ob("L3", len(dec) == 1 and len(loops) == 1, "convert decodes through the selected front-end",
           f"{len(dec)} format_in.marshal calls feed {len(loops)} print loops", module=mod, node=conv, func="convert",
           construct="format_in.marshal call")
    if len(dec) != 1 or len(loops) != 1:
        return
    c, (it, lp) = dec[0], loops[0]
    kws = {k.arg: norm(k.value) for k in c.keywords}
    # the selected type: the stream type by default, else what --type resolved to
    if T is not None and T != "CommandResponseStream":
        tcall = fb.get(T)
        okt = tcall is not None and len(tcall.args) >= 2 and match(tcall.args[1], TYPES_TABLE) is not None
        run.ob("L3", okt, "--type is resolved among all decodable types", f"--type is resolved with `{norm(tcall) if tcall is not None else None}`",
               module=mod, node=conv, func="convert", construct="type resolution")
    run.ob("L3", T is not None and kws.get("tpm_type") == T, f"convert [{lab}]: tpm_type={T}" if T != "CommandResponseStream" else
           "without --type the whole input is a command/response stream",
           f"tpm_type is `{kws.get('tpm_type')}` (default type selection changed)" if T == "CommandResponseStream" else
           f"tpm_type is `{kws.get('tpm_type')}`", module=mod, node=conv, func="convert",
           construct="default type" if T == "CommandResponseStream" else "format_in.marshal(tpm_type)")
    want_cc = cv[0] if cv else "None"
    if cv:
        ccall = fb[cv[0]]
        okc = len(ccall.args) >= 2 and match(ccall.args[1], CODES_TABLE) is not None
        run.ob("L3", okc, "--command is resolved among the command codes", f"--command is resolved with `{norm(ccall)}`", module=mod,
               node=conv, func="convert", construct="command resolution")
    for k, v in (("buffer", "bytes_from_files(args.file)"), ("command_code", want_cc), ("abort_on_error", "False")):
        run.ob("L3", kws.get(k) == v, f"convert [{lab}]: {k}={v}", f"{k} is `{kws.get(k)}`", module=mod, node=conv, func="convert",
               construct=f"format_in.marshal({k})")
    ok = isinstance(it, ast.Call) and isinstance(it.func, ast.Attribute) and it.func.attr == "unmarshal" and \
        "args.format_out" in norm(it.func.value) and len(it.args) == 1 and it.args[0] is not None and norm(it.args[0]) == norm(c) \
        and not it.keywords
    run.ob("L3", ok, "convert prints what the selected printer yields for these events",
           "the print loop does not iterate format_out.unmarshal(events)", module=mod, node=lp, func="convert",
           construct="print loop source")
    if not isinstance(lp, ast.For) or not isinstance(lp.target, ast.Name):
        run.ob("L3", False, "print loop", "the print loop changed", module=mod, node=lp, func="convert", construct="print loop body")
        return
    item = lp.target.id
    body = p.loops[id(lp)]
    for b in body:
        isb = b.truth(f"isinstance({item}, bytes)")
        fx = b.effect_texts()
        run.ob("L3", b.end == "fall", "convert prints every item", f"{b.end} inside the print loop", module=mod, node=b.node or lp,
               func="convert", construct="print loop cut")
        # (summaries spell binascii.hexlify(b).decode() as b.hex())
        want = [("call", f"print(' ' + {item}.hex(), end='')")] if isb else [("call", f"print({item})")]
        run.ob("L3", isb is not None and fx == want, "bytes items are printed as hex, text items as they are",
               f"the body of the print loop changed: [{label(b)}] does {fx}", module=mod, node=b.node or lp, func="convert",
               construct="print loop body")


def l3(run, mod, fns):
    pass  # decided per decoding path of convert, inside l2 (l3_path)


def loops_where(ps, pred, seen=None):
    """(enclosing path, loop node, iteration paths) for every summarised loop whose node satisfies pred, at any depth"""
    out = []
    seen = set() if seen is None else seen
    for p in ps:
        for k, e, n in p.effects:
            if k == "loop" and id(n) in p.loops:
                key = (id(n), repr(p), tuple(sorted((k_, paths.text(v_)) for k_, v_ in p.env.items() if v_ is not None)))
                if pred(n, e) and key not in seen:
                    seen.add(key)
                    out.append((p, n, e, p.loops[id(n)]))
                out.extend(loops_where(p.loops[id(n)], pred, seen))
    return out


def canonical_call(project, call):
    """the arguments of a Canonical(...) call bound to the constructor's parameters, defaults filled in: {param: text}"""
    cm = project.module("tpmstream.common.canonical")
    ini = cm.functions().get("Canonical.__init__")
    if ini is None:
        raise AnalysisError("C19: Canonical.__init__ not found")
    params = [a.arg for a in ini.args.args][1:]
    dflt = dict(zip(reversed(params), reversed([paths.text(d) for d in ini.args.defaults])))
    out = dict(dflt)
    for p_, a_ in zip(params, call.args):
        out[p_] = paths.text(a_)
    for k in call.keywords:
        if k.arg is None or k.arg not in params:
            return None
        out[k.arg] = paths.text(k.value)
    return out


def l4(run, mod, fns, project):
    """the type search: every type of all_types except the stream type and the union types is tried - Response with every
    command code, any other type once without one; a try is a strict, complete decode `Canonical(buffer, format_in, type,
    command code, lazy=False, abort_on_error=True)`; a documented rejection skips the candidate, anything else is reported
    with its command code.  Decided on the path summaries (one outer-loop iteration per type, nested iteration per code)."""
    fn = fns["parse_all_types"]
    trys = [s_ for s_ in ast.walk(fn) if isinstance(s_, ast.Try)]
    run.require(len(trys) >= 1, "C19: try block of parse_all_types not found")
    for t in trys:
        caught = set()
        for h in t.handlers:
            if h.type is None:
                caught.add("*")
            else:
                caught |= {norm(e) for e in (h.type.elts if isinstance(h.type, ast.Tuple) else [h.type])}
        run.ob("L4", DOCUMENTED <= caught, "type search catches every documented decoder error",
               f"not caught: {sorted(DOCUMENTED - caught)} - a documented rejection would abort the whole `type` listing", module=mod,
               node=t, func=fn.name, construct="parse_all_types except tuple")
        run.ob("L4", caught <= DOCUMENTED, "type search catches nothing broader (internal errors are not hidden)",
               f"also catches {sorted(caught - DOCUMENTED)}", module=mod, node=t, func=fn.name, construct="parse_all_types except breadth")
    ps = paths.Summariser(mod, fn).paths()
    outer = loops_where(ps, lambda n, e: isinstance(n, ast.For) and n in fn.body)
    run.ob("L4", len(outer) == 1 and paths.text(outer[0][2]) == "all_types" and isinstance(outer[0][1].target, ast.Name), "every type is tried",
           "the search does not iterate all_types", module=mod, node=fn, func=fn.name, construct="parse_all_types domain")
    if len(outer) != 1 or not isinstance(outer[0][1].target, ast.Name):
        return
    tv = outer[0][1].target.id
    params = [a.arg for a in fn.args.args]
    A, U, R = f"{tv} is CommandResponseStream", f"{tv}.__name__.startswith('TPMU')", f"{tv} is Response"
    spec = [({A: True}, "skip"), ({U: True}, "skip"), ({R: True}, "TPM_CC")]

    from .c01 import type_atom
    L = ctx.layout(project)
    domain = [c_ for c_ in L.all.values() if hasattr(c_, "name") and (L.is_dataclass(c_) or L.is_primitive(c_))] + [L.Stream]
    domain = list({id(c_): c_ for c_ in domain + [L.Command, L.Response]}.values())

    def fold_types(b):
        """the types of the layout that take path b (its conditions are all tests on the candidate type), or None when a
        condition is outside what the layout model evaluates"""
        preds = []
        for a_, v_, _n in b.cond:
            f_ = type_atom(a_, tv)
            if f_ is None:
                return None
            preds.append((f_, v_))
        out = []
        try:
            for c_ in domain:
                if all(bool(f_(c_, L)) == bool(v_) for f_, v_ in preds):
                    out.append(c_)
        except AnalysisError:
            return None
        return out

    def attempts(b, code):
        """leaf paths of one candidate: [(command-code text, path)]"""
        out = []
        lps = [(e, n) for k, e, n in b.effects if k == "loop"]
        if not lps:
            return [(code, b)]
        for e, n in lps:
            cv = n.target.id if isinstance(n, ast.For) and isinstance(n.target, ast.Name) else None
            for ib in b.loops[id(n)]:
                out.extend(attempts(ib, (paths.text(e), cv)))
        return out
    for b in outer[0][3]:
        lps = [(e, n) for k, e, n in b.effects if k == "loop"]
        direct = [x for x in b.effects if x[0] in ("yield", "try-body")] or any(a.startswith("try@") for a, _v, _ in b.cond)
        if not lps and not direct and b.end in ("continue", "fall") and not b.effect_texts(("yield", "call")):
            got = "skip"
        elif len(lps) == 1 and not direct:
            got = paths.text(lps[0][0])
            # the values of a table {cc_name(c): c for c in S} are the members of S, once each: cc_name is injective on the
            # command codes (L8 folds it to the member names)
            m_ = match(lps[0][0], "{cc_name(M_c): M_c for M_c in M_s}.values()")
            if m_ is not None:
                got = paths.text(m_["M_s"])
        elif not lps:
            got = "(None,)"
        else:
            got = "?"
        want = paths.decide(spec, "(None,)", b)
        folded = fold_types(b)
        if folded is not None:
            # the tests on the candidate type are evaluated for every type of the layout's listing: the types this path is
            # taken for must all require what the path does
            wants = {}
            for c_ in folded:
                w_ = "skip" if c_ is L.Stream or (L.is_dataclass(c_) and c_.has("_selected_by")) else "TPM_CC" if c_ is L.Response else "(None,)"
                wants.setdefault(w_, []).append(c_.name)
            if not folded:
                continue   # no type of the listing takes this path
            bad = {w_: ns for w_, ns in wants.items() if w_ != got}
            kind = "parse_all_types skips" if got == "skip" or "skip" in bad else "parse_all_types response codes"
            run.ob("L4", not bad, f"type search [{label(b)}]: {got} ({len(folded)} types)",
                   f"for a type with [{label(b)}] the search does `{got}`; that path is taken for " +
                   "; ".join(f"{ns[0]}{' and ' + str(len(ns) - 1) + ' more' if len(ns) > 1 else ''}, which requires `{w_}`" for w_, ns in sorted(bad.items())) +
                   " (only the stream type and union types are excluded; Response is tried with every command code)", module=mod,
                   node=b.node or (b.cond[-1][2] if b.cond else fn), func=fn.name, construct=kind)
        else:
            kind = "parse_all_types skips" if got == "skip" or want == {"skip"} else "parse_all_types response codes"
            run.ob("L4", want == {got}, f"type search [{label(b)}]: {got}",
                   f"for a type with [{label(b)}] the search does `{got}` where {sorted(want)} is required (only the stream type and union "
                   "types are excluded; Response is tried with every command code)", module=mod, node=b.node or (b.cond[-1][2] if b.cond else fn),
                   func=fn.name, construct=kind)
        if got == "skip":
            continue
        for code, ib in attempts(b, None):
            cc = "None" if code is None else code[1]
            if code is not None and code[0] == "(None,)":
                cc = code[1]
            rejected = any(a.startswith("try@") and v for a, v, _ in ib.cond)
            if rejected:
                run.ob("L4", ib.end in ("continue", "fall") and not ib.effect_texts(("yield", "call", "store")), "a rejected type is skipped",
                       "the handler of a rejected candidate does more than go on to the next one", module=mod, node=ib.node or fn,
                       func=fn.name, construct="parse_all_types handler")
                continue
            ys = [x for x in ib.effects if x[0] == "yield"]
            ok = len(ys) == 1 and isinstance(ys[0][1], ast.Tuple) and len(ys[0][1].elts) == 2 and isinstance(ys[0][1].elts[0], ast.Call) \
                and call_name(ys[0][1].elts[0]) == "Canonical"
            got_args = canonical_call(project, ys[0][1].elts[0]) if ok else None
            code_txt = paths.text(ys[0][1].elts[1]) if ok else None
            want_args = {"input": params[1], "format_in": params[0], "tpm_type": tv, "path": "None", "command_code": cc, "lazy": "False",
                         "abort_on_error": "True"}
            ok = ok and got_args == want_args and code_txt == cc
            run.ob("L4", ok, "each candidate is decoded strictly and completely, and reported with its command code",
                   f"Canonical(...) arguments changed: the candidate is tried as {got_args} and reported with `{code_txt}`, required "
                   f"{want_args} reported with `{cc}`", module=mod, node=ib.node or fn, func=fn.name, construct="parse_all_types Canonical")


def l8(run, mod, fns, project):
    """command names: `cc_name(code)` is the member's name for every member of TPM_CC - the name a user types for
    `--command` / `example` and the keys of the tables the command line looks names up in.  The function is folded over
    all members (the text form of a member is `TPM_CC.<name>`: C16-O4) by the mini interpreter."""
    from ..minieval import Imprecise, Interp, NeedBit, Raised, TypeRef
    fn = fns.get("cc_name")
    if fn is None:
        run.info("L8: cc_name not found; the command-name fold is not applied")
        return
    L = ctx.layout(project)
    members = [nm for nm in L.TPM_CC.members]
    run.require(len(members) >= 100, f"L8: only {len(members)} members of TPM_CC")

    class Member:
        def __init__(self, name):
            self.name = name

        def __str__(self):
            return f"TPM_CC.{self.name}"

        def __format__(self, spec):
            return format(str(self), spec)
    bad = []
    for nm in members:
        it = Interp({"TPM_CC": TypeRef("TPM_CC"), "str": lambda x: str(x), "len": len, "repr": lambda x: str(x), "format": format},
                    module_tree=mod.tree, max_steps=20000)
        try:
            got = it.call(fn, [Member(nm)])
        except Raised as r:
            got = f"raises {r.cls}"
        except (NeedBit, Imprecise, AnalysisError) as ex:
            raise AnalysisError(f"L8: cc_name could not be folded ({str(ex)[:100]})")
        if got != nm:
            bad.append((nm, got))
    run.ob("L8", not bad, f"cc_name gives the member's name for all {len(members)} command codes",
           f"cc_name is wrong for {len(bad)} of {len(members)} command codes, e.g. " + ", ".join(f"{a} -> {b!r}" for a, b in bad[:5])
           + ": these commands cannot be named on the command line (refused as unknown) and are listed under wrong names",
           module=mod, node=fn, func="cc_name", construct="cc_name")


def l7(run, mod, fns, project):
    """`type` can only list "exactly the types under which the file decodes strictly" if a candidate's decode has run when
    parse_all_types decides about it: Canonical(..., lazy=False) must drain the decoder inside the constructor (so that a
    rejection is raised inside the try), with the type / command code / strictness it was given; and the listed name is the
    decoded object's type, a response being listed with its command code."""
    cm = project.modules.get("tpmstream.common.canonical")
    if cm is None:
        raise AnalysisError("L7: common/canonical.py not found")
    ini, evs = cm.functions().get("Canonical.__init__"), cm.functions().get("Canonical.events")
    if ini is None or evs is None:
        raise AnalysisError("L7: Canonical.__init__ / Canonical.events not found")
    params = [a.arg for a in ini.args.args]
    lazy = "lazy" if "lazy" in params else None
    if lazy is None:
        raise AnalysisError("L7: Canonical.__init__ has no `lazy` parameter")
    n = 0
    for p in paths.Summariser(cm, ini).paths():
        if p.end == "raise":
            continue
        lz = p.truth(f"truthy {lazy}")
        stores = {norm(e.targets[0]): e.value for k, e, _ in p.effects if k == "store" and isinstance(e, ast.Assign)}
        src = stores.get("self._events")
        drains = [i for i, (k, e, _) in enumerate(p.effects) if k in ("call", "assign", "bind") and
                  paths.text(e if k == "call" else e.value) in ("self.events", "list(self._events)", "list(self.events)")]
        st_i = [i for i, (k, e, _) in enumerate(p.effects) if k == "store" and isinstance(e, ast.Assign) and norm(e.targets[0]) == "self._events"]
        if lz is False:
            n += 1
            run.ob("L7", bool(drains) and bool(st_i) and drains[-1] > st_i[0], f"Canonical [{label(p)[:70]}]: an eager object has decoded",
                   f"on the path [{label(p)}] (lazy is false) the constructor returns without draining the decoder: a rejection surfaces "
                   "later, outside the try of the type search - every type is listed, or the listing dies with a traceback", module=cm,
                   node=p.node or ini, func="Canonical.__init__", construct="Canonical eager decode")
        if p.truth("isinstance(input, bytes)") is True:
            inner = src.args[0] if isinstance(src, ast.Call) and call_name(src) == "Generator" and src.args else src
            kws = {}
            for k in (inner.keywords if isinstance(inner, ast.Call) else []):
                if k.arg is not None:
                    kws[k.arg] = norm(k.value)
                elif isinstance(k.value, ast.Call) and call_name(k.value) == "dict" and not k.value.args and all(x.arg for x in k.value.keywords):
                    kws.update({x.arg: norm(x.value) for x in k.value.keywords})      # **dict(a=b, ...)
                elif isinstance(k.value, ast.Dict) and all(isinstance(x, ast.Constant) and isinstance(x.value, str) for x in k.value.keys):
                    kws.update({x.value: norm(v_) for x, v_ in zip(k.value.keys, k.value.values)})   # **{"a": b, ...}
                else:
                    kws[None] = norm(k.value)
            want = {"tpm_type": "tpm_type", "buffer": "input", "root_path": "path", "command_code": "command_code", "abort_on_error": "abort_on_error"}
            n += 1
            run.ob("L7", isinstance(inner, ast.Call) and norm(inner.func) == "format_in.marshal" and kws == want and not inner.args,
                   f"Canonical [{label(p)[:70]}]: bytes are decoded with the given front-end, type, command code and strictness",
                   f"the decoder is created as `{norm(inner)[:160] if inner is not None else None}`; required format_in.marshal with {want}",
                   module=cm, node=p.node or ini, func="Canonical.__init__", construct="Canonical decode arguments")
    for p in paths.Summariser(cm, evs).paths():
        if p.truth("isinstance(self._events, Generator)") is not True:
            continue
        drained = [norm(e.targets[0]) for k, e, _ in p.effects if k in ("assign", "bind") and isinstance(e, ast.Assign) and paths.text(e.value) == "list(self._events)"]
        stores = {norm(e.targets[0]): paths.text(e.value) for k, e, _ in p.effects if k == "store" and isinstance(e, ast.Assign)}
        ok = len(drained) == 1 and stores.get("self._events") in (drained[0], "list(self._events)") and p.end == "return" and p.value_text() in ("self._events", drained[0])
        if p.truth("self._object is None") is True:
            ok = ok and stores.get("self._object") == "self._events.value"
        n += 1
        run.ob("L7", ok, f"Canonical.events [{label(p)[:70]}]: the decoder is drained once and its events / object kept",
               f"on the path [{label(p)}] events does {p.effect_texts()} and returns `{p.value_text()}`", module=cm, node=p.node or evs,
               func="Canonical.events", construct="Canonical.events drain")
    run.require(n >= 5, f"L7: only {n} obligations on Canonical")
    # the listed name
    ft = fns["find_type"]
    namer = next((f_ for f_ in ast.walk(ft) if isinstance(f_, ast.FunctionDef) and f_ is not ft), None)
    if namer is None:
        run.info("L7: the naming helper of find_type is not a nested function; the naming table is not applied to this form")
        return
    a0, a1 = [x.arg for x in namer.args.args][:2]
    # plumbing of the listing: the search gets (front-end, bytes of the file) in its own parameter order, and the namer gets
    # the (candidate, command code) pairs as the search yields them
    pa = fns["parse_all_types"]
    ppar = [x.arg for x in pa.args.args]
    V = FnView(mod, ft)
    for c in [c for c in walk_no_nested(ft) if isinstance(c, ast.Call) and call_name(c) == "parse_all_types"]:
        got = {ppar[i]: a_ for i, a_ in enumerate(c.args) if i < len(ppar)}
        got.update({k.arg: k.value for k in c.keywords if k.arg})
        fe = V.resolve(got.get(ppar[0]), c) if got.get(ppar[0]) is not None else None
        bu = V.resolve(got.get(ppar[1]), c) if len(ppar) > 1 and got.get(ppar[1]) is not None else None
        # the bytes: a whole-content read of args.file through the package's file reader (a function of tpmstream.io), as one
        # bytes object - however that reader is split up (bytes(bytes_from_files(f)), b"".join(<blocks>(f)), read_files(f))
        io_mod = project.module("tpmstream.io") if project.has_module("tpmstream.io") else None
        io_fns = {n_ for n_ in (io_mod.functions() if io_mod is not None else {}) if "." not in n_}
        called = {call_name(c_) or norm(c_.func) for c_ in ast.walk(bu) if isinstance(c_, ast.Call)} if bu is not None else set()
        free = {x.id for x in ast.walk(bu) if isinstance(x, ast.Name) and isinstance(x.ctx, ast.Load)} - called if bu is not None else set()
        whole = isinstance(bu, ast.Call) and (call_name(bu) == "bytes" or norm(bu.func) == "b''.join" or call_name(bu) in io_fns)
        ok = isinstance(fe, ast.Subscript) and norm(fe.slice) == "args.format_in" and whole and bool(called & io_fns) \
            and free == {"args"} and "args.file" in norm(bu) and called <= io_fns | {"bytes", "b''.join"}
        run.ob("L7", ok, "type: the search gets the chosen front-end and the bytes of the file",
               f"parse_all_types is called with {ppar[0]}=`{norm(fe)[:50] if fe is not None else None}`, "
               f"{ppar[1] if len(ppar) > 1 else '?'}=`{norm(bu)[:50] if bu is not None else None}`", module=mod, node=c, func="find_type",
               construct="type search arguments")
    ys = [y for y in walk_no_nested(pa) if isinstance(y, ast.Yield) and isinstance(y.value, ast.Tuple) and len(y.value.elts) == 2]
    for c in [c for c in ast.walk(ft) if isinstance(c, ast.Call) and call_name(c) == namer.name]:
        # the arguments are the two targets of the loop over the search results, in order
        comp = next((g for x in ast.walk(ft) for g in getattr(x, "generators", []) if any(c is y for y in ast.walk(x))), None)
        tg = [norm(t) for t in comp.target.elts] if comp is not None and isinstance(comp.target, ast.Tuple) else None
        if tg is None:
            lp = next((x for x in ast.walk(ft) if isinstance(x, ast.For) and any(c is y for y in ast.walk(x))), None)
            tg = [norm(t) for t in lp.target.elts] if lp is not None and isinstance(lp.target, ast.Tuple) else None
        if tg is None or not ys:
            continue
        run.ob("L7", [norm(a_) for a_ in c.args] == tg and not c.keywords, "type: each candidate is named with its own command code",
               f"the namer is called as `{norm(c)}` for results unpacked as {tg}", module=mod, node=c, func="find_type",
               construct="type listing arguments")
    for p in paths.Summariser(mod, namer).paths():
        t = p.truth(f"isinstance({a0}.object, Response)")
        want = {True: f"f'Response ({{{a1}}})'", False: f"f'{{type({a0}.object).__name__}}'"}.get(t)
        alt = {False: f"type({a0}.object).__name__"}.get(t)
        run.ob("L7", t is not None and p.end == "return" and p.value_text() in (want, alt), f"type listing [{label(p)}]: {p.value_text()}",
               f"on the path [{label(p)}] a decodable candidate is listed as `{p.value_text()}`; required: the decoded object's type "
               "name, a response as `Response (<its command code>)`", module=mod, node=p.node or namer, func=namer.name, construct="type listing name")


def l5(run, mod, fns):
    fn = fns["examples"]
    ff = fns["find_fields"]
    fps = paths.Summariser(mod, ff).paths()
    o, t = ff.args.args[1].arg, ff.args.args[0].arg
    X = f"type({o}) is {t}"
    okm = all(p.truth(X) is not None and ([e for k, e in p.effect_texts(("yield",))] == ([o] if p.truth(X) else [])) for p in fps) and fps
    run.ob("L5", okm, "find_fields selects objects of exactly the sought type", "find_fields match changed", module=mod, node=ff,
           func="find_fields", construct="find_fields match")
    rec = loops_where(fps, lambda n, e: isinstance(n, ast.For))
    okr = bool(rec) and all(paths.text(e) == f"fields({o})" and isinstance(n.target, ast.Name) and len(sub) == 1 and
                            sub[0].effect_texts() == [("yieldfrom", f"find_fields(tpm_type={t}, obj=getattr({o}, {n.target.id}.name))")]
                            for _p, n, e, sub in rec)
    run.ob("L5", okr, "find_fields recurses into every field with the same sought type", "find_fields recursion changed", module=mod,
           node=ff, func="find_fields", construct="find_fields recursion")
    eps = paths.Summariser(mod, fn, impure={"fuzzy_match", "open"}).paths()
    objl = loops_where(eps, lambda n, e: isinstance(n, ast.For) and (call_name(e) or "") == "events_to_objs")
    run.require(len(objl) >= 1, "C19: the object loop of `example` not found")
    for encl, lp, it, body in objl:
        if not isinstance(lp.target, ast.Name):
            raise AnalysisError("C19: object loop target of `example` is not a name")
        ov = lp.target.id
        C0, H1, E1 = "command_code is None", f"hasattr({ov}, 'commandCode')", f"{ov}.commandCode == command_code"
        H2, E2 = f"hasattr({ov}, '_command_code')", f"{ov}._command_code == command_code"
        spec = [({C0: True}, "show"), ({H1: True, E1: True}, "show"), ({H2: True, E2: True}, "show")]
        SS = paths.Summariser(mod, fn)
        for b in body:
            inner = [(e, n) for k, e, n in b.effects if k == "loop"]
            prints = [e for k, e in b.effect_texts(("call",)) if e.startswith("print(")]
            got = "show" if inner else "hide"
            want = paths.decide_src(SS, b, spec, "hide")
            run.ob("L5", want == {got}, f"example [{label(b)[:70]}]: {got}",
                   f"a message with [{label(b)}] is {'shown' if got == 'show' else 'hidden'}, required {sorted(want)}: the command-code filter "
                   "of `example` changed (a message is shown only if its command code is the sought one, or a type is sought)",
                   module=mod, node=b.cond[-1][2] if b.cond else lp, func="examples", construct="examples command filter")
            run.ob("L5", not prints, "every example line is printed under that filter",
                   "an example is printed outside the command-code filter", module=mod, node=b.node or lp, func="examples",
                   construct="examples prints under filter")
            if not inner:
                continue
            # what is shown: the object itself, or its sub-objects of exactly the sought type
            tt = paths.truth_src(SS, b, "tpm_type")
            src = paths.text(inner[0][0])
            if tt:
                asg = [paths.text(e.value) for k, e, _ in b.effects if k == "assign" and norm(e.targets[0]) == src]
                src = asg[-1] if asg else src
            want_src = paths.expand_src(SS, b, f"list(find_fields(tpm_type=tpm_type, obj={ov}))") if tt else f"({ov},)"
            run.ob("L5", tt is not None and len(inner) == 1 and src == want_src,
                   "for a type, only the sub-objects of exactly that type are shown",
                   f"object selection of `example` changed: [{label(b)[:60]}] shows `{src}`", module=mod, node=inner[0][1],
                   func="examples", construct="examples object selection")
            # rendering: hex and table from one event list built from the shown object
            ilp = inner[0][1]
            if not isinstance(ilp, ast.For) or not isinstance(ilp.target, ast.Name):
                continue
            sv = ilp.target.id
            for ib in b.loops[id(ilp)]:
                asg = {norm(e.targets[0]): paths.text(e.value) for k, e, _ in ib.effects if k == "assign"}
                evs = [k for k, v in asg.items() if v == f"list(obj_to_events({sv}))"]
                okx = len(evs) == 1 and f"list(Binary.unmarshal({evs[0]}))" in asg.values()
                tbl = [paths.text(e) for k, e, _ in ib.effects if k == "loop"]
                shows = bool(tbl) or any(e.startswith("print(") for k, e in ib.effect_texts(("call",)))
                if ib.end != "fall" and not shows:
                    pass      # (an example that was shown before is skipped: `continue`)
                elif not shows:
                    continue  # (... or skipped by falling through an if / else: nothing is printed on this path, nothing to compare)
                else:
                    okx = okx and f"Pretty.unmarshal({evs[0]})" in tbl
                run.ob("L5", okx, "the hex and the table of an example come from the same event list of the shown object",
                       "the re-encoding / printing of an example no longer use one event list built from the shown object", module=mod,
                       node=ib.node or ilp, func="examples", construct="examples rendering")
