"""C19 - the command line is a faithful front-end to the decoder (necessary structural conditions).

L1 the `choices` lists of --in / --out equal the keys of the dispatch dicts in convert / find_type,
   and each key maps to the front-end / printer of that name.
L2 every refusal path (fuzzy_match(...) is None, Response without --command) returns a non-zero
   constant; fuzzy_match prints its suggestion to stderr; the normal end of convert returns 0;
   main() exits with the sub-command's return value.
L3 convert passes the selected type, the command code, bytes_from_files(args.file) and warn mode to
   the selected front-end and prints *every* item the selected printer yields (hex for bytes
   items), without break / continue / filtering.
L4 parse_all_types decodes strictly, catches a superset of the documented escape set of the decoder
   (C06) and nothing broader, skips only the stream type and union types, and tries every command
   code for Response.
L5 `example` prints only under the command-code match or from find_fields (exact-type match) and
   re-encodes what it prints from the same event list.
The observable of the statement is a process's stdout / exit status: not decided here.
"""
from __future__ import annotations

import ast

from ..cfg import CFG
from ..pattern import canon
from ..project import AnalysisError, call_name, kwarg, norm, walk_no_nested

MAIN = "tpmstream.__main__"
FRONT = {"auto": "Auto", "binary": "Binary", "hex": "Hex", "pcapng": "Pcapng", "swtpm-log": "SWTPMLog"}
OUT = {"binary": "Binary", "events": "Events", "pretty": "Pretty"}
DOCUMENTED = {"InputStreamBytesDepletedError", "InputStreamSuperfluousBytesError", "ConstraintViolatedError"}


def dict_literal(node):
    if isinstance(node, ast.Subscript):
        node = node.value
    if isinstance(node, ast.Dict):
        return {k.value: norm(v) for k, v in zip(node.keys, node.values) if isinstance(k, ast.Constant)}
    return None


def check(run, project):
    mod = project.module(MAIN)
    run.explanation = "agreement of argparse choices with dispatch tables; refusal/return statuses on the CFG; def-use of the convert pipeline"
    fns = mod.functions()
    for need in ("convert", "find_type", "parse_all_types", "examples", "fuzzy_match", "main", "find_fields"):
        if need not in fns:
            raise AnalysisError(f"C19: {need} not found in __main__")
    l1(run, mod, fns)
    l2(run, mod, fns)
    l3(run, mod, fns)
    l4(run, mod, fns)
    l5(run, mod, fns)
    run.floor("L1", 6)
    run.floor("L2", 5)


def l1(run, mod, fns):
    args = {}
    for st in mod.tree.body:
        if isinstance(st, ast.Assign) and isinstance(st.value, ast.Dict) and isinstance(st.targets[0], ast.Name):
            d = {k.value: v for k, v in zip(st.value.keys, st.value.values) if isinstance(k, ast.Constant)}
            if "choices" in d and "dest" in d and isinstance(d["choices"], ast.List):
                args[d["dest"].value] = ([e.value for e in d["choices"].elts], d.get("default"), st)
    for dest, want, users in (("format_in", FRONT, ("convert", "find_type")), ("format_out", OUT, ("convert",))):
        run.require(dest in args, f"C19: argument spec for {dest} not found")
        choices, default, st = args[dest]
        for u in users:
            fn = fns[u]
            tables = [dict_literal(a.value) for a in walk_no_nested(fn) if isinstance(a, ast.Assign) and norm(a.targets[0]) == dest
                      and isinstance(a.value, ast.Subscript) and norm(a.value.slice) == f"args.{dest}"]
            tables = [t for t in tables if t is not None]
            run.ob("L1", len(tables) == 1, f"{u}: one dispatch table for --{dest}", f"{len(tables)} tables", module=mod, node=fn,
                   func=u, construct=f"{u} {dest} table")
            if len(tables) != 1:
                continue
            t = tables[0]
            run.ob("L1", sorted(t) == sorted(choices), f"{u}: choices of {dest} = keys of its dispatch table",
                   f"choices {sorted(choices)} vs dispatch keys {sorted(t)}: an accepted option has no handler (KeyError) or a handler is unreachable",
                   module=mod, node=st, func=u, construct=f"{dest} choices vs {u} table")
            for k, v in t.items():
                run.ob("L1", want.get(k) == v, f"{u}: {dest}={k} -> {want.get(k)}", f"{dest}={k} is handled by {v}", module=mod, node=fn,
                       func=u, construct=f"{u} {dest}[{k}]")
        run.ob("L1", default is not None and isinstance(default, ast.Constant) and default.value in choices, f"default of {dest} is a choice",
               "default is not among the choices", module=mod, node=st, func="<module>", construct=f"{dest} default")
    # the option strings are wired to these specs
    wired = [c for c in ast.walk(mod.tree) if isinstance(c, ast.Call) and isinstance(c.func, ast.Attribute) and c.func.attr == "add_argument"
             and c.args and isinstance(c.args[0], ast.Constant) and c.args[0].value in ("--in", "--out")]
    for c in wired:
        spec = [norm(k.value) for k in c.keywords if k.arg is None]
        want_spec = "format_in_arg" if c.args[0].value == "--in" else "format_out_arg"
        run.ob("L1", spec == [want_spec], f"{norm(c.func.value)} {c.args[0].value} uses {want_spec}", f"uses {spec}", module=mod,
               node=c, func="<module>", construct=f"{norm(c.func.value)}.add_argument({c.args[0].value})")


def l2(run, mod, fns):
    conv = fns["convert"]
    # refusals: `if X is None: return <nonzero>` after fuzzy_match
    refusals = [s for s in walk_no_nested(conv) if isinstance(s, ast.If) and isinstance(s.test, ast.Compare)
                and isinstance(s.test.ops[0], ast.Is) and isinstance(s.test.comparators[0], ast.Constant) and s.test.comparators[0].value is None]
    fm = [a for a in walk_no_nested(conv) if isinstance(a, ast.Assign) and isinstance(a.value, ast.Call) and call_name(a.value) == "fuzzy_match"]
    run.ob("L2", len(fm) >= 2, "convert resolves type and command names through fuzzy_match", f"{len(fm)} fuzzy_match calls", module=mod,
           node=conv, func="convert", construct="fuzzy_match calls")
    for a in fm:
        v = norm(a.targets[0])
        guard = [r for r in refusals if norm(r.test.left) == v]
        ok = len(guard) == 1 and len(guard[0].body) == 1 and isinstance(guard[0].body[0], ast.Return) and \
            nonzero(guard[0].body[0].value)
        run.ob("L2", ok, f"convert: unknown {v} is refused with a non-zero status",
               f"no `if {v} is None: return <non-zero>` after fuzzy_match (an unknown name would be decoded as None / exit 0)",
               module=mod, node=a, func="convert", construct=f"refusal for {v}")
    # Response without --command
    rc = [s for s in walk_no_nested(conv) if isinstance(s, ast.If) and norm(s.test) == "not args.command"]
    ok = len(rc) == 1 and isinstance(rc[0].body[-1], ast.Return) and nonzero(rc[0].body[-1].value) and \
        any(isinstance(c, ast.Call) and call_name(c) == "print" and kwarg(c, "file") is not None and norm(kwarg(c, "file")) == "sys.stderr"
            for c in ast.walk(rc[0]))
    par = rc[0]._parent if rc else None
    ok = ok and isinstance(par, ast.If) and norm(par.test) == "tpm_type is Response"
    run.ob("L2", ok, "convert: --type=Response without --command is refused on stderr with a non-zero status",
           "the Response-needs-command refusal changed", module=mod, node=rc[0] if rc else conv, func="convert",
           construct="refusal Response without command")
    last = conv.body[-1]
    run.ob("L2", isinstance(last, ast.Return) and isinstance(last.value, ast.Constant) and last.value.value == 0,
           "convert: the normal end returns 0", f"convert ends with `{norm(last)}`", module=mod, node=last, func="convert",
           construct="convert final return")
    raises = [r for r in walk_no_nested(conv) if isinstance(r, ast.Raise)]
    for r in raises:
        guard = r._parent
        conj = set()
        nested = False
        if isinstance(guard, ast.If):
            conj = {norm(v) for v in (guard.test.values if isinstance(guard.test, ast.BoolOp) and isinstance(guard.test.op, ast.And) else [guard.test])}
            nested = guard._parent is not conv
        want = {canon("tpm_type is not CommandResponseStream"), canon("args.format_in == 'auto'")}
        run.ob("L2", conj == want and not nested, "convert refuses --in=auto only for a type other than the stream type",
               f"the refusal is guarded by {sorted(conj)}{' inside another branch' if nested else ''}: `--type=CommandResponseStream --in=auto` "
               "(the defaults spelled out) is refused although the library decodes it", module=mod, node=r, func="convert",
               construct="convert auto/custom-type refusal guard")
    fz = fns["fuzzy_match"]
    pr = [c for c in walk_no_nested(fz) if isinstance(c, ast.Call) and call_name(c) == "print"]
    ok = len(pr) == 1 and kwarg(pr[0], "file") is not None and norm(kwarg(pr[0], "file")) == "sys.stderr" and "closest_match" in norm(fz) \
        and "get_close_matches" in norm(fz)
    rets = [s for s in walk_no_nested(fz) if isinstance(s, ast.Return)]
    ok = ok and isinstance(fz.body[-1], ast.Return) and isinstance(fz.body[-1].value, ast.Constant) and fz.body[-1].value.value is None
    run.ob("L2", ok, "fuzzy_match: a miss prints a suggestion to stderr and returns None", "fuzzy_match miss path changed", module=mod,
           node=fz, func="fuzzy_match", construct="fuzzy_match miss")
    hit = [s for s in ast.walk(fz) if isinstance(s, ast.Try)]
    ok = len(hit) == 1 and norm(hit[0].body[0]) == canon("result = options[input]") and [norm(x) for x in hit[0].orelse] == ["return result"] \
        and norm(hit[0].handlers[0].type) == "KeyError"
    run.ob("L2", ok, "fuzzy_match: an exact name is returned as is", "fuzzy_match hit path changed", module=mod, node=fz,
           func="fuzzy_match", construct="fuzzy_match hit")
    mn = fns["main"]
    ok = canon("ret = args.func(args)") in [norm(s) for s in mn.body] and norm(mn.body[-1]) == canon("sys.exit(ret)")
    run.ob("L2", ok, "main exits with the sub-command's status", "main() no longer exits with the sub-command's return value",
           module=mod, node=mn, func="main", construct="main exit status")
    ex = fns["examples"]
    fm = [a for a in walk_no_nested(ex) if isinstance(a, ast.Assign) and isinstance(a.value, ast.Call) and call_name(a.value) == "fuzzy_match"]
    for a in fm:
        v = norm(a.targets[0])
        g = [s for s in walk_no_nested(ex) if isinstance(s, ast.If) and norm(s.test) == f"{v} is None"]
        ok = len(g) == 1 and isinstance(g[0].body[0], ast.Return) and nonzero(g[0].body[0].value)
        run.ob("L2", ok, "example: an unknown name is refused with a non-zero status", "refusal in examples changed", module=mod,
               node=a, func="examples", construct="examples refusal")


def nonzero(v):
    if isinstance(v, ast.UnaryOp) and isinstance(v.op, ast.USub) and isinstance(v.operand, ast.Constant):
        return v.operand.value != 0
    return isinstance(v, ast.Constant) and isinstance(v.value, int) and v.value != 0


def l3(run, mod, fns):
    conv = fns["convert"]
    calls = [c for c in walk_no_nested(conv) if isinstance(c, ast.Call) and norm(c.func) == "format_in.marshal"]
    run.ob("L3", len(calls) == 1, "convert decodes through the selected front-end", f"{len(calls)} format_in.marshal calls", module=mod,
           node=conv, func="convert", construct="format_in.marshal call")
    if calls:
        c = calls[0]
        kws = {k.arg: norm(k.value) for k in c.keywords}
        want = {"tpm_type": "tpm_type", "buffer": "bytes_from_files(args.file)", "command_code": "command_code", "abort_on_error": "False"}
        for k, v in want.items():
            run.ob("L3", kws.get(k) == v, f"convert: {k}={v}", f"{k} is `{kws.get(k)}`", module=mod, node=c, func="convert",
                   construct=f"format_in.marshal({k})")
        tgt = c._parent.targets[0].id if isinstance(c._parent, ast.Assign) else None
        loops = [s for s in conv.body if isinstance(s, ast.For) and norm(s.iter) == f"format_out.unmarshal({tgt})"]
        run.ob("L3", len(loops) == 1, "convert prints what the selected printer yields for these events",
               "the print loop does not iterate format_out.unmarshal(events)", module=mod, node=conv, func="convert",
               construct="print loop source")
        if loops:
            lp = loops[0]
            item = lp.target.id
            cut = [n for n in ast.walk(lp) if isinstance(n, (ast.Break, ast.Continue, ast.Return))]
            run.ob("L3", not cut, "convert prints every item", "break/continue/return inside the print loop", module=mod,
                   node=cut[0] if cut else lp, func="convert", construct="print loop cut")
            ok = len(lp.body) == 1 and isinstance(lp.body[0], ast.If) and norm(lp.body[0].test) == f"isinstance({item}, bytes)"
            if ok:
                a = [norm(x) for x in lp.body[0].body]
                b = [norm(x) for x in lp.body[0].orelse]
                ok = a == [canon(f"print(' ' + binascii.hexlify({item}).decode(), end='')")] and b == [f"print({item})"]
            run.ob("L3", ok, "bytes items are printed as hex, text items as they are", "the body of the print loop changed", module=mod,
                   node=lp, func="convert", construct="print loop body")
    # tpm_type selection: CommandResponseStream when --type is absent
    sel = [s for s in conv.body if isinstance(s, ast.If) and norm(s.test) == "args.type is None"]
    ok = len(sel) == 1 and [norm(x) for x in sel[0].body] == ["tpm_type = CommandResponseStream"]
    run.ob("L3", ok, "without --type the whole input is a command/response stream", "default type selection changed", module=mod,
           node=sel[0] if sel else conv, func="convert", construct="default type")


def l4(run, mod, fns):
    fn = fns["parse_all_types"]
    trys = [s for s in ast.walk(fn) if isinstance(s, ast.Try)]
    run.require(len(trys) == 1, "C19: try block of parse_all_types not found")
    t = trys[0]
    caught = set()
    for h in t.handlers:
        if h.type is None:
            caught.add("*")
        else:
            caught |= {norm(e) for e in (h.type.elts if isinstance(h.type, ast.Tuple) else [h.type])}
    run.ob("L4", DOCUMENTED <= caught, "type search catches every documented decoder error",
           f"not caught: {sorted(DOCUMENTED - caught)} - a documented rejection would abort the whole `type` listing", module=mod,
           node=t, func=fn.name, construct="parse_all_types except tuple")
    run.ob("L4", caught <= DOCUMENTED, "type search catches nothing broader (internal errors are not hidden)",
           f"also catches {sorted(caught - DOCUMENTED)}", module=mod, node=t, func=fn.name, construct="parse_all_types except breadth")
    for h in t.handlers:
        run.ob("L4", [norm(x) for x in h.body] == ["continue"], "a rejected type is skipped", "handler does more than continue",
               module=mod, node=h, func=fn.name, construct="parse_all_types handler")
    can = [c for c in ast.walk(t) if isinstance(c, ast.Call) and call_name(c) == "Canonical"]
    ok = len(can) == 1
    if ok:
        kws = {k.arg: norm(k.value) for k in can[0].keywords}
        ok = kws.get("abort_on_error") == "True" and kws.get("lazy") == "False" and kws.get("tpm_type") == "tpm_type" and \
            kws.get("command_code") == "command_code" and kws.get("input") == "buffer" and kws.get("format_in") == "format_in"
    run.ob("L4", ok, "each candidate is decoded strictly and completely", "Canonical(...) arguments changed", module=mod,
           node=can[0] if can else t, func=fn.name, construct="parse_all_types Canonical")
    skips = [norm(s.test) for s in fn.body[0].body if isinstance(s, ast.If) and [norm(x) for x in s.body] == ["continue"]] \
        if isinstance(fn.body[0], ast.For) else []
    ok = sorted(skips) == sorted([canon("tpm_type is CommandResponseStream"), canon("tpm_type.__name__.startswith('TPMU')")])
    run.ob("L4", ok, "only the stream type and union types are excluded from the search", f"skips: {skips}", module=mod, node=fn,
           func=fn.name, construct="parse_all_types skips")
    run.ob("L4", isinstance(fn.body[0], ast.For) and norm(fn.body[0].iter) == "all_types", "every type is tried",
           "the search does not iterate all_types", module=mod, node=fn, func=fn.name, construct="parse_all_types domain")
    rs = [s for s in ast.walk(fn) if isinstance(s, ast.If) and norm(s.test) == "tpm_type is Response"]
    ok = len(rs) == 1 and [norm(x) for x in rs[0].body] == ["command_codes = TPM_CC"]
    run.ob("L4", ok, "Response is tried with every command code", "command-code enumeration for Response changed", module=mod,
           node=rs[0] if rs else fn, func=fn.name, construct="parse_all_types response codes")


def l5(run, mod, fns):
    fn = fns["examples"]
    ff = fns["find_fields"]
    ok = canon("if type(obj) is tpm_type:\n    yield obj") == norm(ff.body[0])
    run.ob("L5", ok, "find_fields selects objects of exactly the sought type", "find_fields match changed", module=mod, node=ff,
           func="find_fields", construct="find_fields match")
    rec = [c for c in walk_no_nested(ff) if isinstance(c, ast.Call) and call_name(c) == "find_fields"]
    ok = len(rec) == 1 and norm(kwarg(rec[0], "tpm_type")) == "tpm_type" and norm(kwarg(rec[0], "obj")) == "getattr(obj, field.name)"
    run.ob("L5", ok, "find_fields recurses into every field with the same sought type", "find_fields recursion changed", module=mod,
           node=ff, func="find_fields", construct="find_fields recursion")
    guards = [s for s in ast.walk(fn) if isinstance(s, ast.If) and isinstance(s.test, ast.BoolOp) and isinstance(s.test.op, ast.Or)
              and any(norm(v) == canon("command_code is None") for v in s.test.values)]
    ok = len(guards) == 1
    if ok:
        vals = {norm(v) for v in guards[0].test.values}
        ok = vals == {canon("command_code is None"), canon("hasattr(obj, 'commandCode') and obj.commandCode == command_code"),
                      canon("hasattr(obj, '_command_code') and obj._command_code == command_code")}
    run.ob("L5", ok, "a message is shown only if its command code is the sought one (or a type is sought)",
           "the command-code filter of `example` changed", module=mod, node=guards[0] if guards else fn, func="examples",
           construct="examples command filter")
    if guards:
        prints = [c for c in ast.walk(fn) if isinstance(c, ast.Call) and call_name(c) == "print" and c.lineno > guards[0].lineno]
        inside = {id(x) for x in ast.walk(guards[0])}
        outside = [c for c in prints if id(c) not in inside]
        run.ob("L5", not outside and prints, "every example line is printed under that filter",
               "an example is printed outside the command-code filter", module=mod, node=outside[0] if outside else guards[0],
               func="examples", construct="examples prints under filter")
    sel = [s for s in ast.walk(fn) if isinstance(s, ast.If) and norm(s.test) == "tpm_type"]
    ok = len(sel) == 1 and [norm(x) for x in sel[0].body] == [canon("objs_to_print = list(find_fields(tpm_type=tpm_type, obj=obj))")] and \
        [norm(x) for x in sel[0].orelse] == [canon("objs_to_print = (obj,)")]
    run.ob("L5", ok, "for a type, only the sub-objects of exactly that type are shown", "object selection of `example` changed", module=mod,
           node=sel[0] if sel else fn, func="examples", construct="examples object selection")
    enc = [c for c in ast.walk(fn) if isinstance(c, ast.Call) and call_name(c) == "Binary.unmarshal"]
    prt = [c for c in ast.walk(fn) if isinstance(c, ast.Call) and call_name(c) == "Pretty.unmarshal"]
    ok = len(enc) == 1 and len(prt) == 1 and isinstance(enc[0].args[0], ast.Name) and norm(enc[0].args[0]) == norm(prt[0].args[0])
    if ok:
        v = enc[0].args[0].id
        loop = enc[0]
        while loop is not None and not (isinstance(loop, ast.For) and any(isinstance(t, ast.Name) for t in ast.walk(loop.target))
                                        and norm(loop.iter) == "objs_to_print"):
            loop = getattr(loop, "_parent", None)
        defs = [a for a in ast.walk(loop) if isinstance(a, ast.Assign) and norm(a.targets[0]) == v] if loop is not None else []
        ok = loop is not None and len(defs) == 1 and norm(defs[0].value) == canon(f"list(obj_to_events({norm(loop.target)}))")
    run.ob("L5", ok, "the hex and the table of an example come from the same event list of the shown object",
           "the re-encoding / printing of an example no longer use one event list built from the shown object", module=mod,
           node=enc[0] if enc else fn, func="examples", construct="examples rendering")
