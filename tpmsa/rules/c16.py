"""C16 - protocol integers carry their value, width, validity and name faithfully.

O1 operator table: in numeric() every dunder of the required set (13 binary operators x
   forward/reflected, 6 comparisons, __int__, __index__, __hash__) is defined, installed under its
   own name, and applies *the operator its name denotes* to int(self) and other in the order its
   reflectedness denotes.
O2 = C02-B1 (byte form = big-endian two's complement of the declared width) - re-evaluated here.
O3 width table: INTn/UINTn have _int_size = n/8, the matching _signed and the full range as valid
   set; no other type redefines width or signedness.
O4 NamedRange is half-open like the range it wraps; its member name is basename + sep +
   zero-padded hex offset with enough nibbles for the span; tpm_enum text form is Type.member.
O5 = C04-V4 (valid iff member of the declared set) - re-evaluated here.
Not decided: per-value behaviour for every integer of every width.
"""
from __future__ import annotations

import ast
import re

from .. import ctx
from ..pattern import match
from ..project import AnalysisError, call_name, norm, walk_no_nested
from ..roles import MarshalRoles
from . import c02, c04, c20

BASE = "tpmstream.spec.common.base_type"
VALUES = "tpmstream.spec.common.values"
BASET = "tpmstream.spec.structures.base_types"

BINOPS = {
    "add": ast.Add, "sub": ast.Sub, "mul": ast.Mult, "truediv": ast.Div, "floordiv": ast.FloorDiv, "mod": ast.Mod,
    "pow": ast.Pow, "lshift": ast.LShift, "rshift": ast.RShift, "and": ast.BitAnd, "xor": ast.BitXor, "or": ast.BitOr,
}
CMPOPS = {"lt": ast.Lt, "le": ast.LtE, "eq": ast.Eq, "ne": ast.NotEq, "gt": ast.Gt, "ge": ast.GtE}


def is_self_int(node, self_name):
    """int(self) | self.__int__() | int(self._value)"""
    return norm(node) in (f"int({self_name})", f"{self_name}.__int__()", f"int({self_name}._value)")


def check(run, project):
    L = ctx.layout(project)
    run.explanation = ("operator table of numeric() compared name-by-name with the operator each dunder denotes; width "
                       "table of base_types from L; naming/containment shape of NamedRange and tpm_enum; plus B1, V4, "
                       "naming facets of the pinned snapshot")
    o1(run, project)
    roles = MarshalRoles(project)
    c02.b1(run, project, roles)  # O2
    c02.b4(run, project)
    o3(run, project, L)
    o4(run, project)
    c04.v4(run, project)  # O5
    c20.t6(run, project, L, facets={"naming", "base"}, rule="O6")
    run.floor("O1", 40, "operator slots")
    run.floor("O3", 100, "primitive types")


def o1(run, project):
    mod = project.module(BASE)
    num = mod.functions().get("numeric")
    if num is None:
        raise AnalysisError("O1: numeric() not found")
    cls = num.args.args[0].arg
    defs = {n.name: n for n in num.body if isinstance(n, ast.FunctionDef)}
    for n in ast.walk(num):
        if isinstance(n, ast.If):
            for s in n.body:
                if isinstance(s, ast.FunctionDef):
                    defs.setdefault(s.name, s)
    installed = {}
    for c in walk_no_nested(num):
        if isinstance(c, ast.Call) and call_name(c) == "setattr" and len(c.args) == 3 and norm(c.args[0]) == cls \
                and isinstance(c.args[1], ast.Constant):
            installed[c.args[1].value] = c.args[2]

    def slot(name, checker, what):
        fn = defs.get(name)
        inst = installed.get(name)
        run.ob("O1", fn is not None and inst is not None and isinstance(inst, ast.Name) and inst.id == name,
               f"{name} is defined and installed under its own name",
               f"numeric() does not install `{name}` (defined: {fn is not None}, setattr target: {norm(inst) if inst is not None else None})",
               module=mod, node=fn or num, func="numeric", construct=f"{name} slot")
        if fn is None:
            return
        body = [s for s in fn.body if not (isinstance(s, ast.Expr) and isinstance(s.value, ast.Constant))]
        if len(body) != 1 or not isinstance(body[0], ast.Return):
            run.ob("O1", False, f"{name} body", f"{name} is not a single return expression", module=mod, node=fn,
                   func="numeric", construct=f"{name} body")
            return
        ok, got = checker(fn, body[0].value)
        run.ob("O1", ok, f"{name} computes {what}", f"{name} returns `{got}`, expected {what}", module=mod, node=fn,
               func="numeric", construct=f"{name} body")

    for base, op in BINOPS.items():
        def fwd(fn, e, op=op):
            s, o = fn.args.args[0].arg, fn.args.args[1].arg
            return (isinstance(e, ast.BinOp) and isinstance(e.op, op) and is_self_int(e.left, s) and norm(e.right) == o), norm(e)

        def rev(fn, e, op=op):
            s, o = fn.args.args[0].arg, fn.args.args[1].arg
            return (isinstance(e, ast.BinOp) and isinstance(e.op, op) and is_self_int(e.right, s) and norm(e.left) == o), norm(e)
        sym = norm(ast.BinOp(left=ast.Name("a"), op=op(), right=ast.Name("b")))
        slot(f"__{base}__", fwd, f"int(self) {sym[2:-2]} other")
        slot(f"__r{base}__", rev, f"other {sym[2:-2]} int(self)")

    def dm(fn, e):
        s, o = fn.args.args[0].arg, fn.args.args[1].arg
        if isinstance(e, ast.Tuple) and len(e.elts) == 2:
            a, b = e.elts
            return (isinstance(a, ast.BinOp) and isinstance(a.op, ast.FloorDiv) and is_self_int(a.left, s) and norm(a.right) == o
                    and isinstance(b, ast.BinOp) and isinstance(b.op, ast.Mod) and is_self_int(b.left, s) and norm(b.right) == o), norm(e)
        return (isinstance(e, ast.Call) and call_name(e) == "divmod" and len(e.args) == 2 and is_self_int(e.args[0], s)
                and norm(e.args[1]) == o), norm(e)

    def rdm(fn, e):
        s, o = fn.args.args[0].arg, fn.args.args[1].arg
        if isinstance(e, ast.Tuple) and len(e.elts) == 2:
            a, b = e.elts
            return (isinstance(a, ast.BinOp) and isinstance(a.op, ast.FloorDiv) and is_self_int(a.right, s) and norm(a.left) == o
                    and isinstance(b, ast.BinOp) and isinstance(b.op, ast.Mod) and is_self_int(b.right, s) and norm(b.left) == o), norm(e)
        return (isinstance(e, ast.Call) and call_name(e) == "divmod" and len(e.args) == 2 and is_self_int(e.args[1], s)
                and norm(e.args[0]) == o), norm(e)
    slot("__divmod__", dm, "(int(self) // other, int(self) % other)")
    slot("__rdivmod__", rdm, "(other // int(self), other % int(self))")
    for base, op in CMPOPS.items():
        def cmp_(fn, e, op=op):
            s, o = fn.args.args[0].arg, fn.args.args[1].arg
            return (isinstance(e, ast.Compare) and len(e.ops) == 1 and isinstance(e.ops[0], op) and is_self_int(e.left, s)
                    and norm(e.comparators[0]) == o), norm(e)
        slot(f"__{base}__", cmp_, f"int(self) <{base}> other")
    slot("__int__", lambda fn, e: (norm(e) == f"int({fn.args.args[0].arg}._value)", norm(e)), "int(self._value)")
    slot("__index__", lambda fn, e: (norm(e) in (f"int({fn.args.args[0].arg}._value)", f"int({fn.args.args[0].arg})"), norm(e)),
         "int(self._value)")
    slot("__hash__", lambda fn, e: (isinstance(e, ast.Call) and call_name(e) == "hash" and len(e.args) == 1
                                    and is_self_int(e.args[0], fn.args.args[0].arg), norm(e)), "hash(int(self))")
    # __int__ is only installed when the class has none: the guard must be `not hasattr(cls, '__int__')`
    fi = defs.get("__int__")
    if fi is not None and isinstance(fi._parent, ast.If):
        run.ob("O1", norm(fi._parent.test) == f"not hasattr({cls}, '__int__')", "__int__ fallback guard",
               f"guard is `{norm(fi._parent.test)}`", module=mod, node=fi._parent, func="numeric", construct="__int__ guard")
    # numeric returns the class, and _INT / AlgValue are decorated with it
    rets = [s for s in num.body if isinstance(s, ast.Return)]  # top level of the decorator only (nested defs have their own returns)
    run.ob("O1", len(rets) == 1 and norm(rets[0].value) == cls, "numeric returns the decorated class", "numeric() does not return cls",
           module=mod, node=num, func="numeric", construct="numeric return")
    for mname, cname in ((BASE, "_INT"), ("tpmstream.spec.structures.constants", "AlgValue")):
        c = project.module(mname).classes().get(cname)
        if c is None:
            raise AnalysisError(f"O1: class {cname} not found")
        run.ob("O1", any(norm(d) == "numeric" for d in c.decorator_list), f"{cname} is @numeric",
               f"{cname} lost the @numeric decorator (no int emulation)", module=project.module(mname), node=c, func=cname,
               construct=f"@numeric {cname}")
    # _INT construction preserves the integer: _value = instance-or-value from valid_values.get(value)
    init = mod.functions().get("_INT.__init__")
    if init is None:
        raise AnalysisError("O1: _INT.__init__ not found")
    v = init.args.args[1].arg
    asg = [s for s in ast.walk(init) if isinstance(s, ast.Assign) and norm(s.targets[0]) == "self._value"]
    srcs = sorted(norm(s.value) for s in asg)
    got = [s for s in ast.walk(init) if isinstance(s, ast.Assign) and isinstance(s.value, ast.Call)
           and norm(s.value) == f"self._valid_values.get({v})"]
    ok = len(got) == 1 and srcs == sorted([norm(got[0].targets[0]), v])
    run.ob("O1", ok, "_INT(value) stores the value (or its named member)", f"_value is assigned from {srcs}", module=mod, node=init,
           func="_INT.__init__", construct="_INT.__init__ value")


def o3(run, project, L):
    bt = ctx.model(project).env(BASET)
    for k, c in L.all.items():
        if not L.is_primitive(c):
            continue
        m = re.fullmatch(r"(U?)INT(\d+)", k)
        own_size = "_int_size" in c.ns
        own_sign = "_signed" in c.ns
        if m:
            n = int(m.group(2))
            unsigned = m.group(1) == "U"
            want_iv = [[0, (1 << n) - 1]] if unsigned else [[-(1 << (n - 1)), (1 << (n - 1)) - 1]]
            ok = L.int_size(c) * 8 == n and L.signed(c) == (not unsigned) and L.valid_intervals(c) == want_iv
            run.ob("O3", ok, f"{k}: {n // 8} bytes, {'unsigned' if unsigned else 'signed'}, full range",
                   f"{k} has _int_size={L.int_size(c)}, _signed={L.signed(c)}, valid={L.valid_intervals(c)}",
                   module=c.module, node=c.node, func=k, construct=f"{k} width/sign/range")
        else:
            run.ob("O3", not own_size and not own_sign, f"{k} inherits width and signedness",
                   f"{k} redefines {'_int_size ' if own_size else ''}{'_signed' if own_sign else ''} instead of inheriting from INTn/UINTn",
                   module=c.module, node=c.node, func=k, construct=f"{k} width/sign override")
            base = next((b for b in c.mro()[1:] if re.fullmatch(r"U?INT\d+", b.name)), None)
            run.ob("O3", base is not None, f"{k} derives from a sized integer", f"{k} has no INTn/UINTn base", module=c.module,
                   node=c.node, func=k, construct=f"{k} base")


def o4(run, project):
    mod = project.module(VALUES)
    f = mod.functions().get("NamedRange.by_number")
    ini = mod.functions().get("NamedRange.__init__")
    if f is None or ini is None:
        raise AnalysisError("O4: NamedRange.by_number/__init__ not found")
    num = f.args.args[1].arg
    from .. import paths
    from .outcomes import check_table, stores
    from .c04 import named_range_contains
    from . import namedrange
    namedrange.check(run, "O4", mod)
    sep = [d for a, d in zip(ini.args.args[-len(ini.args.defaults):], ini.args.defaults) if a.arg == "sep"]
    run.ob("O4", len(sep) == 1 and isinstance(sep[0], ast.Constant) and sep[0].value == ".", "separator is '.'",
           "default separator changed", module=mod, node=ini, func="NamedRange.__init__", construct="sep default")
    enum_fn = mod.functions().get("tpm_enum._tpm_enum")
    if enum_fn is None:
        raise AnalysisError("O4: tpm_enum._tpm_enum not found")

    def installed(dunder):
        """the function object the decorator installs under `dunder`: setattr(cls, "<dunder>", F), directly or in a loop over
        a tuple of names"""
        out = []
        for c in walk_no_nested(enum_fn):
            if isinstance(c, ast.Call) and call_name(c) == "setattr" and len(c.args) == 3 and isinstance(c.args[2], ast.Name):
                key = c.args[1]
                if isinstance(key, ast.Constant) and key.value == dunder:
                    out.append(c.args[2].id)
                elif isinstance(key, ast.Name):
                    lp = c
                    while lp is not None and not isinstance(lp, ast.For):
                        lp = getattr(lp, "_parent", None)
                    if lp is not None and isinstance(lp.target, ast.Name) and lp.target.id == key.id and isinstance(lp.iter, (ast.Tuple, ast.List)) \
                            and any(isinstance(x, ast.Constant) and x.value == dunder for x in lp.iter.elts):
                        out.append(c.args[2].id)
        return out
    for dunder in ("__format__", "__str__", "__repr__"):
        srcs = installed(dunder)
        ef = mod.functions().get(f"tpm_enum._tpm_enum.{srcs[0]}") if len(srcs) == 1 else None
        if dunder == "__format__" and ef is None:
            raise AnalysisError("O4: the function tpm_enum installs as __format__ was not found")
        rets = [r for r in ast.walk(ef) if isinstance(r, ast.Return)] if ef is not None else []
        ok = len(rets) == 1 and norm(rets[0].value) == "f'{type(self).__name__}.{self._name}'"
        run.ob("O4", ok, f"enum {dunder} is the Type.member form",
               f"{dunder} is installed from {srcs or 'nothing'}" + (f", which returns `{norm(rets[0].value)}`" if rets else ""), module=mod,
               node=ef or enum_fn, func="tpm_enum", construct="enum __format__" if dunder == "__format__" else f"enum {dunder}")
    # enum __init__: name looked up by value; unknown value keeps the integer
    ei = mod.functions().get("tpm_enum._tpm_enum.__init__")
    if ei is None:
        raise AnalysisError("O4: tpm_enum.__init__ not found")
    ep = [a_.arg for a_ in ei.args.args]
    run.require(len(ep) == 3, "O4: tpm_enum.__init__ signature changed")
    ev, en = ep[1], ep[2]
    look = f"type(self).by_value({ev})"
    atoms_i = {a_ for p_ in paths.summarise(mod, ei) for a_, _t, _ in p_.cond}
    alt = sorted(a_ for a_ in atoms_i if a_.startswith("type(self).") and a_.endswith(f"({ev}) is None"))
    if alt:
        # the lookup answers None for an unknown value (the search helper guarded by G4) instead of raising
        look = alt[0][:-len(" is None")]
        rows = [({f"{en} is None": False}, (en, ev)), ({f"{en} is None": True, alt[0]: True}, ("None", ev)),
                ({f"{en} is None": True}, (f"{look}._name", f"{look}._value"))]
        closed = ()
    else:
        rows = [({f"{en} is None": False}, (en, ev)), ({f"{en} is None": True, "try raises ValueError": True}, ("None", ev)),
                ({f"{en} is None": True}, (f"{look}._name", f"{look}._value"))]
        closed = ("try raises ValueError",)
    n = check_table(run, "O4", mod, ei, "tpm_enum.__init__", rows,
                    lambda q: (stores(q).get("self._name"), stores(q).get("self._value")), None,
                    "enum construction keeps a given name, else looks the member up by value and keeps unknown integers without a name",
                    "enum __init__", skip=lambda q: q.end == "raise", show=lambda o: f"(_name, _value) = {o}",
                    closed=closed)
    run.require(n >= 3, "O4: tpm_enum.__init__ has fewer than three outcomes")
    # _INT text form delegates to the wrapped value
    base = project.module(BASE)
    # the text form of a protocol integer: `numeric` installs __str__ on the class unconditionally (a __str__ written in the
    # body of _INT is replaced by it), so that is the one that counts: str(int(self))
    num = base.functions().get("numeric")
    inst = [c_ for c_ in (walk_no_nested(num) if num is not None else []) if isinstance(c_, ast.Call) and call_name(c_) == "setattr"
            and len(c_.args) == 3 and isinstance(c_.args[1], ast.Constant) and c_.args[1].value == "__str__"
            and not isinstance(getattr(getattr(c_, "_parent", None), "_parent", None), ast.If)]
    if inst:
        fdef = base.functions().get(f"numeric.{norm(inst[0].args[2])}")
        ok = fdef is not None and [norm(s_) for s_ in walk_no_nested(fdef) if isinstance(s_, ast.Return)] == ["return str(int(self))"]
        st = fdef
        why = "the __str__ installed by numeric() no longer returns str(int(self))"
    else:
        st = base.functions().get("_INT.__str__")
        ok = st is not None and [norm(s_) for s_ in walk_no_nested(st) if isinstance(s_, ast.Return)] == ["return str(self._value)"]
        why = "_INT.__str__ no longer returns str(self._value)"
    run.ob("O4", ok, "the text form of a protocol integer is the wrapped value's", why, module=base,
           node=st or base.tree, func="_INT.__str__", construct="_INT.__str__")
    pass  # (membership is part of namedrange.check above)
