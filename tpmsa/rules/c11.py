"""C11 - events and Python objects convert into each other without loss (necessary conditions).

A1 skip-set agreement: the field names obj_to_events treats as invisible-when-None equal the
   fields the framing walkers can skip (computed from the specialised traces of C01-F).
A2 its union test (name starts with TPMU) coincides with "has _selected_by" on all of L.
A3 the empty-field marker and list-parent events built by obj_to_events have the decoder's shape
   (path / PathNode(field.name), field.type, ...); struct parent first; children in field order.
A4 both object builders construct tpm_type(**values) keyed by field name; the encrypted-parameter
   detection keys off exactly the annotations of TPM2B_ENCRYPTED_PARAM; Response objects built from
   events get the command code they were decoded with.
A5 absent-representation agreement (sibling rule): where the decoder emits a container / marker
   event but returns None for that node (null union arm, empty structured TPM2B payload), the
   events->object builder must map the corresponding empty node to None as well.
Not decided: the round trips themselves.
"""
from __future__ import annotations

import ast

from .. import ctx
from .. import paths
from ..pattern import canon, match
from ..project import AnalysisError, call_name, kwarg, norm, walk_no_nested
from ..roles import MarshalRoles
from ..specialise import Specialiser

OBJECT = "tpmstream.common.object"
PARAMS = "tpmstream.spec.commands.params_common"


def skippable_fields(roles, L):
    out = set()
    for w, T in (("process_command", L.Command), ("process_response", L.Response)):
        fn = roles.walkers[w]
        traces = [s for s in Specialiser(L, roles.mod, fn, T, dispatcher=roles.dispatcher.name).run() if s.status == "return"]
        allf = [n for n, _ in L.fields(T)]
        for tr in traces:
            got = {e.data["field"] for e in tr.trace if e.kind == "process"}
            out |= set(allf) - got
    return out


def check(run, project):
    roles = MarshalRoles(project)
    L = ctx.layout(project)
    mod = project.module(OBJECT)
    run.explanation = ("agreement between the decoder's framing (specialised traces), the layout model L and the two "
                       "conversion directions in common/object.py")
    o2e = mod.functions().get("obj_to_events")
    if o2e is None:
        raise AnalysisError("C11: obj_to_events not found")
    # A9 (= C15-F2): the decoder's object reaches the caller through every front-end
    from ..report import RuleView as _RV
    from . import c15 as _c15
    _c15.f1_f2(_RV(run, "F2", "A9"), project)
    from .shared import unbound_locals
    unbound_locals(run, project, "A8", (OBJECT,), what="the conversion fails instead of rebuilding the object")
    from .shared import undefined_names
    undefined_names(run, project, "A8", (OBJECT,), what="the conversion fails instead of rebuilding the object")
    # ---- A1 / A2 / A3 (path summaries of obj_to_events)
    got, prefix = a123(run, mod, o2e, L)
    skip = skippable_fields(roles, L)
    run.ob("A1", got == skip, f"invisible-when-None fields = fields the framing can skip ({sorted(skip)})",
           f"obj_to_events hides {sorted(got)} but the decoder can omit {sorted(skip)}: " +
           (f"{sorted(skip - got)} would get a spurious empty-field event; " if skip - got else "") +
           (f"{sorted(got - skip)} would lose its empty-field marker" if got - skip else ""), module=mod, node=o2e,
           func="obj_to_events", construct="invisible field names")
    # only Command/Response have fields of those names... elsewhere a None field of that name would be hidden wrongly
    for k, c in L.all.items():
        if c in (L.Command, L.Response) or not L.is_dataclass(c) or c.has("_selected_by"):
            continue
        # only a field that can decode to None matters: a union one of whose members has no payload
        clash = [n for n, t in L.fields(c) if n in got and hasattr(t, "has") and t.has("_selected_by")
                 and any(ft is None for _, ft in L.fields(t))]
        run.ob("A1", not clash, f"{k}: no field shares a name with an invisible framing field",
               f"{k} has fields {clash}: when empty (None) they would be hidden instead of getting their empty-field marker",
               module=c.module, node=c.node, func=k, construct=f"{k} field names vs invisible set")
    for k, c in L.all.items():
        if L.is_dataclass(c):
            named = prefix[1](c, L)
            run.ob("A2", named == c.has("_selected_by"), f"{k}: `{prefix[0]}` <=> is a union",
                   f"{k} {'passes the union test `' + prefix[0] + '` but has no _selected_by' if named else 'is a union but fails the test `' + prefix[0] + '`'}: "
                   "its absent members are (not) hidden inconsistently with the decoder", module=c.module, node=c.node, func=k,
                   construct=f"{k} union naming")
    # ---- A4
    a4(run, project, mod, roles)
    # ---- A5
    a5(run, mod, roles)
    # ---- A6: decoder and object builder obtain the encrypted layout from the same memoised classmethod; they only agree
    #      on the class *object* if that memo never evicts
    from ..callgraph import CallGraph
    from .c12 import check_memo
    cg = CallGraph(project)
    ref = cg.get(PARAMS, "TPMS_PARAMS.encrypted")
    if ref is None:
        raise AnalysisError("C11: TPMS_PARAMS.encrypted not found")
    keyspace = sum(1 for c in L.all.values() if c.is_subclass_of(L.TPMS_PARAMS) and c is not L.TPMS_PARAMS)
    carriers = memo_carriers(cg, ref)
    for c in carriers or ():
        check_memo(run, c, keyspace, rule="A6")
    run.ob("A6", bool(carriers), "the synthesised encrypted layout is memoised (one class object per parameter area)",
           "encrypted() is no longer memoised: decoder and object builder synthesise two different classes", module=ref.mod,
           node=ref.node, func=ref.qual, construct="encrypted() memoisation")
    # A7: the object the decoder returns equals the one rebuilt from its events: a union arm without payload is `None` in both
    # (`_to_obj` turns the empty-field marker into None), so the union walker must return None for it - its return values are
    # decided by C01-W7, re-used here
    from ..report import RuleView
    from . import c01
    c01.check(RuleView(run, "W7", "A7"), project)
    # A10 (= C09-S5): the objects of a stream are rebuilt message by message, each response with the code of the command just
    # before it and the code forgotten afterwards (events_to_objs / separate_events)
    from . import c09
    try:
        c09.s5(RuleView(run, "S5", "A10"), project)
    except AnalysisError as ex:
        run.info(f"A10: the stream conversion could not be followed ({ex}); not judged here (C09 reports it)")
    # A11 (= C01-F): missing session areas and the parts a failed response lacks stay absent: per tag / response code the
    # message walkers decode exactly the fields the layout has for that case (no event, not even an empty one, for the others)
    try:
        c01.framing(RuleView(run, "F", "A11"), MarshalRoles(project), ctx.layout(project))
    except AnalysisError as ex:
        run.info(f"A11: the message walkers could not be followed ({ex}); not judged here (C01 reports it)")
    # A12: the object a Canonical was built from is the object it hands back (and re-encodes): the slots the constructor fills
    # from its input are assigned later only where they are empty
    from .shared import canonical_fill_once
    canonical_fill_once(run, project, "A12", "`.object` fails or is replaced by what the event generator returned")
    run.floor("A1", 100)
    run.floor("A2", 500)


def memo_carriers(cg, ref, depth=0):
    """the memoised function(s) every result of `ref` comes from: ref itself if it carries a memoising decorator, else - if all
    its returns hand back a parameter or the result of a memoised function of the same module applied to parameters only -
    those functions; None if some result is synthesised outside a memo"""
    from .c12 import MEMO
    fn = ref.node
    if any(norm(d.func if isinstance(d, ast.Call) else d) in MEMO for d in fn.decorator_list):
        return [ref]
    if depth > 2:
        return None
    params = {a.arg for a in fn.args.args}
    out = []
    rets = [n for n in ast.walk(fn) if isinstance(n, ast.Return)]
    for r in rets:
        v = r.value
        if isinstance(v, ast.Name) and v.id in params:
            continue
        if isinstance(v, ast.Call) and isinstance(v.func, ast.Name) and not v.keywords and \
                all(isinstance(a, ast.Name) and a.id in params for a in v.args):
            callee = cg.get(ref.mod.name, v.func.id)
            sub = memo_carriers(cg, callee, depth + 1) if callee is not None else None
            if sub:
                out += sub
                continue
        return None
    return out or None


def label(p):
    return " & ".join(("" if v else "not ") + a for a, v, _ in p.cond) or "always"


def a123(run, mod, fn, L):
    """obj_to_events, decided on the summaries of its paths. Returns (invisible names, union name prefix)."""
    import re
    S = paths.Summariser(mod, fn)
    top = S.paths()
    run.require(len(top) >= 3, "C11: fewer than three paths through obj_to_events")
    loops = [s for s in ast.walk(fn) if isinstance(s, ast.For)]
    names, prefixes = set(), set()
    union_tests = {}
    n_struct = n_list = n_leaf = 0
    for p in top:
        P = "path" if p.env.get("path") is None else paths.text(p.env["path"])
        if p.truth("path is None") is True:
            if P == "ROOT_PATH":   # the shared constant: must be the same root path by definition
                pm_ = L.m.project.module("tpmstream.common.path") if hasattr(L.m, "project") else None
                rdef = [s_ for s_ in (pm_.tree.body if pm_ is not None else []) if isinstance(s_, ast.Assign) and norm(s_.targets[0]) == "ROOT_PATH"]
                if not (len(rdef) == 1 and norm(rdef[0].value) == "Path(PathNode(PATH_NODE_ROOT_NAME))"):
                    P = f"ROOT_PATH (defined as {norm(rdef[0].value) if rdef else '?'})"
            run.ob("A3", P in ("Path(PathNode(PATH_NODE_ROOT_NAME))", "ROOT_PATH"), "the default path is the decoder's root path",
                   f"default path is `{P}`", module=mod, node=fn, func=fn.name, construct="obj_to_events default path")
        fx = p.effect_texts()
        # "not a dataclass": `fields(obj)` raised TypeError, or `dataclasses.is_dataclass(obj)` answered no (the same test)
        not_dc = any(a.startswith("try@") and "TypeError" in a for a, v, _ in p.cond) or p.truth("is_dataclass(obj)") is False \
            or p.truth("dataclasses.is_dataclass(obj)") is False
        if not_dc:
            is_list_ = p.truth("isinstance(obj, list)")
            if is_list_ is None:
                run.ob("A3", False, f"obj_to_events [{label(p)}]", "a non-dataclass node is neither handled as list nor as leaf",
                       module=mod, node=p.node or fn, func=fn.name, construct="obj_to_events event shapes")
            elif is_list_:
                n_list += 1
                lps = [(k, e, n) for k, e, n in p.effects if k == "loop"]
                ok = len(lps) == 1 and isinstance(lps[0][2], ast.For) and isinstance(lps[0][2].target, ast.Tuple) \
                    and len(lps[0][2].target.elts) == 2 and paths.text(lps[0][1]) == "enumerate(obj)" \
                    and [k for k, _ in fx if k not in ("try-body",)] == ["loop"]
                if ok:
                    i, elem = (norm(x) for x in lps[0][2].target.elts)
                    want = [("yieldfrom", f"obj_to_events(obj={elem}, path={P}[:-1] / PathNode(name={P}[-1].name, index={i}))")]
                    wants = [want]
                    # `node.with_index(i)` is that node with the index set, by the definition of PathNode.with_index
                    pm2 = L.m.project.module("tpmstream.common.path") if hasattr(L.m, "project") else None
                    wi = pm2.functions().get("PathNode.with_index") if pm2 is not None else None
                    if wi is not None and len(wi.args.args) == 2:
                        rs = [r for r in ast.walk(wi) if isinstance(r, ast.Return)]
                        a1 = wi.args.args[1].arg
                        if len(rs) == 1 and norm(rs[0].value) in (f"PathNode(name=self.name, index={a1})", f"PathNode(self.name, {a1})",
                                                                   f"PathNode(self.name, index={a1})"):
                            wants.append([("yieldfrom", f"obj_to_events(obj={elem}, path={P}[:-1] / {P}[-1].with_index({i}))")])
                    body = p.loops[id(lps[0][2])]
                    ok = all(b.effect_texts() in wants and b.end == "fall" and not b.cond for b in body) and len(body) == 1
                run.ob("A3", ok, "list elements get path[:-1] / PathNode(name, index=i), in order", "element paths of obj_to_events changed: "
                       f"{[b.effect_texts() for b in p.loops.get(id(lps[0][2]), [])] if lps else fx}", module=mod,
                       node=lps[0][2] if lps else fn, func=fn.name, construct="obj_to_events element path")
            else:
                n_leaf += 1
                want = [("yield", f"MarshalEvent({P}, type(obj), obj)")]
                run.ob("A3", [x for x in fx if x[0] != "try-body"] == want, "a leaf is one event (path, type(obj), obj)",
                       f"leaf emission is {fx}", module=mod, node=p.node or fn, func=fn.name, construct="obj_to_events event shapes")
            continue
        # dataclass node: own event first, then the fields in declaration order
        n_struct += 1
        lps = [(k, e, n) for k, e, n in p.effects if k == "loop"]
        want_head = ("yield", f"MarshalEvent({P}, type(obj), ...)")
        run.ob("A3", fx[:1] == [want_head] and len(fx) == 2 and len(lps) == 1, "the struct's own event comes first",
               f"struct emission is {fx[:3]}: struct parent event is not emitted (once) before its fields", module=mod, node=fn,
               func=fn.name, construct="obj_to_events parent first")
        if len(lps) != 1 or not isinstance(lps[0][2], ast.For) or not isinstance(lps[0][2].target, ast.Name):
            raise AnalysisError("C11: field loop of obj_to_events not found")
        lp = lps[0][2]
        f_ = lp.target.id
        run.ob("A3", paths.text(lps[0][1]) == "fields(obj)", "children are emitted in declaration order",
               f"field iteration of obj_to_events is over `{paths.text(lps[0][1])}`", module=mod, node=lp, func=fn.name,
               construct="obj_to_events field order")
        V, Lst = f"getattr(obj, {f_}.name) is None", f"is_list({f_}.type)"
        body = p.loops[id(lp)]
        U = I = None
        for b in body:
            for a_, _v, _n in b.cond:
                if "type(obj)" in a_:
                    # the union test: any predicate over the object's type the layout model can evaluate (a name prefix,
                    # an attribute the union decorator sets, ...); A2 folds it over every layout class
                    from .c01 import type_atom
                    pred = type_atom(a_, "type(obj)")
                    if pred is not None:
                        try:
                            pred(L.Command, L)
                        except AnalysisError:
                            pred = None
                    if pred is not None:
                        U = a_
                        prefixes.add(a_)
                        union_tests[a_] = pred
                m = re.fullmatch(re.escape(f_) + r"\.name in (.+)", a_)
                if m:
                    I = a_
                    txt_ = m.group(1)
                    e_ = None
                    try:
                        e_ = ast.parse(txt_, mode="eval").body
                    except SyntaxError:
                        pass
                    # frozenset({...}) / set([...]) / tuple((...)) of literals is the literal collection
                    if isinstance(e_, ast.Call) and isinstance(e_.func, ast.Name) and e_.func.id in ("frozenset", "set", "tuple", "list") \
                            and len(e_.args) == 1 and not e_.keywords:
                        txt_ = ast.unparse(e_.args[0])
                    try:
                        names |= set(ast.literal_eval(txt_))
                    except Exception:
                        # not a literal: a table of names built from the layout classes - evaluated like the layout tables are
                        from ..specmodel import TupleV
                        L.m.load(mod.name)
                        v = L.m.eval(ast.parse(m.group(1), mode="eval").body, L.m.env(mod.name), mod)
                        if not (isinstance(v, TupleV) and all(isinstance(x, str) for x in v.items)):
                            raise AnalysisError(f"C11: invisible-field set of obj_to_events cannot be evaluated: {a_}")
                        names |= set(v.items)
        if U is None or I is None:
            raise AnalysisError("C11: invisible-field tuple / union-name test of obj_to_events not found")
        FP = f"{P} / PathNode({f_}.name)"
        marker = ("yield", f"MarshalEvent({FP}, {f_}.type, ...)")
        rec = ("yieldfrom", f"obj_to_events(obj=getattr(obj, {f_}.name), path={FP})")
        outcome = {(): "hide", (marker,): "marker", (marker, rec): "list", (rec,): "value"}
        spec = [({V: True, U: True}, "hide"), ({V: True, I: True}, "hide"), ({V: True}, "marker"), ({Lst: True}, "list")]
        for b in body:
            got = outcome.get(tuple(b.effect_texts()))
            want = paths.decide(spec, "value", b)
            if got is None:
                run.ob("A3", False, f"obj_to_events field [{label(b)}]", f"emits {b.effect_texts()}: not one of hidden / empty-field "
                       f"marker `{marker[1]}` / list parent + value / value at `{FP}`", module=mod, node=b.node or lp, func=fn.name,
                       construct="obj_to_events event shapes")
                continue
            kind = {"hide": "invisible field names", "marker": "obj_to_events event shapes", "list": "obj_to_events list parent",
                    "value": "obj_to_events recursion"}[got if want != {"list"} else "list"]
            run.ob("A3", want == {got} and b.end in ("fall", "continue"), f"obj_to_events field [{label(b)}]: {got}",
                   f"the field is treated as `{got}` where the decoder's shape requires {sorted(want)}", module=mod,
                   node=b.node or (b.cond[-1][2] if b.cond else lp), func=fn.name, construct=kind)
    run.require(n_struct >= 1 and n_list >= 1 and n_leaf >= 1, "C11: struct / list / leaf paths of obj_to_events not all found")
    run.require(len(prefixes) == 1, "C11: union-name test of obj_to_events not found")
    u = prefixes.pop()
    return names, (u, union_tests[u])


def decided(run, rule, mod, fn, spec, default, construct, what, values=None, atoms_needed=(), implies=()):
    """every path of fn returns what the decision list says (values: outcome name -> expected return text)"""
    ps = paths.summarise(mod, fn)
    for p in ps:
        if p.end == "raise":
            continue
        got = p.value_text() if p.end == "return" else f"<{p.end}>"
        want = paths.decide(spec, default, p, implies)
        if not want:
            continue  # contradicts a known implication between the atoms
        run.ob(rule, want == {got}, f"{fn.name} [{label(p)}]: {got[:60]}", f"{what}: returns `{got}` where {sorted(want)} is required",
               module=mod, node=p.node or fn, func=fn.name, construct=construct)
    return ps


def _resolver_call(dc):
    """(the call R(...), name of the key variable) when dc is `{k: _to_obj(R(...), v) for k, v in dict_obj.items()}`"""
    if not (isinstance(dc, ast.DictComp) and len(dc.generators) == 1):
        return None
    g = dc.generators[0]
    if g.ifs or g.is_async or norm(g.iter) != "dict_obj.items()" or not (isinstance(g.target, ast.Tuple) and len(g.target.elts) == 2
                                                                         and all(isinstance(t, ast.Name) for t in g.target.elts)):
        return None
    k, v = (t.id for t in g.target.elts)
    c = dc.value
    if not (isinstance(dc.key, ast.Name) and dc.key.id == k and isinstance(c, ast.Call) and call_name(c) == "_to_obj" and len(c.args) == 2
            and not c.keywords and isinstance(c.args[1], ast.Name) and c.args[1].id == v and isinstance(c.args[0], ast.Call)
            and isinstance(c.args[0].func, ast.Name)):
        return None
    return c.args[0], k


def a4(run, project, mod, roles):
    d2o = mod.functions().get("_dict_to_obj")
    e2o = mod.functions().get("events_to_obj")
    to = mod.functions().get("_to_obj")
    if d2o is None or e2o is None or to is None:
        raise AnalysisError("C11: _dict_to_obj / events_to_obj / _to_obj not found")
    # ---- _dict_to_obj
    ps = paths.summarise(mod, d2o)
    resolver_calls = []
    C, E, R = "tpm_type is Command", "TPMS_PARAMS.is_encrypted_params(dict_obj)", "tpm_type is Response"
    run.require(len(ps) >= 4, "C11: paths of _dict_to_obj not found")
    for p in ps:
        fx = p.effect_texts()
        kw = [e for k, e, _ in p.effects if k == "assign" and isinstance(e.value, ast.DictComp)]
        okk = len(kw) == 1 and _resolver_call(kw[0].value) is not None
        if okk:
            # (the statement as written: the path summary has the caller's current values substituted into it)
            raw = [s_ for s_ in walk_no_nested(d2o) if isinstance(s_, ast.Assign) and _resolver_call(s_.value) is not None]
            if raw:
                resolver_calls.append(_resolver_call(raw[0].value))
        kn = norm(kw[0].targets[0]) if kw else "?"
        T = "tpm_type.encrypted()" if p.truth(E) else "tpm_type"
        ok = okk and p.end == "return" and p.value_text() == f"{T}(**{kn})"
        run.ob("A4", ok, f"_dict_to_obj [{label(p)}]: objects are rebuilt as tpm_type(**{{field name: converted value}})",
               f"_dict_to_obj construction changed: returns `{p.value_text()}` from {[e for k, e in fx if k == 'assign']}", module=mod,
               node=p.node or d2o, func=d2o.name, construct="_dict_to_obj construction")
        # a Command's own code selects its areas
        cc = p.env.get("command_code")
        cc = "command_code" if cc is None else paths.text(cc)
        t = p.truth(C)
        run.ob("A4", t is not None and cc == ("dict_obj['commandCode']" if t else "command_code"), "a Command's own code selects its areas",
               f"on the path [{label(p)}] the command code is `{cc}`: command-code extraction for Command changed", module=mod,
               node=d2o, func=d2o.name, construct="_dict_to_obj command code")
        # encrypted areas use the synthesised layout
        t = p.truth(E)
        cur = "tpm_type" if p.env.get("tpm_type") is None else paths.text(p.env["tpm_type"])
        run.ob("A4", t is not None and cur == T, "an encrypted area is rebuilt with the synthesised encrypted layout",
               f"on the path [{label(p)}] the layout is `{cur}`: encrypted() substitution in _dict_to_obj changed", module=mod,
               node=d2o, func=d2o.name, construct="_dict_to_obj encrypted")
        # Response: the command code used for the area types is remembered
        sets = [e for k, e in fx if k == "call" and "__setattr__" in e or k == "store" and "_command_code" in e]
        t = p.truth(f"{T} is Response")
        want = [f"object.__setattr__({T}(**{kn}), '_command_code', {cc})"] if t else []
        run.ob("A4", t is not None and sets == want, "a rebuilt Response remembers its command code",
               f"on the path [{label(p)}] the bookkeeping is {sets}: _command_code bookkeeping changed", module=mod, node=d2o,
               func=d2o.name, construct="_dict_to_obj _command_code")
    for w in ("process_tpms", "process_command", "process_response", "process_tpm2b"):
        fn = roles.walkers[w]
        rets = [r for r in walk_no_nested(fn) if isinstance(r, ast.Return) and isinstance(r.value, ast.Tuple) and len(r.value.elts) == 2]

        def by_name(e, t=fn.args.args[0].arg):
            """None, or the layout class called with members given by name only: `T(**values)`, `T(**{f.name: v, ...})`"""
            if isinstance(e, ast.Constant) and e.value is None:
                return True
            if not (isinstance(e, ast.Call) and isinstance(e.func, ast.Name) and e.func.id in (t, "tpm_type") and not e.args and e.keywords):
                return False
            for k_ in e.keywords:
                if k_.arg is not None or isinstance(k_.value, ast.Name):
                    continue
                if isinstance(k_.value, ast.Dict) and all(isinstance(x, ast.Attribute) and x.attr == "name" for x in k_.value.keys):
                    continue
                return False
            return True
        bad = [r for r in rets if not by_name(r.value.elts[1])]
        run.ob("A4", rets and not bad, f"{w}: the decoder's object is tpm_type(**values)", f"returns {[norm(r.value.elts[1]) for r in bad]}",
               module=roles.mod, node=bad[0] if bad else fn, func=w, construct=f"{w} object construction")
    # ---- area types resolved through the same tables as the decoder
    # the resolver is whatever function the conversion calls for a member's type: a closure of _dict_to_obj over (tpm_type,
    # dict_obj, command_code), or a function that is handed those three - then its parameters are read as the caller's
    # variables they are bound to (a parameter bound to anything but a plain variable is reported)
    if not resolver_calls:
        raise AnalysisError("C11: the member-type resolver of _dict_to_obj was not found")
    rcall, kname = resolver_calls[0]
    rname = rcall.func.id
    gat = mod.functions().get(f"_dict_to_obj.{rname}")
    gat_q = f"_dict_to_obj.{rname}"
    if gat is not None:
        okc = len(rcall.args) == 1 and not rcall.keywords and isinstance(rcall.args[0], ast.Name) and rcall.args[0].id == kname
        run.ob("A4", okc, "the resolver is asked for the member being converted", f"resolver call `{norm(rcall)}`", module=mod, node=rcall,
               func=d2o.name, construct="get_attr_type")
        nm = gat.args.args[0].arg
    else:
        from .shared import locate_function
        gm, gat0 = locate_function(project, mod, rname)
        if gat0 is None or gat0.args.vararg or gat0.args.kwarg or gat0.args.posonlyargs:
            raise AnalysisError(f"C11: member-type resolver `{rname}` not found")
        gat_q = rname
        import copy as _copy
        gat = _copy.deepcopy(gat0)
        params = [a.arg for a in gat.args.args + gat.args.kwonlyargs]
        bound = dict(zip([a.arg for a in gat.args.args], rcall.args))
        for k_ in rcall.keywords:
            if k_.arg is not None:
                bound[k_.arg] = k_.value
        ren, nm, okc = {}, None, len(rcall.args) <= len(gat.args.args)
        for p_ in params:
            a_ = bound.get(p_)
            if isinstance(a_, ast.Name) and a_.id == kname:
                nm = p_
            elif isinstance(a_, ast.Name):
                ren[p_] = a_.id
            else:
                okc = False   # a default or a computed argument: the resolver no longer sees the caller's variable
        run.ob("A4", okc and nm is not None, "the resolver is handed the member name and the caller's layout / dict / command code",
               f"resolver call `{norm(rcall)}` does not bind every parameter of {rname} to a variable of _dict_to_obj", module=mod,
               node=rcall, func=d2o.name, construct="get_attr_type")
        if nm is None:
            return
        for n_ in ast.walk(gat):
            if isinstance(n_, ast.Name) and n_.id in ren:
                n_.id = ren[n_.id]
            elif isinstance(n_, ast.arg) and n_.arg in ren:
                n_.arg = ren[n_.arg]
        for n_ in ast.walk(gat):
            for c_ in ast.iter_child_nodes(n_):
                c_._parent = n_
        gat._parent = gm.tree
    base = f"next((f for f in fields(tpm_type) if f.name == {nm})).type"
    gps = paths.summarise(mod, gat)
    ft = None
    for p in gps:
        if p.end == "return" and not p.cond:
            pass
    # find the field-type expression the function uses (generator variable name is free)
    cand = {p.value_text() for p in gps if p.end == "return"}
    ftx = [c for c in cand if "_type_maps" not in c]
    run.ob("A4", len(ftx) == 1 and match(paths.pattern_expr(ftx[0]), f"next((M_f for M_f in fields(tpm_type) if M_f.name == {nm})).type") is not None,
           "a field's declared type comes from the dataclass fields", f"get_attr_type resolves declared types as {ftx}", module=mod,
           node=gat, func=gat_q, construct="get_attr_type")
    if len(ftx) == 1:
        FT = ftx[0]
        A, H = f"{FT} is Any", "hasattr(tpm_type, '_selectors')"
        spec = [({A: True, H: True}, f"tpm_type._type_maps[{nm}][dict_obj[tpm_type._selectors[{nm}]]]"),
                ({A: True}, f"tpm_type._type_maps[{nm}][command_code]")]
        for p in gps:
            if p.end != "return":
                continue
            want = paths.decide(spec, FT, p)
            run.ob("A4", want == {p.value_text()}, f"get_attr_type [{label(p)[:70]}]",
                   f"area layouts are no longer looked up in the decoder's tables with the decoder's keys: returns `{p.value_text()}` "
                   f"where {sorted(want)} is required", module=mod, node=p.node or gat, func=gat_q,
                   construct="get_attr_type")
    # ---- encrypted detection
    pm = project.module(PARAMS)
    ie = pm.functions().get("TPMS_PARAMS.is_encrypted_params")
    if ie is None:
        raise AnalysisError("C11: is_encrypted_params not found")
    # folded over its whole domain in the decoder: the dict form of every parameter area of L, plain and with the encrypted
    # first parameter, the empty dict, and objects with / without the _encrypted flag - the text of the function is not read
    from ..minieval import Interp, Raised, TypeRef
    from ..specmodel import ClassV, ListT
    L = ctx.layout(project)

    def shape(t, depth=0):
        if isinstance(t, ListT):
            return []
        if isinstance(t, ClassV) and L.is_dataclass(t) and depth < 2:
            return {fn_: shape(ft, depth + 1) for fn_, ft in L.fields(t)}
        return 0
    enc_shape = {fn_: shape(ft, 1) for fn_, ft in L.fields(L.TPM2B_ENCRYPTED_PARAM)}
    cases = [("{}", {}, False), ("object with _encrypted=True", TypeRef("obj", attrs={"_encrypted": True}), True),
             ("object with _encrypted=False", TypeRef("obj", attrs={"_encrypted": False}), False),
             ("object without _encrypted", TypeRef("obj"), False)]
    for k, c in sorted(L.all.items()):
        if not (isinstance(c, ClassV) and c.is_subclass_of(L.TPMS_PARAMS)) or c is L.TPMS_PARAMS:
            continue
        fl = L.fields(c)
        if not fl:
            continue
        plain = {fn_: shape(ft) for fn_, ft in fl}
        cases.append((f"{k} plain", plain, plain[fl[0][0]] == enc_shape and isinstance(plain[fl[0][0]], dict)))
        if isinstance(fl[0][1], ClassV) and fl[0][1].name.startswith("TPM2B"):
            enc = dict(plain)
            enc[fl[0][0]] = dict(enc_shape)
            cases.append((f"{k} encrypted", enc, True))
    g = {"TPM2B_ENCRYPTED_PARAM": TypeRef("TPM2B_ENCRYPTED_PARAM", annotations={fn_: TypeRef("?") for fn_, _ in L.fields(L.TPM2B_ENCRYPTED_PARAM)}),
         "dict": TypeRef("dict")}
    n_ok = 0
    for name_, arg, want in cases:
        try:
            got = Interp(g, module_tree=pm.tree).call(ie, [arg])
        except Raised as r:
            got = f"raises {r.cls}"
        ok = (bool(got) == want) if not isinstance(got, str) else False
        n_ok += ok
        if not ok:
            run.ob("A4", False, f"is_encrypted_params({name_})", "encrypted parameter areas must be recognised by the field names of "
                   f"TPM2B_ENCRYPTED_PARAM in first position (objects: by their _encrypted flag): is_encrypted_params({name_}) gives "
                   f"{got!r}, required {want}", module=pm, node=ie, func="TPMS_PARAMS.is_encrypted_params", construct="is_encrypted_params")
    run.ob("A4", n_ok == len(cases), f"is_encrypted_params is right on all {len(cases)} parameter-area shapes of L",
           f"{len(cases) - n_ok} of {len(cases)} shapes are classified wrongly", module=pm, node=ie, func="TPMS_PARAMS.is_encrypted_params",
           construct="is_encrypted_params")
    run.require(len(cases) >= 200, f"C11: only {len(cases)} parameter-area shapes for is_encrypted_params")
    # ---- events_to_obj ignores info events only, and converts the root node
    eps = paths.summarise(mod, e2o)
    ok = len(eps) == 1 and eps[0].end == "return" and match(
        eps[0].value, "_to_obj(_events_to_dict((M_e for M_e in events if isinstance(M_e, MarshalEvent)))[1], "
        "_events_to_dict((M_e for M_e in events if isinstance(M_e, MarshalEvent)))[0][PATH_NODE_ROOT_NAME], command_code=command_code)") is not None
    run.ob("A4", ok, "only warnings/info events are ignored when building objects; the root node is converted with the command code",
           f"events_to_obj returns `{eps[0].value_text() if eps else None}`: event filter / root conversion of events_to_obj changed",
           module=mod, node=e2o, func=e2o.name, construct="events_to_obj filter")
    # ---- _to_obj dispatch
    v = to.args.args[1].arg
    Dv, Tv, Fv, Lv = f"isinstance({v}, dict)", f"truthy {v}", "fields(tpm_type)", f"isinstance({v}, list)"
    spec = [({Dv: True, Tv: False, Fv: True}, "None"), ({Dv: True}, f"_dict_to_obj(tpm_type, {v}, command_code=command_code)"),
            ({Lv: True}, f"_list_to_obj(tpm_type, {v})")]
    # (a value is not a dict and a list at once)
    decided(run, "A4", mod, to, spec, v, "_to_obj dispatch", "dict nodes become objects, list nodes lists, leaves stay",
            implies=[((Dv, True), (Lv, False)), ((Lv, True), (Dv, False))])


def a5(run, mod, roles):
    # decoder sites returning None for a node it has announced with a container / marker event
    sites = []
    tu = roles.walkers["process_tpmu"]
    for s in walk_no_nested(tu):
        if isinstance(s, ast.If) and norm(s.test) == "field.type is None":
            for r in s.body:
                if isinstance(r, ast.Return) and isinstance(r.value, ast.Tuple) and norm(r.value.elts[1]) == "None":
                    sites.append(("union member without payload", roles.mod, tu, r))
    tb = roles.walkers["process_tpm2b"]
    for s in walk_no_nested(tb):
        if isinstance(s, ast.Assign) and isinstance(s.targets[0], ast.Subscript) and norm(s.targets[0].value) == "values" \
                and isinstance(s.value, ast.Constant) and s.value.value is None:
            sites.append(("empty structured TPM2B payload", roles.mod, tb, s))
    # builder: does a path of _to_obj map an empty dict node to None?
    to = mod.functions().get("_to_obj")
    v = to.args.args[1].arg
    maps_empty_to_none = any(p.end == "return" and p.value_text() == "None" and p.truth(f"isinstance({v}, dict)") is True
                             and p.truth(f"truthy {v}") is False for p in paths.summarise(mod, to))
    for what, m, fn, node in sites:
        run.ob("A5", maps_empty_to_none, f"{fn.name}: {what} is None in the decoder's object and in the rebuilt object",
               f"the decoder represents a {what} by None but events_to_obj rebuilds it as `tpm_type()` (an empty instance): "
               "the decoded object and the object rebuilt from its own events compare unequal", module=m, node=node, func=fn.name,
               construct=f"absent {what}: None vs tpm_type()")
    run.require(len(sites) >= 1 or maps_empty_to_none, "C11: absent-part sites of the decoder not found")
