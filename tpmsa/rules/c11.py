"""C11 - events and Python objects convert into each other without loss (necessary conditions).

A1 skip-set agreement: the field names obj_to_events treats as invisible-when-None equal the
   fields the framing walkers can skip (computed from the specialised traces of C01-F).
A2 its union test (name starts with TPMU) coincides with "has _selected_by" on all of L.
A3 the empty-field marker and list-parent events built by obj_to_events have the decoder's shape
   (path / PathNode(field.name), field.type, ...); struct parent first; children in field order.
A4 both object builders construct tpm_type(**values) keyed by field name; the encrypted-parameter
   detection keys off exactly the annotations of TPM2B_ENCRYPTED_PARAM; Response objects built from
   events get the command code they were decoded with.
A5 absent-representation agreement (sibling rule): where the decoder emits a container / marker
   event but returns None for that node (null union arm, empty structured TPM2B payload), the
   events->object builder must map the corresponding empty node to None as well.
Not decided: the round trips themselves.
"""
from __future__ import annotations

import ast

from .. import ctx
from ..pattern import canon
from ..project import AnalysisError, call_name, kwarg, norm, walk_no_nested
from ..roles import MarshalRoles
from ..specialise import Specialiser

OBJECT = "tpmstream.common.object"
PARAMS = "tpmstream.spec.commands.params_common"


def skippable_fields(roles, L):
    out = set()
    for w, T in (("process_command", L.Command), ("process_response", L.Response)):
        fn = roles.walkers[w]
        traces = [s for s in Specialiser(L, roles.mod, fn, T, dispatcher=roles.dispatcher.name).run() if s.status == "return"]
        allf = [n for n, _ in L.fields(T)]
        for tr in traces:
            got = {e.data["field"] for e in tr.trace if e.kind == "process"}
            out |= set(allf) - got
    return out


def check(run, project):
    roles = MarshalRoles(project)
    L = ctx.layout(project)
    mod = project.module(OBJECT)
    run.explanation = ("agreement between the decoder's framing (specialised traces), the layout model L and the two "
                       "conversion directions in common/object.py")
    o2e = mod.functions().get("obj_to_events")
    if o2e is None:
        raise AnalysisError("C11: obj_to_events not found")
    # ---- A1
    skip = skippable_fields(roles, L)
    tuples = [n for n in walk_no_nested(o2e) if isinstance(n, ast.Compare) and isinstance(n.ops[0], ast.In) and norm(n.left) == "field.name"
              and isinstance(n.comparators[0], ast.Tuple)]
    run.require(len(tuples) == 1, "C11: invisible-field tuple of obj_to_events not found")
    got = {e.value for e in tuples[0].comparators[0].elts if isinstance(e, ast.Constant)}
    run.ob("A1", got == skip, f"invisible-when-None fields = fields the framing can skip ({sorted(skip)})",
           f"obj_to_events hides {sorted(got)} but the decoder can omit {sorted(skip)}: " +
           (f"{sorted(skip - got)} would get a spurious empty-field event; " if skip - got else "") +
           (f"{sorted(got - skip)} would lose its empty-field marker" if got - skip else ""), module=mod, node=tuples[0],
           func="obj_to_events", construct="invisible field names")
    # only Command/Response have fields of those names... elsewhere a None field of that name would be hidden wrongly
    for k, c in L.all.items():
        if c in (L.Command, L.Response) or not L.is_dataclass(c) or c.has("_selected_by"):
            continue
        # only a field that can decode to None matters: a union one of whose members has no payload
        clash = [n for n, t in L.fields(c) if n in got and hasattr(t, "has") and t.has("_selected_by")
                 and any(ft is None for _, ft in L.fields(t))]
        run.ob("A1", not clash, f"{k}: no field shares a name with an invisible framing field",
               f"{k} has fields {clash}: when empty (None) they would be hidden instead of getting their empty-field marker",
               module=c.module, node=c.node, func=k, construct=f"{k} field names vs invisible set")
    # ---- A2
    ut = [n for n in walk_no_nested(o2e) if isinstance(n, ast.Call) and norm(n.func).endswith(".__name__.startswith") and n.args
          and isinstance(n.args[0], ast.Constant)]
    run.require(len(ut) == 1, "C11: union-name test of obj_to_events not found")
    prefix = ut[0].args[0].value
    for k, c in L.all.items():
        if L.is_dataclass(c):
            run.ob("A2", c.name.startswith(prefix) == c.has("_selected_by"), f"{k}: name test '{prefix}' <=> is a union",
                   f"{k} {'is named like a union but has no _selected_by' if c.name.startswith(prefix) else 'is a union but not named ' + prefix + '*'}: "
                   "its absent members are (not) hidden inconsistently with the decoder", module=c.module, node=c.node, func=k,
                   construct=f"{k} union naming")
    # ---- A3
    a3(run, mod, o2e)
    # ---- A4
    a4(run, project, mod, roles)
    # ---- A5
    a5(run, mod, roles)
    # ---- A6: decoder and object builder obtain the encrypted layout from the same memoised classmethod; they only agree
    #      on the class *object* if that memo never evicts
    from ..callgraph import CallGraph
    from .c12 import check_memo
    cg = CallGraph(project)
    ref = cg.get(PARAMS, "TPMS_PARAMS.encrypted")
    if ref is None:
        raise AnalysisError("C11: TPMS_PARAMS.encrypted not found")
    keyspace = sum(1 for c in L.all.values() if c.is_subclass_of(L.TPMS_PARAMS) and c is not L.TPMS_PARAMS)
    check_memo(run, ref, keyspace, rule="A6")
    memo = [d for d in ref.node.decorator_list if "cache" in norm(d)]
    run.ob("A6", bool(memo), "the synthesised encrypted layout is memoised (one class object per parameter area)",
           "encrypted() is no longer memoised: decoder and object builder synthesise two different classes", module=ref.mod,
           node=ref.node, func=ref.qual, construct="encrypted() memoisation")
    run.floor("A1", 100)
    run.floor("A2", 500)


def a3(run, mod, fn):
    evs = [c for c in walk_no_nested(fn) if isinstance(c, ast.Call) and call_name(c) == "MarshalEvent"]
    shapes = sorted(norm(c) for c in evs)
    want = sorted([canon("MarshalEvent(path, type(obj), obj)"), canon("MarshalEvent(path, type(obj), ...)"),
                   canon("MarshalEvent(path / PathNode(field.name), field.type, ...)"),
                   canon("MarshalEvent(path / PathNode(field.name), field.type, ...)")])
    run.ob("A3", shapes == want, "obj_to_events builds leaf / struct-parent / empty-marker / list-parent events in the decoder's shape",
           f"event constructions are {shapes}", module=mod, node=fn, func=fn.name, construct="obj_to_events event shapes")
    # struct parent before the field loop; fields in dataclass order
    loops = [s for s in fn.body if isinstance(s, ast.For)]
    fvars = [norm(s.targets[0]) for s in ast.walk(fn) if isinstance(s, ast.Assign) and norm(s.value) == canon("fields(obj)")]
    ok = len(loops) == 1 and len(fvars) == 1 and norm(loops[0].iter) == fvars[0]
    run.ob("A3", ok, "children are emitted in declaration order", "field iteration of obj_to_events changed", module=mod, node=fn,
           func=fn.name, construct="obj_to_events field order")
    if loops:
        par = [s for s in fn.body if isinstance(s, ast.Expr) and isinstance(s.value, ast.Yield) and norm(s.value.value) == canon("MarshalEvent(path, type(obj), ...)")]
        run.ob("A3", len(par) == 1 and fn.body.index(par[0]) < fn.body.index(loops[0]), "the struct's own event comes first",
               "struct parent event is not emitted before its fields", module=mod, node=fn, func=fn.name, construct="obj_to_events parent first")
        rec = [c for c in ast.walk(loops[0]) if isinstance(c, ast.Call) and call_name(c) == "obj_to_events"]
        ok = len(rec) == 1 and norm(kwarg(rec[0], "obj")) == "getattr(obj, field.name)" and norm(kwarg(rec[0], "path")) == canon("path / PathNode(field.name)")
        run.ob("A3", ok, "each field is converted at path / PathNode(field.name)", "recursion of obj_to_events changed", module=mod,
               node=rec[0] if rec else fn, func=fn.name, construct="obj_to_events recursion")
        lp = [s for s in loops[0].body if isinstance(s, ast.If) and norm(s.test) == "is_list(field.type)"]
        run.ob("A3", len(lp) == 1, "a list field gets its list-parent event", "list-parent emission changed", module=mod, node=loops[0],
               func=fn.name, construct="obj_to_events list parent")
    # list elements: parent_path / PathNode(name, index=i)
    el = [c for c in walk_no_nested(fn) if isinstance(c, ast.Call) and call_name(c) == "PathNode" and kwarg(c, "index") is not None]
    ok = len(el) == 1 and norm(kwarg(el[0], "name")) == "elem_name" and norm(kwarg(el[0], "index")) == "i"
    txt = norm(fn)
    ok = ok and canon("parent_path = path[:-1]") in txt and canon("elem_name = path[-1].name") in txt and "enumerate(obj)" in txt
    run.ob("A3", ok, "list elements get path[:-1] / PathNode(name, index=i)", "element paths of obj_to_events changed", module=mod,
           node=el[0] if el else fn, func=fn.name, construct="obj_to_events element path")


def a4(run, project, mod, roles):
    d2o = mod.functions().get("_dict_to_obj")
    e2o = mod.functions().get("events_to_obj")
    if d2o is None or e2o is None:
        raise AnalysisError("C11: _dict_to_obj / events_to_obj not found")
    cons = [c for c in walk_no_nested(d2o) if isinstance(c, ast.Call) and norm(c.func) == "tpm_type" and any(k.arg is None for k in c.keywords)]
    ok = len(cons) == 1
    kw = [s for s in walk_no_nested(d2o) if isinstance(s, ast.Assign) and norm(s.targets[0]) == "kwargs"]
    ok = ok and len(kw) == 1 and norm(kw[0].value) == canon("{k: _to_obj(get_attr_type(k), v) for k, v in dict_obj.items()}")
    run.ob("A4", ok, "objects are rebuilt as tpm_type(**{field name: converted value})", "_dict_to_obj construction changed", module=mod,
           node=d2o, func=d2o.name, construct="_dict_to_obj construction")
    for w in ("process_tpms", "process_command", "process_response", "process_tpm2b"):
        fn = roles.walkers[w]
        rets = [r for r in walk_no_nested(fn) if isinstance(r, ast.Return) and isinstance(r.value, ast.Tuple) and len(r.value.elts) == 2]
        bad = [r for r in rets if norm(r.value.elts[1]) not in ("tpm_type(**values)", "None")]
        run.ob("A4", rets and not bad, f"{w}: the decoder's object is tpm_type(**values)", f"returns {[norm(r.value.elts[1]) for r in bad]}",
               module=roles.mod, node=bad[0] if bad else fn, func=w, construct=f"{w} object construction")
    # Response: the command code used for the area types is remembered
    sc = [c for c in walk_no_nested(d2o) if isinstance(c, ast.Call) and norm(c.func) == "object.__setattr__"]
    ok = len(sc) == 1 and [norm(a) for a in sc[0].args] == ["obj", "'_command_code'", "command_code"]
    run.ob("A4", ok, "a rebuilt Response remembers its command code", "_command_code bookkeeping changed", module=mod, node=d2o,
           func=d2o.name, construct="_dict_to_obj _command_code")
    # area types resolved through the same tables as the decoder
    gat = mod.functions().get("_dict_to_obj.get_attr_type")
    txt = norm(gat) if gat is not None else ""
    ok = canon("type_map = tpm_type._type_maps[name]") in txt and canon("result_type = type_map[selector_value]") in txt and \
        canon("selector_value = dict_obj[selector_name]") in txt and canon("selector_value = command_code") in txt and \
        canon("selector_name = tpm_type._selectors[name]") in txt
    run.ob("A4", ok, "area layouts are looked up in the decoder's tables with the decoder's keys", "get_attr_type changed", module=mod,
           node=gat or d2o, func="_dict_to_obj.get_attr_type", construct="get_attr_type")
    cmd = [s for s in d2o.body if isinstance(s, ast.If) and norm(s.test) == "tpm_type is Command"]
    ok = len(cmd) == 1 and [norm(x) for x in cmd[0].body] == [canon("command_code = dict_obj['commandCode']")]
    run.ob("A4", ok, "a Command's own code selects its areas", "command-code extraction for Command changed", module=mod, node=d2o,
           func=d2o.name, construct="_dict_to_obj command code")
    # encrypted detection
    pm = project.module(PARAMS)
    ie = pm.functions().get("TPMS_PARAMS.is_encrypted_params")
    if ie is None:
        raise AnalysisError("C11: is_encrypted_params not found")
    txt = norm(ie)
    ok = canon("return list(first_field_value.keys()) == list(TPM2B_ENCRYPTED_PARAM.__annotations__.keys())") in txt and \
        canon("first_field_value = list(fields_dict.values())[0]") in txt
    run.ob("A4", ok, "encrypted parameter areas are recognised by the field names of TPM2B_ENCRYPTED_PARAM in first position",
           "is_encrypted_params changed", module=pm, node=ie, func="TPMS_PARAMS.is_encrypted_params", construct="is_encrypted_params")
    use = [s for s in d2o.body if isinstance(s, ast.If) and norm(s.test) == "TPMS_PARAMS.is_encrypted_params(dict_obj)"]
    ok = len(use) == 1 and [norm(x) for x in use[0].body] == ["tpm_type = tpm_type.encrypted()"]
    run.ob("A4", ok, "an encrypted area is rebuilt with the synthesised encrypted layout", "encrypted() substitution in _dict_to_obj changed",
           module=mod, node=d2o, func=d2o.name, construct="_dict_to_obj encrypted")
    # events_to_obj ignores info events only
    flt = [g for g in walk_no_nested(e2o) if isinstance(g, ast.GeneratorExp)]
    ok = len(flt) == 1 and len(flt[0].generators[0].ifs) == 1 and norm(flt[0].generators[0].ifs[0]) == "isinstance(e, MarshalEvent)".replace("e,", norm(flt[0].generators[0].target) + ",")
    run.ob("A4", ok, "only warnings/info events are ignored when building objects", "event filter of events_to_obj changed", module=mod,
           node=e2o, func=e2o.name, construct="events_to_obj filter")


def a5(run, mod, roles):
    # decoder sites returning None for a node it has announced with a container / marker event
    sites = []
    tu = roles.walkers["process_tpmu"]
    for s in walk_no_nested(tu):
        if isinstance(s, ast.If) and norm(s.test) == "field.type is None":
            for r in s.body:
                if isinstance(r, ast.Return) and isinstance(r.value, ast.Tuple) and norm(r.value.elts[1]) == "None":
                    sites.append(("union member without payload", roles.mod, tu, r))
    tb = roles.walkers["process_tpm2b"]
    for s in walk_no_nested(tb):
        if isinstance(s, ast.Assign) and isinstance(s.targets[0], ast.Subscript) and norm(s.targets[0].value) == "values" \
                and isinstance(s.value, ast.Constant) and s.value.value is None:
            sites.append(("empty structured TPM2B payload", roles.mod, tb, s))
    # builder: does any path of _to_obj/_dict_to_obj map an empty dict to None?
    to = mod.functions().get("_to_obj")
    d2o = mod.functions().get("_dict_to_obj")
    maps_empty_to_none = False
    for fn in (to, d2o):
        for s in walk_no_nested(fn):
            if isinstance(s, ast.If):
                t = norm(s.test)
                if any(p in t for p in ("not value", "value == {}", "len(value) == 0", "not dict_obj", "dict_obj == {}", "len(dict_obj) == 0")) \
                        and any(isinstance(r, ast.Return) and (r.value is None or norm(r.value) == "None") for r in s.body):
                    maps_empty_to_none = True
    for what, m, fn, node in sites:
        run.ob("A5", maps_empty_to_none, f"{fn.name}: {what} is None in the decoder's object and in the rebuilt object",
               f"the decoder represents a {what} by None but events_to_obj rebuilds it as `tpm_type()` (an empty instance): "
               "the decoded object and the object rebuilt from its own events compare unequal", module=m, node=node, func=fn.name,
               construct=f"absent {what}: None vs tpm_type()")
    run.require(len(sites) >= 1 or maps_empty_to_none, "C11: absent-part sites of the decoder not found")
