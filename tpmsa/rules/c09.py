"""C09 - a command/response stream decodes as its messages decoded one by one.

S1 in the stream loop the response's command_code is `.commandCode` of the object returned by the
   command decode *of the same iteration* (def-use on the abstract trace; no stale/constant value).
S2 its parameter_encryption is `is_parameter_encryption(<that command>, for_response=True) or None`.
S3 is_parameter_encryption reads `.encrypt` for responses and `.decrypt` for commands, over every
   session of the area; both are mask names of TPMA_SESSION in L; a command without session area
   requests nothing.
S4 both decodes use the stream's own (root) path and thread the mode; command first, then response,
   forever (message boundaries come from the messages themselves - no length bookkeeping here).
S5 separate_events cuts exactly at MarshalEvents whose path equals the root path; events_to_objs
   alternates command / response and carries the command's code into exactly the next message.
S6 a message's root event is the only event of path length 1 (every child path extends its parent
   by one node - C01-W5), so the cut of S5 is unambiguous.
Not decided: equality of the concatenated event lists.
"""
from __future__ import annotations

import ast

from .. import ctx
from .. import paths
from ..pattern import match
from ..fnview import FnView
from ..project import AnalysisError, call_name, kwarg, norm, walk_no_nested
from ..roles import MarshalRoles
from ..specialise import Specialiser, render

OBJECT = "tpmstream.common.object"


def check(run, project):
    roles = MarshalRoles(project)
    L = ctx.layout(project)
    mod = roles.mod
    run.explanation = "def-use on the abstract trace of the stream walker; shape of is_parameter_encryption, separate_events, events_to_objs"
    fn = roles.walkers.get("process_command_response_stream")
    if fn is None:
        raise AnalysisError("C09: stream walker not found")
    d = roles.dispatcher.name
    sp = Specialiser(L, mod, fn, None, dispatcher=d)
    outs = sp.run()
    traces = [s for s in outs if any(e.kind == "process" for e in s.trace)]
    run.require(len(traces) >= 1, "C09: no iteration trace of the stream walker")
    loops = [n for n in fn.body if isinstance(n, ast.While)]
    ok = len(loops) == 1 and isinstance(loops[0].test, ast.Constant) and loops[0].test.value is True and \
        not any(isinstance(n, (ast.Break, ast.Return)) for n in ast.walk(loops[0]))
    run.ob("S4", ok, "the stream alternates forever (ends only where the pump ends it)",
           "the stream loop has its own termination / bookkeeping", module=mod, node=loops[0] if loops else fn, func=fn.name,
           construct="stream loop")
    for tr in traces:
        procs = [e for e in tr.trace if e.kind == "process"]
        run.ob("S4", len(procs) == 2, "one command then one response per iteration", f"{len(procs)} decodes per iteration",
               module=mod, node=fn, func=fn.name, construct="stream iteration")
        if len(procs) != 2:
            continue
        c, r = procs
        okc = c.data["type"] == ("type", L.Command) and r.data["type"] == ("type", L.Response)
        run.ob("S4", okc, "command first, response second", f"decodes {render(c.data['type'])} then {render(r.data['type'])}",
               module=mod, node=c.node, func=fn.name, construct="stream order")
        for p, nm in ((c, "command"), (r, "response")):
            run.ob("S4", p.data["path"] == ("param", "path"), f"{nm} decoded at the stream's root path",
                   f"path is `{render(p.data['path'])}`", module=mod, node=p.node, func=fn.name, construct=f"stream {nm} path")
            run.ob("S4", p.data["kwargs"].get("abort_on_error") == ("param", "abort_on_error"), f"{nm} decode threads the mode",
                   "abort_on_error not threaded", module=mod, node=p.node, func=fn.name, construct=f"stream {nm} mode")
        cmd_obj = ("result", (None, c.data["index"]), 1)
        cc = r.data["kwargs"].get("command_code")
        run.ob("S1", cc == ("attr", cmd_obj, "commandCode"), "response is interpreted with the command code of the command just decoded",
               f"command_code is `{render(cc)}`", module=mod, node=r.node, func=fn.name, construct="stream command_code")
        pe = r.data["kwargs"].get("parameter_encryption")
        want1 = ("ornone", ("penc", (("for_response", ("const", True)),), (cmd_obj,)))
        want2 = ("ornone", ("penc", (("command", cmd_obj), ("for_response", ("const", True))), ()))
        # (a predicate that takes the session area itself is handed the command's area)
        area = ("attr", cmd_obj, "authorizationArea")
        want3 = ("ornone", ("penc", (("for_response", ("const", True)),), (area,)))
        wants = [want1, want2, want3]
        from .c01 import penc_flag_ok
        ok_pe = penc_flag_ok(sp, tr, pe, wants, area_kw=area)
        run.ob("S2", ok_pe, "response expects an encrypted first parameter iff that command's sessions request it",
               f"parameter_encryption is `{render(pe)}`", module=mod, node=r.node, func=fn.name, construct="stream parameter_encryption")
        run.ob("S1", c.data["kwargs"].get("command_code") in (None, ("const", None)), "the command decode gets no command code",
               f"command decode gets {render(c.data['kwargs'].get('command_code'))}", module=mod, node=c.node, func=fn.name,
               construct="stream command kwargs")
    # S2 (continued): nothing the response decode is given may be carried over from an earlier iteration - every local of
    # the loop that flows into its arguments is (re)bound in this iteration on every path before the call
    if loops:
        SS = paths.Summariser(mod, fn)
        written = {n.id for n in ast.walk(loops[0]) if isinstance(n, ast.Name) and isinstance(n.ctx, (ast.Store, ast.Del))}
        for tp in SS.paths():
            for bp in tp.loops.get(id(loops[0]), []):
                for k_, e_, n_ in bp.effects:
                    if k_ == "yieldfrom" and isinstance(e_, ast.Call) and call_name(e_) == d and e_.args and norm(e_.args[0]) == "Response":
                        stale = sorted({x.id for kw in e_.keywords for x in ast.walk(kw.value) if isinstance(x, ast.Name)} & written)
                        lab = " & ".join(("" if v else "not ") + a[:60] for a, v, _ in bp.cond) or "always"
                        run.ob("S2", not stale, f"response arguments are computed in this iteration [{lab}]",
                               f"on the path [{lab}] the response decode receives {stale} as left by an EARLIER iteration of the stream "
                               "loop (not re-bound before the call): a flag set for one command/response pair sticks to the following pairs",
                               module=mod, node=n_, func=fn.name, construct="stream parameter_encryption")
    s3(run, roles, L)
    s5(run, project)
    # S6: a stream ends silently only at a message boundary (so the stream's events are the concatenation of the
    #     messages' events, the last message included) - the C05-E3 rule, re-evaluated here
    from ..report import RuleView
    from . import c05
    c05.check(RuleView(run, "E3", "S6"), project)
    # S7 (= C07-NI-2): a stream decodes like its messages one by one IN THE SAME MODE: the mode flag is handed down on every
    # call from the pump through the dispatcher and the stream walker to the message walkers (a call that omits it falls back
    # to strict: in warn mode the stream aborts where the single message would have warned and gone on)
    from . import c07
    try:
        c07.check(RuleView(run, "NI-2", "S7"), project)
    except AnalysisError as ex:
        run.info(f"S7: the threading of the mode flag could not be followed ({ex}); not judged here (C07 reports it)")
    # S8 (= C15-F5): message boundaries are taken from the messages themselves - also by the front-ends that cut a capture
    # into messages before the stream is decoded (size field of the header; nothing but runts below the header size dropped)
    from . import c15
    try:
        c15.f5(RuleView(run, "F5", "S8"), project, L)
    except AnalysisError as ex:
        run.info(f"S8: the front-ends' message cutting could not be followed ({ex}); not judged here (C15 reports it)")
    # S9 (= C15-F6): ... and by the swtpm-log scanner: every SWTPM_IO record is one message (a record that directly follows
    # another record's payload included)
    try:
        c15.f6(RuleView(run, "F6", "S9"), project)
    except AnalysisError as ex:
        run.info(f"S9: the swtpm-log scanner could not be followed ({ex}); not judged here (C15 reports it)")
    # ... and there is such an end: when the input ends after a complete message the stream walker has already announced the
    # next message's root; without the pump's silent return at that point every stream would end in a depleted error
    from .. import pump as _pump
    F_ = _pump.analyse(project)
    silent = [n for n, st in F_.returns if st[1] and st[2] == "EVENT" and (n.ast.value is None or norm(n.ast.value) == "None")]
    run.ob("S6", bool(silent), "a stream that ends after a complete message ends silently",
           "the pump has no return at the root event of the next message when the input is exhausted: every command/response "
           "stream ends with InputStreamBytesDepletedError (and an extra root event) instead of ending with its last message",
           module=F_.roles.mod, node=F_.roles.pump, func=F_.roles.pump.name, construct="silent end of stream")
    run.floor("S4", 5)


def s3(run, roles, L):
    """which session bit decides: def-use + dominance, independent of how the function is laid out"""
    mod = roles.mod
    fn = roles.funcs.get("is_parameter_encryption")
    sess0 = L.struct_types.get("TPMA_SESSION")
    masks0 = next((b.masks for b in sess0.mro() if b.masks is not None), {}) if sess0 is not None else {}
    if fn is None:
        # no predicate function of that name: whatever computes the request is evaluated where its result is used (the
        # normal form of tpmsa.encreq: S2 for the stream, C01-F for the two message walkers), so the which-bit / which-area /
        # no-sessions obligations are carried by those sites
        run.ob("S3", "encrypt" in masks0 and "decrypt" in masks0 and masks0.get("encrypt") != masks0.get("decrypt"),
               "TPMA_SESSION has distinct encrypt / decrypt bits", f"masks: {masks0}", module=sess0.module if sess0 else mod,
               node=sess0.node if sess0 else mod.tree, func="TPMA_SESSION", construct="TPMA_SESSION encrypt/decrypt")
        run.info("S3: there is no is_parameter_encryption function; the encryption request is judged in its normal form at the use sites")
        return
    params = [a.arg for a in fn.args.args]
    dflt = dict(zip(params[len(params) - len(fn.args.defaults):], fn.args.defaults))
    # parameters by role: the direction flag (default False), optionally a command whose session area is read, the session area
    resp = [p_ for p_ in params if p_ == "for_response"] or \
        [p_ for p_ in params if isinstance(dflt.get(p_), ast.Constant) and dflt[p_].value is False]
    cmds = [p_ for p_ in params if any(isinstance(n, ast.Attribute) and n.attr == "authorizationArea" and isinstance(n.value, ast.Name)
                                       and n.value.id == p_ for n in ast.walk(fn))]
    if len(resp) != 1 or len(cmds) > 1:
        raise AnalysisError("C09: the direction / command parameters of is_parameter_encryption are not recognisable")
    p_resp = resp[0]
    p_cmd = cmds[0] if cmds else None
    areas = [p_ for p_ in params if p_ not in (p_resp, p_cmd)]
    if len(areas) != 1:
        raise AnalysisError("C09: the session-area parameter of is_parameter_encryption is not recognisable")
    p_area = areas[0]
    sess = L.struct_types.get("TPMA_SESSION")
    masks = next((b.masks for b in sess.mro() if b.masks is not None), {}) if sess is not None else {}
    run.ob("S3", "encrypt" in masks and "decrypt" in masks and masks.get("encrypt") != masks.get("decrypt"),
           "TPMA_SESSION has distinct encrypt / decrypt bits", f"masks: {masks}", module=sess.module if sess else mod,
           node=sess.node if sess else fn, func="TPMA_SESSION", construct="TPMA_SESSION encrypt/decrypt")
    # ---- first choice: the normal form of the predicate (tpmsa.encreq), through whatever it delegates to
    from .. import encreq
    forms = []
    try:
        for side in (False, True):
            calls = [(f"{fn.name}({p_area}=A, {p_resp}={side})", {"A"}, (), "A")]
            if p_cmd is not None:
                calls.append((f"{fn.name}({p_cmd}=C, {p_resp}={side})", {"C"}, ("C",), "C.authorizationArea"))
            for txt, free, nonnull, area in calls:
                t = encreq.evaluate(roles.project, mod, ast.parse(txt, mode="eval").body, free, nonnull)
                if not isinstance(t, dict):
                    raise encreq.Unsupported(f"`{txt}` is not a function of one session area")
                forms.append((side, txt, area, t))
    except encreq.Unsupported as ex:
        run.info(f"S3: normal form of {fn.name} not available ({ex}); judged on its path summaries")
        forms = None
    if forms is not None:
        for side, txt, area, t in forms:
            want = "encrypt" if side else "decrypt"
            who = "responses" if side else "commands"
            run.ob("S3", t["bit"] == want, f"{who} [{txt}]: the `{want}` attribute decides",
                   f"for `{txt}` the decoder consults `{t['bit']}`; TPM 2.0 parameter encryption uses `encrypt` for the response direction "
                   "and `decrypt` for the command direction", module=mod, node=fn, func=fn.name, construct=f"is_parameter_encryption [{who}]")
            got_area = norm(t["area"])
            run.ob("S3", got_area == area, f"[{txt}]: iterates the given session area ({area})",
                   f"`{txt}` iterates `{got_area}`, not the command's / the given session area ({area})", module=mod, node=fn, func=fn.name,
                   construct="is_parameter_encryption area")
            run.ob("S3", t["absent"] in (False, None), "no session area -> no encryption (tested before the sessions are iterated)",
                   f"`{txt}` without a session area gives {t['absent']!r}: a None session area is not answered with False before it is iterated",
                   module=mod, node=fn, func=fn.name, construct="is_parameter_encryption [no sessions]")
            run.ob("S3", t["any"] is True and t["none"] in (False, None), f"[{txt}]: True exactly when a session asks",
                   f"`{txt}` gives {t['any']!r} when a session sets the bit and {t['none']!r} when none does", module=mod, node=fn,
                   func=fn.name, construct="is_parameter_encryption other return")
        d = dict(zip(params[len(params) - len(fn.args.defaults):], fn.args.defaults))
        run.ob("S3", p_resp in d and isinstance(d[p_resp], ast.Constant) and d[p_resp].value is False,
               "default direction is command", "for_response default changed", module=mod, node=fn, func=fn.name,
               construct="for_response default")
        return
    # decided on the path summaries: what is returned as a function of (command given?, area absent?, direction)
    S = paths.Summariser(mod, fn)
    ps = [p for p in S.paths() if not (p.end == "raise" and p.value is not None and norm(p.value) == "AssertionError")]
    run.require(len(ps) >= (4 if p_cmd is not None else 3), "C09: paths of is_parameter_encryption not found")
    RESP = f"truthy {p_resp}"
    n_any = {"encrypt": 0, "decrypt": 0}
    for p in ps:
        lab = " & ".join(("" if v else "not ") + a for a, v, _ in p.cond) or "always"
        # which session area this path looks at
        cmd_none = p.truth(f"{p_cmd} is None") if p_cmd is not None else True
        area = p_area if cmd_none is True else f"{p_cmd}.authorizationArea" if cmd_none is False else None
        v = p.value
        if p.end != "return" or v is None:
            run.ob("S3", False, f"is_parameter_encryption [{lab}]", f"the path ends with `{p.end}`", module=mod, node=p.node or fn,
                   func=fn.name, construct="is_parameter_encryption other return")
            continue
        if isinstance(v, ast.Constant) and v.value is False:
            # ... of the form this path is called in: the command's own area when a command was given, else the area argument
            relevant = (area,) if area is not None else (p_area, f"{p_cmd}.authorizationArea")
            absent = [a for a, t, _ in p.cond if t and a.endswith(" is None") and a[: -len(" is None")] in relevant]
            run.ob("S3", bool(absent), f"return False [{lab}]: only for an absent session area",
                   f"False is returned on the path [{lab}] although a session area is present", module=mod, node=p.node or fn,
                   func=fn.name, construct="is_parameter_encryption [no sessions]")
            continue
        if isinstance(v, ast.Call) and call_name(v) == fn.name:
            k = kwarg(v, p_resp)
            ok = k is not None and paths.text(k) == p_resp
            run.ob("S3", ok, f"self-delegation [{lab}] keeps the direction",
                   f"`{paths.text(v)[:90]}` delegates to itself {'without' if k is None else 'with a different'} `{p_resp}`: the response "
                   "direction falls back to the command direction (decrypt instead of encrypt)", module=mod, node=p.node or fn,
                   func=fn.name, construct="is_parameter_encryption self-delegation")
            continue
        m = match(paths.flatten(v), "any((M_s.sessionAttributes.M_bit for M_s in M_area))")
        m2 = None
        for bit in ("encrypt", "decrypt"):
            mm = match(paths.flatten(v), f"any((M_s.sessionAttributes.{bit} for M_s in M_area))")
            if mm is not None:
                m2 = (bit, mm)
        if m2 is None:
            run.ob("S3", False, f"is_parameter_encryption [{lab}]", f"`{paths.text(v)[:90]}` is not `any(s.sessionAttributes.<bit> for s in "
                   "<area>)` over all sessions, nor False, nor a direction-preserving delegation", module=mod, node=p.node or fn,
                   func=fn.name, construct="is_parameter_encryption other return")
            continue
        bit, mm = m2
        n_any[bit] += 1
        side = p.truth(RESP)
        want = "encrypt" if side else "decrypt"
        run.ob("S3", side is not None and bit == want,
               f"{'responses' if side else 'commands'} [{lab}]: the `{want}` attribute decides",
               f"on the path [{lab}] the decoder consults `{bit}`; TPM 2.0 parameter encryption uses `encrypt` for the response direction "
               f"and `decrypt` for the command direction" + ("" if side is not None else " (the direction is not tested on this path)"),
               module=mod, node=p.node or fn, func=fn.name,
               construct=f"is_parameter_encryption [{'responses' if side else 'commands'}]")
        got_area = paths.text(mm["M_area"])
        run.ob("S3", area is not None and got_area == area, f"[{lab}]: iterates the given session area ({area})",
               f"iterates `{got_area}`, not the command's / the given session area ({area})", module=mod, node=p.node or fn,
               func=fn.name, construct="is_parameter_encryption area")
        none_known = p.truth(f"{got_area} is None") is False
        run.ob("S3", none_known, "no session area -> no encryption (tested before the sessions are iterated)",
               "a None session area is not answered with False before it is iterated", module=mod, node=p.node or fn, func=fn.name,
               construct="is_parameter_encryption [no sessions]")
    run.ob("S3", n_any["encrypt"] >= 1 and n_any["decrypt"] >= 1, "both directions are decided",
           f"paths consulting encrypt: {n_any['encrypt']}, decrypt: {n_any['decrypt']}", module=mod, node=fn, func=fn.name,
           construct="is_parameter_encryption directions")
    d = dict(zip(params[len(params) - len(fn.args.defaults):], fn.args.defaults))
    run.ob("S3", p_resp in d and isinstance(d[p_resp], ast.Constant) and d[p_resp].value is False,
           "default direction is command", "for_response default changed", module=mod, node=fn, func=fn.name,
           construct="for_response default")


def s5(run, project):
    mod = project.module(OBJECT)
    f = mod.functions().get("separate_events")
    g = mod.functions().get("events_to_objs")
    if f is None or g is None:
        raise AnalysisError("C09: separate_events / events_to_objs not found")
    loops = [s for s in f.body if isinstance(s, ast.For)]
    if s5_slices(run, mod, f):
        loops = None
    elif len(loops) != 1 or not isinstance(loops[0].target, ast.Name):
        raise AnalysisError("C09: separate_events loop not found")
    if loops is not None:
        s5_loop(run, project, mod, f, loops[0])
    s5_rest(run, project, mod, g)


def s5_slices(run, mod, f):
    """the index form of separate_events: `starts` = the positions of the root events (and position 0), each message is the
    slice from its start to the next start, the last one to the end.  Recognised exactly; returns False for any other form."""
    from ..pattern import match
    body = [s_ for s_ in f.body if not (isinstance(s_, ast.Expr) and isinstance(s_.value, ast.Constant))]
    par = f.args.args[0].arg
    if len(body) in (3, 4) and isinstance(body[0], ast.Assign) and norm(body[0].value) in (f"list({par})", f"list(iter({par}))"):
        src = norm(body[0].targets[0])
        body = body[1:]
    else:
        return False
    if not (isinstance(body[0], ast.Assign) and isinstance(body[0].value, ast.ListComp) and isinstance(body[-1], ast.For) and not body[-1].orelse
            and all(isinstance(x, ast.Assign) for x in body[1:-1])):
        return False
    lc, S_ = body[0].value, norm(body[0].targets[0])
    g0 = lc.generators[0] if len(lc.generators) == 1 else None
    if g0 is None or not (isinstance(g0.target, ast.Tuple) and len(g0.target.elts) == 2 and norm(g0.iter) == f"enumerate({src})" and len(g0.ifs) == 1):
        return False
    i_, e_ = (norm(x) for x in g0.target.elts)
    lp = body[-1]
    if not (isinstance(lp.iter, ast.Call) and norm(lp.iter.func) == "zip" and len(lp.iter.args) == 2 and norm(lp.iter.args[0]) == S_):
        return False
    ends = lp.iter.args[1]
    end_node = lp
    if isinstance(ends, ast.Name) and len(body) == 3 and norm(body[1].targets[0]) == ends.id:
        ends, end_node = body[1].value, body[1]
    m = match(ends, f"{S_}[1:] + [M_end]")
    ok_loop = isinstance(lp.target, ast.Tuple) and len(lp.target.elts) == 2 and len(lp.body) == 1 \
        and norm(lp.body[0]) == f"yield {src}[{norm(lp.target.elts[0])}:{norm(lp.target.elts[1])}]"
    if norm(lc.elt) != i_ or m is None or not ok_loop:
        return False
    test = norm(g0.ifs[0])
    want = (f"{i_} == 0 or isinstance({e_}, MarshalEvent) and {e_}.path == ROOT_PATH", f"{i_} == 0 or (isinstance({e_}, MarshalEvent) and {e_}.path == ROOT_PATH)")
    run.ob("S5", test in want, "separate_events (index form): a message starts at position 0 and at every root event",
           f"the start positions are selected by `{test}`: messages must be cut exactly at a MarshalEvent whose path is the root path",
           module=mod, node=g0.ifs[0], func=f.name, construct="separate_events cut")
    end = norm(m["M_end"])
    run.ob("S5", end in ("None", f"len({src})"), "separate_events (index form): the last message reaches to the end of the events",
           f"the last message is sliced up to `{end}`: its trailing event(s) are dropped (or the slice is empty)", module=mod,
           node=end_node, func=f.name, construct="separate_events flush")
    return True


def s5_loop(run, project, mod, f, lp):
    ev = lp.target.id
    S = paths.Summariser(mod, f)
    top = S.paths()
    accs = [norm(e.targets[0]) for p in top for k, e, _ in p.effects if k == "assign" and isinstance(e.value, ast.List) and not e.value.elts]
    if not accs:
        raise AnalysisError("C09: separate_events accumulator (`x = []`) not found")
    accn = accs[0]
    run.ob("S5", norm(lp.iter) in (f.args.args[0].arg, f"iter({f.args.args[0].arg})"), "all events are scanned, in order",
           f"the loop iterates over `{norm(lp.iter)}`", module=mod, node=lp, func=f.name, construct="separate_events source")
    M, R, T = f"isinstance({ev}, MarshalEvent)", f"{ev}.path == ROOT_PATH", f"truthy {accn}"
    spec = [({M: True, R: True, T: True}, "cut")]
    cut_fx = [("yield", accn), ("assign", f"{accn} = []"), ("call", f"{accn}.append({ev})")]
    keep_fx = [("call", f"{accn}.append({ev})")]
    body = [sub for p in top for sub in p.loops.get(id(lp), [])]
    seen = set()
    for p in body:
        key = repr(p)
        if key in seen:
            continue
        seen.add(key)
        label = " & ".join(("" if v else "not ") + a for a, v, _ in p.cond) or "always"
        want = paths.decide(spec, "keep", p)
        got_fx = p.effect_texts()
        got = "cut" if got_fx == cut_fx else "keep" if got_fx == keep_fx else None
        if got is None:
            kind = "separate_events append" if ("call", f"{accn}.append({ev})") not in got_fx or got_fx.count(("call", f"{accn}.append({ev})")) != 1 \
                else "separate_events cut"
            run.ob("S5", False, f"separate_events [{label}]", f"one iteration does {got_fx}: neither `start a new message, then append` nor "
                   "`append` (every event must go into exactly one message, in order)", module=mod, node=p.node or lp, func=f.name,
                   construct=kind)
            continue
        run.ob("S5", want == {got} and p.end in ("fall", "continue"), f"separate_events [{label}]: {got}",
               f"a new message is {'started' if got == 'cut' else 'not started'} although the spec says {sorted(want)}: messages must be cut "
               "exactly at a MarshalEvent whose path is the root path (and never produce an empty message)", module=mod,
               node=p.cond[-1][2] if p.cond else lp, func=f.name, construct="separate_events cut")
        seen_m = None
        for a_, v_, n_ in p.cond:
            if a_ == M:
                seen_m = v_
            elif f"{ev}.path" in a_ and seen_m is not True:
                run.ob("S5", False, f"separate_events [{label}]: guard order", f"`{a_}` is evaluated on an event not known to be a "
                       "MarshalEvent (warnings / info events have no path)", module=mod, node=n_, func=f.name,
                       construct="separate_events cut")
    run.require(len(seen) >= 2, "C09: separate_events loop body has fewer than two paths")
    # after the loop: the last message is flushed iff it is non-empty
    for p in top:
        after, hit = [], False
        for k, e, n_ in p.effects:
            if hit:
                after.append((k, None if e is None else paths.text(e)))
            if k == "loop" and n_ is lp:
                hit = True
        t = p.truth(T)
        want_fx = [("yield", accn)] if t else []
        run.ob("S5", t is not None and after == want_fx and p.end in ("fall", "return"), "the last message is flushed (when there is one)",
               f"after the loop{' with a pending message' if t else ''} the function does {after}: trailing message is not yielded"
               if t or t is None else f"an empty trailing message is produced ({after})", module=mod, node=p.node or f, func=f.name,
               construct="separate_events flush")


def s5_rest(run, project, mod, g):
    f = mod.functions().get("separate_events")
    rp = [s for s in mod.tree.body if isinstance(s, ast.ImportFrom) and any(a.name == "ROOT_PATH" for a in s.names)]
    pm = project.module("tpmstream.common.path")
    rdef = [s for s in pm.tree.body if isinstance(s, ast.Assign) and norm(s.targets[0]) == "ROOT_PATH"]
    ok = bool(rp) and len(rdef) == 1 and norm(rdef[0].value) == "Path(PathNode(PATH_NODE_ROOT_NAME))"
    run.ob("S5", ok, "ROOT_PATH is the decoder's default root path", "ROOT_PATH definition changed", module=pm,
           node=rdef[0] if rdef else pm.tree, func="<module>", construct="ROOT_PATH")
    # events_to_objs alternation (path summaries of one loop iteration)
    loops = [s_ for s_ in g.body if isinstance(s_, ast.For)]
    if len(loops) != 1 or not isinstance(loops[0].target, ast.Name):
        raise AnalysisError("C09: events_to_objs loop not found")
    lp = loops[0]
    evv = lp.target.id
    G = paths.Summariser(mod, g)
    top = G.paths()
    src = paths.text(G.expand(lp.iter, top[0])) if top else norm(lp.iter)
    # the loop source as seen before the loop
    pre = paths.Summariser(mod, g).run(g.body[: g.body.index(lp)])[1]
    if len(pre) != 1:
        raise AnalysisError("C09: events_to_objs prologue is not straight-line")
    src = paths.text(G.expand(lp.iter, pre[0]))
    for k_, e_, _n in pre[0].effects:
        if k_ == "assign" and norm(e_.targets[0]) == src:
            src = paths.text(e_.value)
    arg = g.args.args[0].arg
    run.ob("S5", src in (f"list(separate_events({arg}))", f"separate_events({arg})"), "messages come from separate_events, in order",
           f"events_to_objs iterates over `{src}`", module=mod, node=lp, func=g.name, construct="events_to_objs source")
    # the pairing state: the local the loop body decides on (`<state> is None`) and rebinds - whatever it is called
    body0 = [p_ for t_ in top for p_ in t_.loops.get(id(lp), [])]
    cands = sorted({a_[: -len(" is None")] for p_ in body0 for a_, _v, _ in p_.cond if a_.endswith(" is None")
                    and a_[: -len(" is None")].isidentifier() and a_[: -len(" is None")] in pre[0].env})
    state = cands[0] if len(cands) == 1 else "command_code"
    init = pre[0].env.get(state)
    run.ob("S5", init is not None and norm(init) == "None", "the first message is a command", f"initial {state} is not None",
           module=mod, node=g, func=g.name, construct="events_to_objs init")
    C = f"{state} is None"
    body = {repr(p_): p_ for t_ in top for p_ in t_.loops.get(id(lp), [])}
    run.require(len(body) >= 2, "C09: events_to_objs loop body has fewer than two paths")
    for p_ in body.values():
        label = " & ".join(("" if v else "not ") + a_ for a_, v, _ in p_.cond) or "always"
        t = p_.truth(C)
        ys = [e for k, e in p_.effect_texts(("yield",))]
        nxt = p_.env.get(state)
        nxt = None if nxt is None else paths.text(nxt)
        if t is None:
            run.ob("S5", False, f"events_to_objs [{label}]", f"objects no longer alternate command / response on `{state} is None`",
                   module=mod, node=p_.node or lp, func=g.name, construct="events_to_objs alternation")
        elif t:
            cmd = f"events_to_obj({evv})"
            run.ob("S5", ys == [cmd] and nxt == f"{cmd}.commandCode", "a command's code is remembered for the next message",
                   f"command branch yields {ys} and leaves {state} = {nxt}", module=mod, node=p_.node or lp, func=g.name,
                   construct="events_to_objs command branch")
        else:
            rsp = f"events_to_obj({evv}, command_code={state})"
            run.ob("S5", ys == [rsp] and nxt == "None", "the response is built with that code, which is then forgotten",
                   f"response branch yields {ys} and leaves {state} = {nxt}", module=mod, node=p_.node or lp, func=g.name,
                   construct="events_to_objs response branch")
