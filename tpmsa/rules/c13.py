"""C13 - a constraint error accounts for every input byte.

Decided on the pump's typestate (see tpmsa/pump.py): at every site that attaches the remaining
bytes to a ConstraintViolatedError the attached value must be exactly
    "the look-ahead byte iff it is FRESH (pulled, not yet pushed), then the rest of the iterator".
Also: the overrun error is raised only after the rest of the overrun region was consumed
(`consume_bytes` precedes the raise in SizeConstraint.bytes_parsed), in both modes.
Not decided: the byte equation on concrete inputs.
"""
from __future__ import annotations

import ast

from .. import pump
from ..cfg import CFG
from ..project import AnalysisError, call_name, norm, walk_no_nested, order
from ..roles import CONSTRAINTS


def attach_items(F, node, st, expr):
    """resolve the attached expression in abstract state st -> list of items"""
    roles = F.roles
    e = expr.args[0] if isinstance(expr, ast.Call) else expr.value
    return resolve(F, node, st, e, 0)


def resolve(F, node, st, e, depth):
    roles, rd = F.roles, F.rd
    B, D, E = st[:3]
    if depth > 10:
        raise AnalysisError("C13: attach expression too deep")
    if isinstance(e, ast.Name):
        if e.id == roles.iter_var:
            return [("iter",)]
        if e.id == roles.byte_var:
            return [("byte",)]
        cands = []
        for d in rd.reaching(node, e.id):
            rec = rd.defs[d.id][e.id]
            if rec[0] != "expr":
                raise AnalysisError(f"C13: cannot resolve `{e.id}` attached at line {node.lineno}")
            if feasible(F, d.ast, st):
                if any(isinstance(x, ast.Name) and x.id == roles.byte_var for x in ast.walk(rec[1])) and stale(F, d, node, e.id):
                    # the definition copied the look-ahead byte, and a later pull may have replaced that byte since
                    return [("other", f"copy of `{roles.byte_var}` taken at line {d.lineno}, before a later pull")]
                cands.append(rec[1])
        if len(cands) == 1:
            return resolve(F, node, st, cands[0], depth + 1)
        outs = [resolve(F, node, st, c, depth + 1) for c in cands]
        if outs and all(o == outs[0] for o in outs):
            return outs[0]
        if outs and independent_choice(F, node, st, e.id):
            # which definition holds depends only on the pump's parameters (the kind of message asked for ...), which the
            # typestate neither tracks nor constrains: each of them is a run of the program - all must attach the right bytes
            return [("alt", tuple(tuple(o) for o in outs))]
        raise AnalysisError(f"C13: cannot resolve `{e.id}` attached at line {node.lineno} "
                            f"({len(cands)} definitions feasible in state {st})")
    if isinstance(e, ast.Constant) and e.value in (b"", None):
        return []
    if isinstance(e, (ast.Tuple, ast.List)):
        out = []
        for x in e.elts:
            out += resolve(F, node, st, x, depth + 1)
        return out
    if isinstance(e, ast.IfExp):
        branch = pick(F, e.test, st)
        if branch is None:
            a = resolve(F, node, st, e.body, depth + 1)
            b = resolve(F, node, st, e.orelse, depth + 1)
            if a == b:
                return a
            raise AnalysisError(f"C13: attach expression depends on `{norm(e.test)}` which the typestate does not track")
        return resolve(F, node, st, e.body if branch else e.orelse, depth + 1)
    if isinstance(e, ast.Call):
        cn = call_name(e)
        helper = F.roles.funcs.get(cn) if cn else None
        if helper is not None and cn not in ("marshal",) and not any(isinstance(x, (ast.Yield, ast.YieldFrom)) for x in ast.walk(helper)):
            return inline_helper(F, node, st, helper, e, depth)
        if cn in ("bytes", "bytearray", "iter", "list", "tuple") and len(e.args) == 1:
            return resolve(F, node, st, e.args[0], depth + 1)
        if cn in ("bytes", "bytearray") and not e.args:
            return []
        if cn in ("itertools.chain", "chain"):
            out = []
            for a in e.args:
                out += resolve(F, node, st, a, depth + 1)
            return out
    return [("other", norm(e))]


def inline_helper(F, node, st, helper, call, depth):
    """a small pure helper that builds the remaining bytes: evaluate its returns with the parameters
    bound to the caller's argument expressions (tests `p is None` are decided from the argument)."""
    params = [a.arg for a in helper.args.args]
    defaults = [None] * (len(params) - len(helper.args.defaults)) + list(helper.args.defaults)
    bind = {}
    for p, d in zip(params, defaults):
        bind[p] = d
    for p, a in zip(params, call.args):
        bind[p] = a
    for k in call.keywords:
        if k.arg in bind:
            bind[k.arg] = k.value
    if any(v is None for v in bind.values()):
        raise AnalysisError(f"C13: helper {helper.name} called with missing arguments at line {node.lineno}")

    def is_none(expr):
        """True / False / None(unknown) for `expr is None` in caller state st"""
        if isinstance(expr, ast.Constant):
            return expr.value is None
        if isinstance(expr, ast.Name) and expr.id == F.roles.byte_var:
            return st[0] == "INIT"
        if isinstance(expr, ast.Name) and expr.id == F.roles.iter_var:
            return False
        return None

    class Sub(ast.NodeTransformer):
        def visit_Name(self, n):
            if n.id in bind and isinstance(n.ctx, ast.Load):
                import copy
                return copy.deepcopy(bind[n.id])
            return n

    def walk(stmts):
        outs = []
        for i, s_ in enumerate(stmts):
            if isinstance(s_, ast.Expr) and isinstance(s_.value, ast.Constant):
                continue
            if isinstance(s_, ast.Return):
                outs.append(s_.value)
                return outs, True
            if isinstance(s_, ast.If):
                t = s_.test
                decided = None
                neg = False
                if isinstance(t, ast.Compare) and len(t.ops) == 1 and isinstance(t.ops[0], (ast.Is, ast.IsNot)) \
                        and isinstance(t.left, ast.Name) and t.left.id in bind and isinstance(t.comparators[0], ast.Constant) \
                        and t.comparators[0].value is None:
                    v = is_none(bind[t.left.id])
                    if v is not None:
                        decided = v if isinstance(t.ops[0], ast.Is) else not v
                if decided is True:
                    o, done = walk(s_.body + stmts[i + 1:])
                    return outs + o, done
                if decided is False:
                    o, done = walk(s_.orelse + stmts[i + 1:])
                    return outs + o, done
                o1, _ = walk(s_.body + stmts[i + 1:])
                o2, _ = walk(s_.orelse + stmts[i + 1:])
                return outs + o1 + o2, True
            raise AnalysisError(f"C13: helper {helper.name} is not a simple expression builder (line {s_.lineno})")
        return outs, False

    rets, _ = walk(helper.body)
    if not rets:
        raise AnalysisError(f"C13: helper {helper.name} returns nothing")
    results = []
    for r in rets:
        expr = Sub().visit(__import__("copy").deepcopy(r))
        ast.fix_missing_locations(expr)
        results.append(resolve(F, node, st, expr, depth + 1))
    if all(x == results[0] for x in results):
        return results[0]
    raise AnalysisError(f"C13: helper {helper.name} builds different remaining bytes on paths the typestate cannot decide")


def stale(F, dnode, node, var):
    """can a pull of the next byte execute between the definition of `var` at `dnode` and its use at `node` (with no other
    definition of `var` in between)?"""
    pulls = {n.id for n, _st in F.next}
    kills = {n.id for n in F.cfg.nodes if var in F.rd.defs.get(n.id, {})}

    def reach(start, avoid):
        seen, stack = set(), [s_ for _l, s_ in start.succ] + list(F.cfg.handlers_of(start))
        while stack:
            n = stack.pop()
            if n.id in seen or n.id == avoid or (n.id in kills and n.id != node.id):
                continue
            seen.add(n.id)
            stack.extend(s_ for _l, s_ in n.succ)
            stack.extend(F.cfg.handlers_of(n))
        return seen
    r1 = reach(dnode, dnode.id)
    by_id = {n.id: n for n in F.cfg.nodes}
    for pid in pulls & r1:
        if node.id in reach(by_id[pid], dnode.id):
            return True
    return False


def independent_choice(F, node, st, name):
    """the feasible definitions of `name` sit under if-tests whose undecided atoms read nothing but parameters of the pump"""
    params = {a.arg for a in F.roles.pump.args.args + F.roles.pump.args.kwonlyargs}
    assigned = {n.id for n in ast.walk(F.roles.pump) if isinstance(n, ast.Name) and isinstance(n.ctx, ast.Store)}
    for d in F.rd.reaching(node, name):
        child, p = d.ast, getattr(d.ast, "_parent", None)
        while p is not None and not isinstance(p, (ast.FunctionDef, ast.ExceptHandler)):
            if isinstance(p, ast.If) and pick(F, p.test, st) is None:
                atoms = [p.test]
                while atoms:
                    t = atoms.pop()
                    if isinstance(t, ast.BoolOp):
                        atoms.extend(t.values)
                    elif isinstance(t, ast.UnaryOp) and isinstance(t.op, ast.Not):
                        atoms.append(t.operand)
                    elif pick(F, t, st) is None:
                        names = {n.id for n in ast.walk(t) if isinstance(n, ast.Name)}
                        if not all(n in params and n not in assigned or n[:1].isupper() for n in names) or \
                                any(isinstance(n, (ast.Call, ast.Await, ast.Yield, ast.YieldFrom)) for n in ast.walk(t)):
                            return False
            child, p = p, getattr(p, "_parent", None)
    return True


def feasible(F, stmt, st):
    """Is the definition statement `stmt` consistent with abstract state st?  (it sits under
    if-tests on the depleted flag that the state decides; the flag does not change between the
    definition and the attach site - both are inside one exception handler)"""
    # a definition next to a pull: after it in the protected block = the pull succeeded (source not exhausted so far);
    # in its StopIteration handler = the source is exhausted
    pulls = {id(n) for n in F.roles.next_sites}
    child, p = stmt, getattr(stmt, "_parent", None)
    while p is not None and not isinstance(p, ast.FunctionDef):
        if isinstance(p, ast.Try) and any(id(x) in pulls for b in p.body for x in ast.walk(b)):
            if any(child is x for x in p.body) and st[1]:
                return False
        if isinstance(p, ast.ExceptHandler) and p.type is not None and norm(p.type) == "StopIteration":
            t = getattr(p, "_parent", None)
            if isinstance(t, ast.Try) and any(id(x) in pulls for b in t.body for x in ast.walk(b)) and not st[1]:
                return False
        child, p = p, getattr(p, "_parent", None)
    child, p = stmt, getattr(stmt, "_parent", None)
    while p is not None and not isinstance(p, (ast.FunctionDef, ast.ExceptHandler)):
        if isinstance(p, ast.If):
            v = pick(F, p.test, st)
            if v is not None:
                in_body = any(child is x for x in p.body)
                if in_body != v:
                    return False
        child, p = p, getattr(p, "_parent", None)
    return True


def pick(F, test, st):
    B, D, E = st[:3]
    neg = False
    while isinstance(test, ast.UnaryOp) and isinstance(test.op, ast.Not):
        neg = not neg
        test = test.operand
    if F.roles.depleted_var is not None and isinstance(test, ast.Name) and test.id == F.roles.depleted_var:
        return D != neg
    if isinstance(test, ast.BoolOp):
        vals = [pick(F, v, st) for v in test.values]
        if isinstance(test.op, ast.And):
            r = False if any(v is False for v in vals) else True if all(v is True for v in vals) else None
        else:
            r = True if any(v is True for v in vals) else False if all(v is False for v in vals) else None
        return None if r is None else (r != neg)
    if isinstance(test, ast.Compare) and len(test.ops) == 1 and isinstance(test.ops[0], (ast.Is, ast.IsNot)) \
            and isinstance(test.comparators[0], ast.Constant) and test.comparators[0].value is None:
        if isinstance(test.ops[0], ast.IsNot):
            neg = not neg
        if isinstance(test.left, ast.Constant):
            return (test.left.value is None) != neg
        if isinstance(test.left, ast.Name) and test.left.id == F.roles.byte_var:
            return (B in ("INIT", "EMPTY")) != neg  # the look-ahead variable is None until the first pull / after exhaustion
        if isinstance(test.left, ast.Name) and test.left.id == F.roles.iter_var:
            return neg
    return None


def check(run, project):
    F = pump.analyse(project)
    mod = F.roles.mod
    run.explanation = ("typestate of the pump's look-ahead byte (INIT/FRESH/SENT x depleted x last-yield), fixpoint "
                       "over the CFG with exception edges; each remaining-bytes attach site is evaluated in every "
                       "abstract state that reaches it")
    from .carriers import check_carriers
    check_carriers(run, project, "A1", {"bytes_remaining"})
    run.cover(cfg_nodes=len(F.cfg.nodes), node_states=sum(len(s) for s in F.states.values()))
    sites = {}
    for node, st, expr, via in F.attach:
        if via != "set_bytes_remaining":
            continue
        sites.setdefault(id(expr), [node, expr, []])[2].append(st)
    n_sites = len(sites)
    for node, expr, states in sites.values():
        bad = []
        for st in sorted(states):
            items = attach_items(F, node, st, expr)
            want = [("byte",), ("iter",)] if st[0] == "FRESH" else [("iter",)]
            empty_ok = st[1] and st[0] != "FRESH"  # source exhausted, nothing held: b"" is the same thing
            alts = [list(a) for a in items[0][1]] if len(items) == 1 and items[0][0] == "alt" else [items]
            if any(x and x[0] == "alt" for a in alts for x in a):
                raise AnalysisError(f"C13: nested alternatives in the bytes attached at line {node.lineno}")
            wrong = [a for a in alts if not (a == want or (empty_ok and a == []))]
            ok = not wrong
            run.ob("A1", ok, f"attach at L{node.lineno} in state byte={st[0]} depleted={st[1]}",
                   "", module=mod, node=node) if ok else bad.append((st, wrong[0]))
        if bad:
            desc = "; ".join(f"state(byte={s[0]}, depleted={s[1]}) attaches {fmt(i)}" for s, i in bad)
            kinds = sorted({"stale" if any(x == ("byte",) for x in i) else "dropped" for s, i in bad})
            run.ob("A1", False, f"attach at L{node.lineno}",
                   f"remaining bytes must be 'look-ahead byte iff still unconsumed, then the iterator': {desc} "
                   f"(the look-ahead byte was already pushed into the processor or never pulled -> it is "
                   f"{'duplicated' if 'stale' in kinds else 'dropped'})",
                   module=mod, node=node, func=F.roles.pump.name,
                   construct=f"{norm(expr)} [{'/'.join(kinds)} look-ahead byte]")
    # every handler of ConstraintViolatedError around a send() attaches before re-raising
    for node, st, cls in F.raises:
        if cls != "ConstraintViolatedError":
            continue
        h = node.ast
        while h is not None and not isinstance(h, ast.ExceptHandler):
            h = getattr(h, "_parent", None)
        att = [c for c in ast.walk(h) if isinstance(c, ast.Call) and isinstance(c.func, ast.Attribute)
               and c.func.attr == "set_bytes_remaining"] if h is not None else []
        ok = bool(att) and order(att[0]) < order(node.ast) and isinstance(node.ast.exc, ast.Name) and \
            h.name == node.ast.exc.id and norm(att[0].func.value) == h.name
        run.ob("A2", ok, f"re-raise at L{node.lineno} attaches remaining bytes to the same error first",
               "constraint error leaves the pump without its remaining bytes attached", module=mod, node=node,
               func=F.roles.pump.name, construct=norm(node.ast))
    run.floor("A2", 2, "re-raise sites")
    if n_sites < 2 and not run.violations:
        raise AnalysisError(f"C13: only {n_sites} remaining-bytes attach sites found in the pump (expected >= 2)")
    # A5 (= C07-NI-1): a constraint error that strict mode has caught is re-raised, not turned into a warning (C07-NI-1): else decoding goes on behind a skipped region and the error that is finally raised no longer accounts for the skipped bytes
    from ..report import RuleView as _RVm
    from . import c07 as _c07
    try:
        _c07.check(_RVm(run, "NI-1", "A5"), project)
    except AnalysisError as ex:
        run.info(f"A5: the mode tests could not be followed ({ex}); not judged here (C07 reports it)")
    # A6 (= C04-V1): "nothing duplicated": the rejected field is not also among the emitted fields - in strict mode the value
    # error is raised before any event of the offending field
    from ..roles import MarshalRoles as _MR6
    from . import c04 as _c04
    try:
        _c04.v1_v2(_RVm(run, "V1", "A6"), _MR6(project))
    except AnalysisError as ex:
        run.info(f"A6: the primitive walker could not be followed ({ex}); not judged here (C04 reports it)")
    a3(run, project)
    # A4: a byte is charged to every enclosing region *before* it is read (else an overrun is noticed only after bytes
    # beyond the region were consumed, and the skip-to-region-end then swallows bytes that belong to the remainder)
    from ..roles import MarshalRoles
    from . import c03
    roles = MarshalRoles(project)
    c03.r2(run, roles)
    c03.r4(run, roles)


def fmt(items):
    return "[" + ", ".join(i[0] if len(i) == 1 else f"{i[0]}:{i[1]}" for i in items) + "]"


def a3(run, project):
    """skip to region end before raising the overrun error (both modes)"""
    mod = project.module(CONSTRAINTS)
    f = mod.functions().get("SizeConstraint.bytes_parsed")
    if f is None:
        raise AnalysisError("C13: SizeConstraint.bytes_parsed not found")
    raises = [n for n in walk_no_nested(f) if isinstance(n, ast.Raise) and isinstance(n.exc, ast.Call)
              and call_name(n.exc) == "SizeConstraintExceededError"]
    if len(raises) != 1:
        raise AnalysisError("C13: the overrun raise site of bytes_parsed was not found")
    r = raises[0]
    block = r._parent
    body = block.body if r in getattr(block, "body", []) else block.orelse
    idx = body.index(r)
    pre = body[:idx]
    cons = [s for s in pre if isinstance(s, ast.Expr) and isinstance(s.value, ast.YieldFrom)
            and isinstance(s.value.value, ast.Call) and call_name(s.value.value) == "consume_bytes"]
    from ..fnview import expand_expr
    ok = len(cons) == 1 and "self.size_max - self.size_already" in expand_expr(mod, f, cons[0].value.value.args[0])
    run.ob("A3", ok, "overrun: rest of the region is consumed before the error is raised",
           "SizeConstraintExceededError is raised without first consuming `size_max - size_already` bytes "
           "(remaining bytes would then include the tail of the overrun region)", module=mod, node=r,
           func="SizeConstraint.bytes_parsed", construct="raise SizeConstraintExceededError")
    # the skip is not mode dependent
    anc = r
    modal = False
    while anc is not None and anc is not f:
        if isinstance(anc, ast.If) and "abort_on_error" in norm(anc.test):
            modal = True
        anc = getattr(anc, "_parent", None)
    run.ob("A3", not modal, "overrun skip is performed in both modes", "the skip depends on abort_on_error",
           module=mod, node=r, func="SizeConstraint.bytes_parsed", construct="consume_bytes mode")
    # an inconsistency that is only anticipated (a size read that cannot fit) has consumed nothing beyond the emitted size
    # field: no byte request on any path to the anticipated error (else those bytes are neither emitted nor remaining)
    from .. import paths
    n_ant = 0
    for pa in paths.summarise(mod, f):
        v = pa.value
        if pa.end == "raise" and isinstance(v, ast.Call) and call_name(v) == "AnticipatedSizeConstraintExceededError":
            n_ant += 1
            eaten = [paths.text(e) if isinstance(e, ast.AST) else str(e) for k, e, _n in pa.effects if k in ("yieldfrom", "yield")]
            run.ob("A3", not eaten, "anticipated overrun: nothing is consumed before the error is raised",
                   f"AnticipatedSizeConstraintExceededError is raised after consuming input ({'; '.join(eaten)}): those bytes are "
                   "neither emitted nor part of the remaining bytes", module=mod, node=pa.node or f,
                   func="SizeConstraint.bytes_parsed", construct="raise AnticipatedSizeConstraintExceededError")
    if not n_ant:
        raise AnalysisError("C13: no path of bytes_parsed raises AnticipatedSizeConstraintExceededError")
    from .shared import locate_function
    cbm, cb = locate_function(project, mod, "consume_bytes")
    if cb is None:
        raise AnalysisError("C13: consume_bytes not found")
    loops = [n for n in cb.body if isinstance(n, ast.For)]
    ok = len(loops) == 1 and norm(loops[0].iter) == f"range({cb.args.args[0].arg})" and \
        sum(1 for n in ast.walk(loops[0]) if isinstance(n, ast.Yield)) == 1
    run.ob("A3", ok, "consume_bytes requests exactly `count` bytes", "consume_bytes no longer requests one byte per count",
           module=cbm, node=cb, func="consume_bytes", construct="consume_bytes loop")
