"""C10 - decoding is incremental: one byte of look-ahead, prefix-stable, source-agnostic.

T1 pump typestate: next(source) only while no FRESH byte is held (a FRESH byte is never overwritten
   = never dropped), send(byte) only with a FRESH (or the initial None) byte (never sent twice);
   every use of the source iterator is the canonical `byte = next(it)` or a remaining-bytes attach
   on a raising / terminating path.  Hence at every `yield event` pulled - pushed <= 1.
   Promptness: in the primitive walker no byte request lies between the last read and the event,
   and container walkers emit their event before any recursive read.
T2 iterator-protocol-only: the `buffer` parameter of binary.marshal, hex.parse_hex_string,
   swtpm_log.parse_hex_string and auto.detect_format_and_yield_buffer is used only through
   iter()/next() (no len, index, slice, bytes(), list()), except inside a raise statement.
T3 causality: the processor coroutine is never handed the buffer or its iterator; it sees input
   only through send().
"""
from __future__ import annotations

import ast

from .. import pump
from ..cfg import CFG
from ..flow import yields_in
from ..project import AnalysisError, call_name, norm, order, walk_no_nested


def check(run, project):
    # T8: the bytes a decoder is fed are the bytes of the source, in order: no closure made in a loop over the sources (files,
    # readers, chunks) reads its loop variable late - else every reader made by the loop reads the last source
    from .shared import late_binding_closures
    late_binding_closures(run, project, "T8", sorted(n for n in project.modules if n == "tpmstream.__main__" or n.startswith("tpmstream.io")
                                                       or n.startswith("tpmstream.common")),
                          what="with several input files / chunks only the last one is decoded")
    from .shared import reads_every_file
    reads_every_file(run, project, "T9", what="the decoder is fed a prefix of its source")
    # T13 (= C15-F5): the decoder is fed every byte of its source exactly once also through the Auto front-end: the detector
    # hands back the bytes it looked at, for every format it announces
    from ..report import RuleView as _RV13
    from . import c15 as _c15
    from .. import ctx as _ctx
    try:
        _c15.f5(_RV13(run, "F5", "T13"), project, _ctx.layout(project))
    except AnalysisError as ex:
        run.info(f"T13: the front-ends' message cutting could not be followed ({ex}); not judged here (C15 reports it)")
    # T12: the lazy file source hands out BYTES whatever the file's mode: a text-mode file (sys.stdin, open(path)) is read
    # through its byte buffer
    from .shared import text_sources_unwrapped
    text_sources_unwrapped(run, project, "T12", "the decoder is fed characters and fails before its first event")
    # T10 (= C03-R4): what a decode does depends on its own input only - it starts from its own empty list of open regions
    # (a shared default list would charge this decode with the regions an earlier, abandoned decode left open)
    from ..report import RuleView as _RV10
    from ..roles import MarshalRoles as _MR10
    from . import c03 as _c03
    try:
        _c03.r4(_RV10(run, "R4", "T10"), _MR10(project))
    except AnalysisError as ex:
        run.info(f"T10: the threading of the region list could not be followed ({ex}); not judged here (C03 reports it)")
    # T11 (= C11-A6 = C12-P2): a prefix decodes to a prefix of the SAME events - events compare by their type objects, and the
    # type of an encrypted parameter area is synthesised: its memo must never evict (else the whole decode and the prefix
    # decode hold two different classes)
    from ..callgraph import CallGraph as _CG
    from .c11 import memo_carriers as _mc
    from .c12 import check_memo as _cm
    from .. import ctx as _ctx
    _L = _ctx.layout(project)
    _cg = _CG(project)
    _ref = _cg.get("tpmstream.spec.commands.params_common", "TPMS_PARAMS.encrypted")
    if _ref is not None:
        _ks = sum(1 for c_ in _L.all.values() if c_.is_subclass_of(_L.TPMS_PARAMS) and c_ is not _L.TPMS_PARAMS)
        for c_ in _mc(_cg, _ref) or ():
            _cm(run, c_, _ks, rule="T11")
    F = pump.analyse(project)
    roles, mod, fn = F.roles, F.roles.mod, F.roles.pump
    run.explanation = "typestate fixpoint over the pump's CFG + who-may-use rules for the source iterator and buffer parameters"
    run.cover(cfg_nodes=len(F.cfg.nodes), node_states=sum(len(s) for s in F.states.values()))
    # ---- T1
    for node in {id(n): n for n, _ in F.next}.values():
        states = sorted({st for n, st in F.next if n is node})
        bad = [s for s in states if s[0] == "FRESH"]
        run.ob("T1", not bad, f"next() at L{node.lineno} never overwrites an unconsumed byte",
               f"a byte is pulled while the previous look-ahead byte is still unconsumed (states {bad}): that byte is dropped "
               "and more than one byte of look-ahead is taken", module=mod, node=node, func=fn.name,
               construct=norm(node.ast))
    for node in {id(n): n for n, _ in F.send_byte}.values():
        states = sorted({st for n, st in F.send_byte if n is node})
        bad = [s for s in states if s[0] == "SENT"]
        run.ob("T1", not bad, f"send(byte) at L{node.lineno} never pushes a byte twice",
               f"the look-ahead byte is pushed again after it was consumed (states {bad})", module=mod, node=node,
               func=fn.name, construct=norm(node.ast))
        bad0 = [s for s in states if s[0] == "EMPTY"]
        run.ob("T1", not bad0, f"send(byte) at L{node.lineno} never pushes the exhausted-source marker",
               f"the look-ahead variable is pushed although it holds the None that marks an exhausted source (states {bad0})",
               module=mod, node=node, func=fn.name, construct=norm(node.ast) + " [marker]")
        # the processor must be waiting for a byte
        bad2 = [s for s in states if s[2] != "NONE"]
        run.ob("T1", not bad2, f"send(byte) at L{node.lineno} only when the processor asked for a byte",
               f"a byte is pushed while the processor's last yield was an event (states {bad2})", module=mod,
               node=node, func=fn.name, construct=norm(node.ast) + " [protocol]")
    for node in {id(n): n for n, _ in F.send_none}.values():
        states = sorted({st for n, st in F.send_none if n is node})
        bad = [s for s in states if s[2] != "EVENT"]
        run.ob("T1", not bad, f"send(None) at L{node.lineno} only after an event",
               f"None is pushed while the processor waits for a byte (states {bad})", module=mod, node=node,
               func=fn.name, construct=norm(node.ast))
    for node in {id(n): n for n, _ in F.cleared}.values():
        bad = sorted({st for n, st in F.cleared if n is node and st[0] == "FRESH"})
        run.ob("T1", not bad, f"look-ahead variable cleared at L{node.lineno} only after its byte was consumed",
               f"the look-ahead variable is reset while it holds an unconsumed byte (states {bad}): that byte is dropped",
               module=mod, node=node, func=fn.name, construct=norm(node.ast))
    for node in {id(n): n for n, _ in F.send_other}.values():
        run.ob("T1", False, f"send at L{node.lineno}", "the processor is sent something that is neither the look-ahead byte nor None",
               module=mod, node=node, func=fn.name, construct=norm(node.ast))
    if not F.next or not F.send_byte or not F.send_none:
        raise AnalysisError("C10: pump protocol sites not found")
    # every load of the iterator variable
    canonical = {id(n.value.args[0]) for n in roles.next_sites}
    attach_nodes = set()
    for node, st, expr, via in F.attach:
        for x in ast.walk(node.ast):
            attach_nodes.add(id(x))
    for n in walk_no_nested(fn):
        if isinstance(n, ast.Name) and n.id == roles.iter_var and isinstance(n.ctx, ast.Load):
            if id(n) in canonical:
                run.ob("T1", True, f"iterator use at L{n.lineno}: canonical pull")
                continue
            stmt = n
            while not isinstance(stmt, ast.stmt):
                stmt = stmt._parent
            on_attach = is_attach_use(n, stmt, fn)
            run.ob("T1", on_attach, f"iterator use at L{n.lineno}: remaining-bytes attach",
                   f"the source iterator is used outside the one-byte pull and outside error reporting: `{norm(stmt).splitlines()[0]}` "
                   "(bytes taken here bypass the look-ahead accounting)", module=mod, node=stmt, func=fn.name,
                   construct=norm(stmt).splitlines()[0])
    # any other next(...) call form on the iterator
    for c in walk_no_nested(fn):
        if isinstance(c, ast.Call) and call_name(c) == "next" and c.args and norm(c.args[0]) == roles.iter_var:
            p = c._parent
            ok = isinstance(p, ast.Assign) and isinstance(p.targets[0], ast.Name) and p.targets[0].id == roles.byte_var
            if not ok:
                run.ob("T1", False, f"pull at L{c.lineno}", "a byte is pulled from the source but not held as the look-ahead byte",
                       module=mod, node=c, func=fn.name, construct=norm(p).splitlines()[0])
    # the yield of the processor's event happens before the next send
    ev_yields = [n for n, st, what in F.yields if what == "event"]
    run.ob("T1", bool(ev_yields), "the pump re-yields the processor's events", "no `yield <event>` left in the pump",
           module=mod, node=fn, func=fn.name, construct="yield event")
    promptness(run, roles)
    # only the primitive walker (and the uncharged skip helper) may ask the pump for bytes: any other walker that reads
    # bytes itself holds complete but unemitted fields (more than one byte of look-ahead) and drops them on truncation
    for name, wfn in roles.funcs.items():
        for y in walk_no_nested(wfn):
            if isinstance(y, ast.Yield) and (y.value is None or (isinstance(y.value, ast.Constant) and y.value.value is None)):
                ok = name in ("process_primitive", "consume_bytes")
                run.ob("T1", ok, f"{name} L{y.lineno}: byte request",
                       f"{name} requests input bytes itself instead of decoding field by field through the primitive walker: the "
                       "bytes it has pulled are not emitted as events until later", module=mod, node=y, func=name,
                       construct=f"byte request in {name}")
    # ---- T2
    t2(run, project)
    t6(run, project)
    t6b(run, project)
    # T7 (= C15-F11): a text front-end must not turn the end of its input into a byte - a prefix that ends inside a digit
    # pair would produce an event the whole input never has (prefix stability)
    from ..report import RuleView as _RV
    from . import c15 as _c15
    _c15.f11(_RV(run, "F11", "T7"), project)
    # ---- T3
    forbidden = {roles.buffer_param, roles.iter_var}
    for c in walk_no_nested(fn):
        if isinstance(c, ast.Call) and (call_name(c) == roles.dispatcher.name or norm(c.func) == f"{roles.proc_var}.send"):
            used = {n.id for a in list(c.args) + [k.value for k in c.keywords] for n in ast.walk(a) if isinstance(n, ast.Name)}
            run.ob("T3", not (used & forbidden), f"call at L{c.lineno} does not hand the source to the processor",
                   f"the processor receives {sorted(used & forbidden)}: it could read ahead of the pump", module=mod,
                   node=c, func=fn.name, construct=norm(c).splitlines()[0][:100])
    run.floor("T1", 8)
    run.floor("T2", 4)
    run.floor("T3", 3)
    # T5: a prefix that ends before the first field (the empty input) of a non-stream decode must report depletion like every
    # other prefix; the pump's silent end-of-input return is only for the command/response stream (C05-E3 re-used)
    from ..report import RuleView
    from . import c05
    c05.check(RuleView(run, "E3", "T5"), project)


def is_attach_use(name_node, stmt, fn):
    """the iterator may be drained only to report the unconsumed rest: the value must flow into
    set_bytes_remaining(...) / bytes_remaining= of an error that is raised or wrapped in a warning."""
    # the Name sits (possibly through helper calls / bytes() / chain()) inside the argument of
    # set_bytes_remaining(...) or of a bytes_remaining= keyword
    p = getattr(name_node, "_parent", None)
    while p is not None and not isinstance(p, ast.stmt):
        if isinstance(p, ast.keyword) and p.arg == "bytes_remaining":
            return True
        if isinstance(p, ast.Call) and isinstance(p.func, ast.Attribute) and p.func.attr == "set_bytes_remaining":
            return True
        p = getattr(p, "_parent", None)
    if isinstance(stmt, ast.Assign) and isinstance(stmt.targets[0], ast.Name):
        var = stmt.targets[0].id
        # used only as the argument of set_bytes_remaining / bytes_remaining=
        uses = [n for n in walk_no_nested(fn) if isinstance(n, ast.Name) and n.id == var and isinstance(n.ctx, ast.Load)]
        if not uses:
            return False
        for u in uses:
            p = u._parent
            ok = (isinstance(p, ast.Call) and isinstance(p.func, ast.Attribute) and p.func.attr == "set_bytes_remaining") or \
                 (isinstance(p, ast.keyword) and p.arg == "bytes_remaining")
            if not ok:
                return False
        return True
    return False


def promptness(run, roles):
    prim = roles.walkers.get("process_primitive")
    if prim is None:
        raise AnalysisError("C10: primitive walker not found")
    mod = roles.mod
    cfg = CFG(prim)
    # byte requests: `x = yield None` / bare yield ; events: yield MarshalEvent(...)
    reqs, evs = [], []
    for n in cfg.nodes:
        if n.ast is None or n.kind != "stmt":
            continue
        for y in yields_in(n.ast):
            if isinstance(y, ast.Yield) and (y.value is None or (isinstance(y.value, ast.Constant) and y.value.value is None)):
                reqs.append(n)
            elif isinstance(y, ast.Yield):
                evs.append(n)
    if not reqs or not evs:
        raise AnalysisError("C10: byte request / event yield of the primitive walker not found")
    dom = cfg.dominators()
    first_ev = min(evs, key=lambda n: order(n.ast))
    # no byte request is reachable after the first event yield
    seen, stack = set(), [s for _, s in first_ev.succ]
    late = []
    while stack:
        n = stack.pop()
        if n.id in seen:
            continue
        seen.add(n.id)
        if n in reqs:
            late.append(n)
        stack.extend(s for _, s in n.succ)
    run.ob("T1", not late, "primitive walker: the event follows its last byte with no further byte request",
           "a byte is requested after the field's event was emitted (the event of a complete field is delayed past extra input)",
           module=mod, node=late[0] if late else prim, func=prim.name, construct="byte request after event")
    # all byte requests of the walker happen in one counted loop before the event
    ok = all(r.id in dom[first_ev.id] or _in_loop_before(r, first_ev) for r in reqs)
    run.ob("T1", ok, "primitive walker: all byte requests precede the event", "byte request not before the event",
           module=mod, node=prim, func=prim.name, construct="byte requests before event")


def _in_loop_before(r, ev):
    return order(r.ast) < order(ev.ast)


BUFFER_FUNCS = [
    ("tpmstream.io.binary.marshal", "marshal"),
    ("tpmstream.io.hex.marshal", "parse_hex_string"),
    ("tpmstream.io.swtpm_log.marshal", "parse_hex_string"),
    ("tpmstream.io.auto.marshal", "detect_format_and_yield_buffer"),
    # the front-end functions themselves: the source may only be handed on to a lazy scanner (never bytes(buffer), list(...))
    ("tpmstream.io.hex.marshal", "marshal"),
    ("tpmstream.io.swtpm_log.marshal", "marshal"),
    ("tpmstream.io.auto.marshal", "marshal"),
]


def _param_uses(mod, fn, param, seen):
    """yield (name node, stmt, ok) for every load of `param` in fn; handing the iterator to a function of the same
    module is followed into that function's parameter (same rule there)."""
    aliases = {param}
    for n in walk_no_nested(fn):
        if isinstance(n, ast.Name) and n.id in aliases and isinstance(n.ctx, ast.Load):
            p = n._parent
            stmt = n
            while not isinstance(stmt, ast.stmt):
                stmt = stmt._parent
            in_raise = False
            q = n
            while q is not fn:
                if isinstance(q, ast.Raise):
                    in_raise = True
                q = q._parent
            iterated = (isinstance(p, (ast.For, ast.comprehension)) and p.iter is n)  # for-loops use iter()/next()
            ok = (isinstance(p, ast.Call) and call_name(p) in ("iter", "next") and p.args and p.args[0] is n) or in_raise or iterated
            if not ok:
                call, kw = p, None
                if isinstance(p, ast.keyword):
                    kw, call = p.arg, p._parent
                if isinstance(call, ast.Call) and isinstance(call.func, ast.Name) and (kw is not None or n in call.args):
                    try:
                        callee = mod.function(call.func.id)
                    except (AnalysisError, KeyError):
                        callee = None
                    if callee is not None and not callee.args.vararg:
                        cparams = [a.arg for a in callee.args.args]
                        target = kw if kw is not None else (cparams[call.args.index(n)] if call.args.index(n) < len(cparams) else None)
                        if target in cparams:
                            key = (callee.name, target)
                            if key in seen:
                                ok = True
                            else:
                                seen.add(key)
                                inner = list(_param_uses(mod, callee, target, seen))
                                if all(o for _, _, o in inner):
                                    ok = True
                                else:
                                    yield from inner
                                    continue
            yield n, stmt, ok


def _traversal_starts(mod, fn, param, depth=0):
    """places where a traversal of the *raw* parameter `param` (not yet turned into an iterator by `param = iter(param)`) is
    started: a for / comprehension over it, iter(param), or handing it to a function of the module that starts one.
    -> [(node, repeated)]: repeated = the place lies in a loop (or the helper starts more than one)"""
    rebind = [a for a in fn.body if isinstance(a, ast.Assign) and len(a.targets) == 1 and norm(a.targets[0]) == param
              and isinstance(a.value, ast.Call) and call_name(a.value) == "iter" and a.value.args and norm(a.value.args[0]) == param]
    cut = order(rebind[0]) if rebind else None
    out = []
    for n in walk_no_nested(fn):
        if not (isinstance(n, ast.Name) and n.id == param and isinstance(n.ctx, ast.Load)):
            continue
        if cut is not None and order(n) > cut and not any(n is x for x in ast.walk(rebind[0])):
            continue  # an iterator by now
        if rebind and any(n is x for x in ast.walk(rebind[0])):
            continue  # the conversion itself
        p = n._parent
        in_loop, q = False, n
        child = n
        while q is not fn:
            # (the iterable expression of a for / the first comprehension clause is evaluated once, before the loop)
            if isinstance(q, ast.For) and child is not q.iter or isinstance(q, ast.While) or \
                    isinstance(q, ast.comprehension) and child is not q.iter:
                in_loop = True
            child, q = q, q._parent
        if (isinstance(p, (ast.For, ast.comprehension)) and p.iter is n) or (isinstance(p, ast.Call) and call_name(p) == "iter" and p.args and p.args[0] is n):
            out.append((n, in_loop))
            continue
        call, kw = p, None
        if isinstance(p, ast.keyword):
            kw, call = p.arg, p._parent
        if isinstance(call, ast.Call) and isinstance(call.func, ast.Name) and (kw is not None or n in call.args) and depth < 3:
            try:
                callee = mod.function(call.func.id)
            except (AnalysisError, KeyError):
                callee = None
            if callee is not None and not callee.args.vararg:
                cparams = [a.arg for a in callee.args.args]
                target = kw if kw is not None else (cparams[call.args.index(n)] if call.args.index(n) < len(cparams) else None)
                if target in cparams:
                    inner = _traversal_starts(mod, callee, target, depth + 1)
                    if inner:
                        out.append((n, in_loop or len(inner) > 1 or any(r for _, r in inner)))
    return out


def t6(run, project):
    """source-agnostic: the front-end scanners accept any iterable of bytes.  An iterable that is not its own iterator (bytes,
    bytearray, list) starts from its first item again whenever a traversal of it is started, so a scanner may start a
    traversal of its raw `buffer` parameter only once (or turn it into an iterator first: `buffer = iter(buffer)`)."""
    for modname, fname in BUFFER_FUNCS:
        mod = project.module(modname)
        fn = mod.function(fname)
        starts = _traversal_starts(mod, fn, "buffer")
        bad = [n for n, rep in starts if rep] or ([n for n, _ in starts][1:] if len(starts) > 1 else [])
        stmt = None
        if bad:
            stmt = bad[0]
            while not isinstance(stmt, ast.stmt):
                stmt = stmt._parent
        run.ob("T6", not bad, f"{modname.split('.')[-2]}.{fname}: the source is traversed once",
               f"`{norm(stmt).splitlines()[0][:80] if stmt is not None else ''}` starts another traversal of the raw `buffer` parameter (it is "
               "not turned into an iterator first): for a bytes / bytearray / list source every traversal begins at the first byte "
               "again, so the decoder sees the first digits over and over - the result depends on the kind of iterable", module=mod,
               node=stmt or fn, func=fname, construct=f"{fname} traversals of buffer")


def _raw_pulls(mod, fn, param, depth=0):
    """next(<param>) calls reached by the *raw* parameter (no `param = iter(param)` before them), directly or through a
    function of the module the raw parameter is handed to"""
    rebind = [a for a in fn.body if isinstance(a, ast.Assign) and len(a.targets) == 1 and norm(a.targets[0]) == param
              and isinstance(a.value, ast.Call) and call_name(a.value) == "iter" and a.value.args and norm(a.value.args[0]) == param]
    cut = order(rebind[0]) if rebind else None
    out = []
    for n in walk_no_nested(fn):
        if not (isinstance(n, ast.Name) and n.id == param and isinstance(n.ctx, ast.Load)):
            continue
        if cut is not None and order(n) > cut:
            continue
        p = n._parent
        if isinstance(p, ast.Call) and call_name(p) == "next" and p.args and p.args[0] is n:
            out.append(p)
        elif isinstance(p, ast.Call) and isinstance(p.func, ast.Name) and n in p.args and depth < 2:
            try:
                callee = mod.function(p.func.id)
            except (AnalysisError, KeyError):
                continue
            cparams = [a.arg for a in callee.args.args]
            if p.args.index(n) < len(cparams) and _raw_pulls(mod, callee, cparams[p.args.index(n)], depth + 1):
                out.append(p)
    return out


def t6b(run, project):
    """source-agnostic, second half: next() needs an iterator.  A scanner that pulls with next() must have turned its raw
    `buffer` parameter into one (`buffer = iter(buffer)`); next() on the raw parameter is a TypeError for bytes / bytearray /
    list sources and works only when the caller happens to pass an iterator."""
    for modname, fname in BUFFER_FUNCS:
        mod = project.module(modname)
        fn = mod.function(fname)
        bad = _raw_pulls(mod, fn, "buffer")
        run.ob("T6", not bad, f"{modname.split('.')[-2]}.{fname}: next() only on an iterator made from the source",
               f"`{norm(bad[0])[:80] if bad else ''}` pulls from the raw `buffer` parameter, which was not turned into an iterator "
               "(`buffer = iter(buffer)`): a bytes / bytearray / list source raises TypeError, only an iterator source works - the result "
               "depends on the kind of iterable", module=mod, node=bad[0] if bad else fn, func=fname, construct=f"{fname} next() on raw buffer")


def t2(run, project):
    for modname, fname in BUFFER_FUNCS:
        mod = project.module(modname)
        fn = mod.function(fname)
        params = [a.arg for a in fn.args.args]
        if "buffer" not in params:
            raise AnalysisError(f"C10: {modname}.{fname} has no `buffer` parameter")
        # `buffer = iter(buffer)` rebinding keeps the name an iterator: afterwards only next() is allowed
        for n, stmt, ok in _param_uses(mod, fn, "buffer", {(fname, "buffer")}):
            run.ob("T2", ok, f"{modname.split('.')[-2]}.{fname}: buffer use at L{n.lineno} is iter()/next()",
                   f"`{norm(stmt).splitlines()[0]}` uses the input other than through iter()/next(): the source is "
                   "pre-read or must be a sequence", module=mod, node=stmt, func=fname,
                   construct=norm(stmt).splitlines()[0])
        # the function is a generator (lazy) unless it is the pump
        gen = any(isinstance(n, (ast.Yield, ast.YieldFrom)) for n in walk_no_nested(fn))
        run.ob("T2", gen, f"{modname.split('.')[-2]}.{fname} is a generator (lazy)", "no longer a generator: input is processed eagerly",
               module=mod, node=fn, func=fname, construct=f"{fname} laziness")
