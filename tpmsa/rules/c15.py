"""C15 - hex, swtpm-log, pcapng and auto inputs decode like the bytes they carry.

F1 delegation: each front-end (module function and facade class) forwards tpm_type, root_path,
   command_code and **kwargs unchanged to the next layer down to Binary.marshal, with the byte
   generator of its own scanner as buffer.
F2 sibling agreement: every front-end returns the delegated generator's value.
F3 validated digits: every int(x, 16) on input-derived bytes uses only bytes that were tested for
   membership in a hex alphabet (the failing branch raises ValueError).
F4 laziness = C10-T2 (re-evaluated here).
F5 header constants from L: the pcapng trimming slice and the runt threshold equal the offset /
   width of the size field and the header length computed from Command/Response in L; trimming
   never extends a packet; the auto-detection magic equals the pcapng section-header block type
   prefix and the two look-ahead bytes are re-yielded first.
F6 swtpm scanner shape: four distinct state constants, exhaustively branched; every `state =`
   assigns one of them; each branch tests end-of-input first; the only yield is int(value, 16) of
   two validated bytes; marker / alphabet constants equal the documented format.
Not decided: language equivalence of the two text scanners with the documented formats; dpkt.
"""
from __future__ import annotations

import ast

from .. import ctx
from ..cfg import CFG
from ..fnview import FnView
from ..pattern import canon, match
from ..project import AnalysisError, call_name, kwarg, norm, walk_no_nested
from ..roles import if_chain
from . import c10

HEX = "tpmstream.io.hex.marshal"
SWTPM = "tpmstream.io.swtpm_log.marshal"
PCAP = "tpmstream.io.pcapng.marshal"
AUTO = "tpmstream.io.auto.marshal"
FRONTENDS = [HEX, SWTPM, PCAP, AUTO]
FACADES = [("tpmstream.io.hex", "Hex"), ("tpmstream.io.swtpm_log", "SWTPMLog"), ("tpmstream.io.pcapng", "Pcapng"),
           ("tpmstream.io.auto", "Auto")]
HEXDIGITS = set(b"0123456789abcdefABCDEF")


def module_consts(mod):
    out = {}
    for st in mod.tree.body:
        if isinstance(st, ast.Assign) and isinstance(st.targets[0], ast.Name) and isinstance(st.value, ast.Constant):
            out[st.targets[0].id] = st.value.value
    return out


def check(run, project):
    L = ctx.layout(project)
    run.explanation = ("delegation / return-value agreement of all front-ends (siblings), dominance of hex-alphabet tests over "
                       "int(x, 16), header constants recomputed from L, state-machine shape of the swtpm scanner")
    f1_f2(run, project)
    f3(run, project)
    c10.t2(run, project)
    f7(run, project)
    f5(run, project, L)
    f6(run, project)
    run.floor("F1", 20)
    run.floor("F2", 6)


# ------------------------------------------------------------------------------ F1 / F2
def receiver_classes(fn, call):
    """classes a `<x>.marshal(...)` call may be bound to: the name itself, or every value a local receiver is assigned"""
    f = call.func
    if not (isinstance(f, ast.Attribute) and isinstance(f.value, ast.Name)):
        return None
    var = f.value.id
    defs = [st for st in walk_no_nested(fn) if isinstance(st, ast.Assign) and any(norm(t) == var for t in st.targets)]
    if not defs:
        return [var]
    if all(isinstance(d.value, ast.Name) for d in defs):
        return [d.value.id for d in defs]
    return None


def delegated_calls(fn, names):
    out = []
    for c in walk_no_nested(fn):
        if not isinstance(c, ast.Call):
            continue
        if call_name(c) in names:
            out.append(c)
        elif isinstance(c.func, ast.Attribute):
            rc = receiver_classes(fn, c)
            if rc and all(f"{r}.{c.func.attr}" in names for r in rc):
                out.append(c)
    return out


def f1_f2(run, project):
    targets = {"Binary.marshal", "Hex.marshal", "Pcapng.marshal", "marshal"}
    sites = []
    for modname in FRONTENDS:
        mod = project.module(modname)
        fn = mod.function("marshal")
        sites.append((mod, "marshal", fn, {"Binary.marshal", "Hex.marshal", "Pcapng.marshal"}))
    for modname, cls in FACADES:
        mod = project.module(modname)
        fn = mod.functions().get(f"{cls}.marshal")
        if fn is None:
            raise AnalysisError(f"F1: {modname}.{cls}.marshal not found")
        sites.append((mod, f"{cls}.marshal", fn, {"marshal"}))
    for mod, q, fn, names in sites:
        calls = delegated_calls(fn, names)
        run.require(bool(calls), f"F1: {mod.name}.{q} delegates to nothing")
        for c in calls:
            tag = f"{mod.name.split('.', 2)[-1]}.{q} -> {call_name(c)}"
            pos = [norm(a) for a in c.args]
            kws = {k.arg: norm(k.value) for k in c.keywords if k.arg}
            star = [norm(k.value) for k in c.keywords if k.arg is None]
            tt = kws.get("tpm_type", pos[0] if pos else None)
            run.ob("F1", tt == "tpm_type", f"{tag}: tpm_type forwarded", f"tpm_type is passed as `{tt}`", module=mod, node=c, func=q,
                   construct=f"{call_name(c)}(tpm_type)")
            for k in ("root_path", "command_code"):
                run.ob("F1", kws.get(k) == k, f"{tag}: {k} forwarded", f"{k} is {'dropped' if k not in kws else 'passed as ' + kws[k]}",
                       module=mod, node=c, func=q, construct=f"{call_name(c)}({k})")
            kwname = fn.args.kwarg.arg if fn.args.kwarg else None
            run.ob("F1", kwname is not None and star == [kwname], f"{tag}: **kwargs forwarded (mode, encryption flag)",
                   f"extra keyword arguments are {'not forwarded' if not star else star}", module=mod, node=c, func=q,
                   construct=f"{call_name(c)}(**kwargs)")
            buf = kws.get("buffer", pos[1] if len(pos) > 1 else None)
            # buffer: the module's own scanner output, or the unchanged buffer for facades
            if q == "marshal":
                V = FnView(mod, fn)
                bexpr = kwarg(c, "buffer") or (c.args[1] if len(c.args) > 1 else None)
                src = V.resolve(bexpr, c) if bexpr is not None else None
                ok = isinstance(src, ast.Call) and any(norm(a) in ("buffer", "file") or "buffer" in norm(a) for a in ast.walk(src) if isinstance(a, ast.Name)) \
                    or (isinstance(src, ast.Name) and src.id in ("buffer", "format_buffer_iter"))
                if isinstance(src, ast.Name) and src.id == "format_buffer_iter":
                    d = V.resolve(ast.Name(id="format_buffer_iter", ctx=ast.Load()), c)
                run.ob("F1", ok, f"{tag}: buffer is this front-end's byte stream", f"buffer is `{norm(src) if src is not None else None}`",
                       module=mod, node=c, func=q, construct=f"{call_name(c)}(buffer)")
            else:
                run.ob("F1", buf == "buffer", f"{tag}: buffer forwarded", f"buffer is `{buf}`", module=mod, node=c, func=q,
                       construct=f"{call_name(c)}(buffer)")
            # F2: the value of the delegated generator is returned
            p = c._parent
            ok = False
            if isinstance(p, ast.Return):
                ok = True  # plain function returning the generator object
            elif isinstance(p, ast.YieldFrom):
                st = p._parent
                if isinstance(st, ast.Return):
                    ok = True
                elif isinstance(st, ast.Assign) and isinstance(st.targets[0], ast.Name):
                    v = st.targets[0].id
                    # a `return v` must follow on every path
                    cfg = CFG(fn)
                    node = cfg.node_of(st)
                    ok = all_paths_return(cfg, node, v)
            run.ob("F2", ok, f"{tag}: returns the decoded object of the delegated generator",
                   "the front-end drops the return value of the decoder it delegates to (Generator(...).value is None; "
                   "`tpmstream type` and Canonical.object then fail on this input format)", module=mod, node=c, func=q,
                   construct=f"return value of {call_name(c)}(...)")


def all_paths_return(cfg, node, var):
    seen, stack = set(), [s for _, s in node.succ]
    ok = True
    while stack:
        n = stack.pop()
        if n.id in seen:
            continue
        seen.add(n.id)
        if n is cfg.exit:
            return False
        if n.kind == "stmt" and isinstance(n.ast, ast.Return):
            if not (isinstance(n.ast.value, ast.Name) and n.ast.value.id == var):
                return False
            continue
        if n.kind == "stmt" and isinstance(n.ast, ast.Raise):
            continue
        stack.extend(s for _, s in n.succ)
    return ok


# ------------------------------------------------------------------------------ F3
def hex_alphabets(mod):
    return {k for k, v in module_consts(mod).items() if isinstance(v, bytes) and v and set(v) <= HEXDIGITS}


def f3(run, project):
    n = 0
    for modname in (HEX, SWTPM, AUTO, PCAP):
        mod = project.module(modname)
        alph = hex_alphabets(mod)
        for q, fn in mod.functions().items():
            convs = [c for c in walk_no_nested(fn) if isinstance(c, ast.Call) and call_name(c) == "int" and len(c.args) == 2
                     and isinstance(c.args[1], ast.Constant) and c.args[1].value == 16]
            if not convs:
                continue
            V = FnView(mod, fn)
            for c in convs:
                n += 1
                names = [x.id for x in ast.walk(c.args[0]) if isinstance(x, ast.Name)]
                bad = []
                for v in dict.fromkeys(names):
                    if not validated(V, c, v, alph):
                        bad.append(v)
                run.ob("F3", not bad, f"{modname.split('.')[-2]}.{q} L{c.lineno}: int(_, 16) only sees validated hex digits",
                       f"`{norm(c)}`: {bad} can hold bytes that were never tested against a hex alphabet; int() also accepts "
                       "signs, underscores and surrounding whitespace, so non-hex text is decoded instead of rejected",
                       module=mod, node=c, func=q, construct=norm(c))
    run.require(n >= 2, "F3: int(x, 16) conversion sites not found")


def raises_value_error(body):
    return any(isinstance(s, ast.Raise) for s in body)


def membership_negative(test, var, alph):
    """does `test` being True imply that var is NOT entirely hex? accepts `v not in A`, disjunctions of it"""
    if isinstance(test, ast.BoolOp) and isinstance(test.op, ast.Or):
        return any(membership_negative(v, var, alph) for v in test.values)
    if isinstance(test, ast.Compare) and len(test.ops) == 1 and isinstance(test.ops[0], ast.NotIn):
        return norm(test.left) == var and isinstance(test.comparators[0], ast.Name) and test.comparators[0].id in alph
    return False


def validated(V, call, var, alph):
    cfg = V.cfg
    node = V.node_of(call)
    # (a) a dominating test `var not in ALPHA` whose true branch raises
    for t in cfg.nodes:
        if t.kind == "test" and t.id in V.dom[node.id] and membership_negative(t.ast, var, alph):
            iff = t.label
            if isinstance(iff, ast.If) and raises_value_error(iff.body):
                return True
    # (b) every definition of var reaching the call is a reset to empty bytes or an accumulation of a
    #     byte variable that is chain-guarded by `b not in ALPHA: raise`
    defs = V.rd.reaching(node, var)
    if not defs:
        return False
    for d in defs:
        a = d.ast
        if isinstance(a, ast.Assign):
            val = a.value
            if (isinstance(val, ast.Call) and call_name(val) == "bytes" and not val.args) or \
                    (isinstance(val, ast.Constant) and val.value == b""):
                continue
            return False
        if isinstance(a, ast.AugAssign) and isinstance(a.op, ast.Add) and isinstance(a.value, ast.Name):
            if chain_guarded(a, a.value.id, alph):
                continue
            return False
        return False
    return True


def chain_guarded(stmt, bvar, alph):
    """stmt sits in the else-part of an if/elif chain one of whose earlier branches is
    `bvar not in ALPHA` -> raise"""
    child, p = stmt, getattr(stmt, "_parent", None)
    while p is not None and not isinstance(p, (ast.FunctionDef, ast.While, ast.For)):
        if isinstance(p, ast.If) and any(child is x for x in p.orelse):
            if membership_negative(p.test, bvar, alph) and raises_value_error(p.body):
                return True
        child, p = p, getattr(p, "_parent", None)
    return False


# ------------------------------------------------------------------------------ F5
def f5(run, project, L):
    # header layout from L: tag | size | code
    def header(c):
        off, out = 0, {}
        for name, t in L.fields(c)[:3]:
            w = L.int_size(t)
            out[name] = (off, w)
            off += w
        return out, off
    hc, lc = header(L.Command)
    hr, lr = header(L.Response)
    size_c, size_r = hc["commandSize"], hr["responseSize"]
    run.ob("F5", size_c == size_r and lc == lr, "command and response headers have the same size-field position",
           f"Command size field at {size_c}, Response at {size_r}", construct="header layout")
    mod = project.module(PCAP)
    fn = mod.function("tpm_pkgs_from_pcap_file")
    conv = [c for c in walk_no_nested(fn) if isinstance(c, ast.Call) and norm(c.func) == "int.from_bytes"]
    run.require(len(conv) == 1, "F5: size extraction of the pcapng front-end not found")
    c = conv[0]
    sl = c.args[0]
    ok = isinstance(sl, ast.Subscript) and isinstance(sl.slice, ast.Slice) and isinstance(sl.slice.lower, ast.Constant) \
        and isinstance(sl.slice.upper, ast.Constant) and (sl.slice.lower.value, sl.slice.upper.value) == (size_c[0], size_c[0] + size_c[1])
    run.ob("F5", ok, f"packet size is read from bytes [{size_c[0]}:{size_c[0] + size_c[1]}] (the size field per L)",
           f"size is read from `{norm(sl)}`", module=mod, node=c, func=fn.name, construct="pcapng size slice")
    bo = kwarg(c, "byteorder")
    run.ob("F5", isinstance(bo, ast.Constant) and bo.value == "big" and kwarg(c, "signed") is None, "size field read big-endian unsigned",
           f"byteorder={norm(bo) if bo is not None else None}", module=mod, node=c, func=fn.name, construct="pcapng size byteorder")
    runt = [s for s in walk_no_nested(fn) if isinstance(s, ast.If) and isinstance(s.test, ast.Compare) and norm(s.test.left).startswith("len(")
            and isinstance(s.test.ops[0], ast.Lt)]
    ok = len(runt) == 1 and isinstance(runt[0].test.comparators[0], ast.Constant) and runt[0].test.comparators[0].value == lc \
        and [norm(x) for x in runt[0].body] == ["continue"]
    run.ob("F5", ok, f"packets shorter than the {lc}-byte header are skipped", f"runt test is `{norm(runt[0].test) if runt else None}`",
           module=mod, node=runt[0] if runt else fn, func=fn.name, construct="pcapng runt threshold")
    V = FnView(mod, fn)
    if runt:
        run.ob("F5", V.dominates(runt[0].test, c), "the runt test precedes the size extraction", "size is read before the length test",
               module=mod, node=c, func=fn.name, construct="pcapng runt before size")
    size_var = c._parent.targets[0].id if isinstance(c._parent, ast.Assign) else None
    trims = [s for s in walk_no_nested(fn) if isinstance(s, ast.Assign) and isinstance(s.value, ast.Subscript) and isinstance(s.value.slice, ast.Slice)
             and s.value.slice.lower is None and norm(s.value.slice.upper) == size_var]
    ok = len(trims) == 1 and norm(trims[0].targets[0]) == norm(trims[0].value.value)
    run.ob("F5", ok, "payload is trimmed to its own size field (never extended)", "trimming statement changed", module=mod,
           node=trims[0] if trims else fn, func=fn.name, construct="pcapng trimming")
    ys = [y for y in walk_no_nested(fn) if isinstance(y, ast.Yield)]
    run.ob("F5", len(ys) == 1 and trims and norm(ys[0].value) == norm(trims[0].targets[0]), "exactly the (trimmed) payload is yielded per packet",
           "yield of the packet payload changed", module=mod, node=ys[0] if ys else fn, func=fn.name, construct="pcapng yield")
    bf = mod.function("bytes_from_pcap_file")
    ok = canon("for pkg_bytes in tpm_pkgs_from_pcap_file(file):\n    yield from pkg_bytes") == norm(bf.body[-1])
    run.ob("F5", ok, "packet payloads are concatenated in capture order", "bytes_from_pcap_file changed", module=mod, node=bf,
           func=bf.name, construct="bytes_from_pcap_file")
    # auto detection
    am = project.module(AUTO)
    det = am.function("detect_format_and_yield_buffer")
    magic = [n for n in walk_no_nested(det) if isinstance(n, ast.Compare) and isinstance(n.comparators[0], ast.Constant)
             and isinstance(n.comparators[0].value, bytes) and isinstance(n.ops[0], ast.Eq)]
    shb = (0x0A0D0D0A).to_bytes(4, "big")
    ok = len(magic) == 1 and magic[0].comparators[0].value == shb[:2]
    run.ob("F5", ok, "pcapng is detected by the first two bytes of the section-header block type 0x0A0D0D0A",
           f"magic is {magic[0].comparators[0].value if magic else None}", module=am, node=magic[0] if magic else det, func=det.name,
           construct="pcapng magic")
    la = [s for s in walk_no_nested(det) if isinstance(s, ast.AugAssign) and "next(" in norm(s.value)]
    ok = len(la) == 1 and norm(la[0].value).count("next(buffer_iter)") == 2
    run.ob("F5", ok, "exactly two bytes of look-ahead decide the format", "look-ahead changed", module=am, node=la[0] if la else det,
           func=det.name, construct="auto look-ahead")
    tail = [norm(s) for s in det.body[-2:]]
    lav = norm(la[0].target) if la else "look_ahead"
    run.ob("F5", tail == [canon(f"yield from {lav}"), canon("yield from buffer_iter")], "the two look-ahead bytes are re-yielded first, then the rest",
           f"generator ends with {tail}", module=am, node=det.body[-1], func=det.name, construct="auto re-yield")
    fmts = [y for y in walk_no_nested(det) if isinstance(y, ast.Yield) and isinstance(y.value, ast.Constant)]
    got = sorted(y.value.value for y in fmts)
    run.ob("F5", got == ["binary", "hex", "pcapng"], "detector yields one of pcapng / hex / binary", f"formats: {got}", module=am,
           node=det, func=det.name, construct="auto formats")
    hexre = [c for c in walk_no_nested(det) if isinstance(c, ast.Call) and call_name(c) == "re.match"]
    ok = len(hexre) == 1 and isinstance(hexre[0].args[0], ast.Constant) and hexre[0].args[0].value == b"[0-9a-fA-F]{2}"
    run.ob("F5", ok, "hex is recognised by two hex digits (any letter case)", "hex detection pattern changed", module=am,
           node=hexre[0] if hexre else det, func=det.name, construct="auto hex pattern")
    mf = am.function("marshal")
    disp = {}
    receivers = {c.func.value.id for c in walk_no_nested(mf) if isinstance(c, ast.Call) and isinstance(c.func, ast.Attribute)
                 and c.func.attr == "marshal" and isinstance(c.func.value, ast.Name)}
    for s in walk_no_nested(mf):
        if isinstance(s, ast.If) and isinstance(s.test, ast.Compare) and isinstance(s.test.comparators[0], ast.Constant) \
                and isinstance(s.test.ops[0], ast.Eq):
            for b in s.body:
                for c in ast.walk(b):
                    if isinstance(c, ast.Call) and (call_name(c) or "").endswith(".marshal"):
                        disp.setdefault(s.test.comparators[0].value, call_name(c))
                    if isinstance(c, ast.Assign) and isinstance(c.value, ast.Name) and norm(c.targets[0]) in receivers:
                        disp.setdefault(s.test.comparators[0].value, f"{c.value.id}.marshal")
    want = {"pcapng": "Pcapng.marshal", "hex": "Hex.marshal", "binary": "Binary.marshal"}
    run.ob("F5", disp == want, "auto dispatches each detected format to its front-end", f"dispatch is {disp}", module=am, node=mf,
           func=mf.name, construct="auto dispatch")
    first = [s for s in mf.body if isinstance(s, ast.Assign) and "next(" in norm(s.value)]
    fvar = norm(first[0].targets[0]) if first else None
    tested = {norm(s.test.left) for s in walk_no_nested(mf) if isinstance(s, ast.If) and isinstance(s.test, ast.Compare)
              and isinstance(s.test.comparators[0], ast.Constant) and s.test.comparators[0].value in want}
    run.ob("F5", len(first) == 1 and norm(first[0].value) == "next(format_buffer_iter)" and tested == {fvar},
           "the format is the detector's first item", "format extraction changed", module=am, node=mf, func=mf.name,
           construct="auto format item")


# ------------------------------------------------------------------------------ F6
def f6(run, project):
    mod = project.module(SWTPM)
    consts = module_consts(mod)
    want = {"CMD_MARKER": b"SWTPM_IO", "CTRL_MARKER": b"Ctrl", "VALID_HEX": b"0123456789ABCDEF", "VALID_WS": b" \r\n"}
    for k, v in want.items():
        run.ob("F6", consts.get(k) == v, f"{k} = {v!r} (documented swtpm log layout)", f"{k} is {consts.get(k)!r}", module=mod,
               node=mod.tree, func="<module>", construct=f"{k} constant")
    states = {k: v for k, v in consts.items() if k.startswith("STATE_")}
    run.ob("F6", len(states) == 4 and len(set(states.values())) == 4, "four distinct scanner states", f"states: {states}", module=mod,
           node=mod.tree, func="<module>", construct="STATE constants")
    fn = mod.function("parse_hex_string")
    loops = [s for s in fn.body if isinstance(s, ast.While)]
    run.require(len(loops) == 1, "F6: scanner loop not found")
    lp = loops[0]
    chains = [s for s in lp.body if isinstance(s, ast.If) and norm(s.test).startswith("state ==")]
    run.require(len(chains) == 1, "F6: state dispatch chain not found")
    ch = if_chain(chains[0])
    tested = [norm(t.comparators[0]) for t, _ in ch if t is not None and isinstance(t, ast.Compare)]
    run.ob("F6", sorted(tested) == sorted(states) and all(t is not None for t, _ in ch), "every state has exactly one branch",
           f"branches: {tested}", module=mod, node=chains[0], func=fn.name, construct="state dispatch")
    for t, body in ch:
        if t is None:
            continue
        st = norm(t.comparators[0])
        first = body[0] if body else None
        ok = isinstance(first, ast.If) and norm(first.test) == "b is None"
        run.ob("F6", ok, f"{st}: end of input is handled first", "the branch does not test `b is None` first", module=mod,
               node=first or chains[0], func=fn.name, construct=f"{st} end-of-input test")
        if ok:
            # end of input either returns (clean end) or raises ValueError
            outs = [type(x).__name__ for x in first.body if isinstance(x, (ast.Return, ast.Raise))] + \
                   [type(x).__name__ for s in first.body if isinstance(s, ast.If) for x in s.body if isinstance(x, (ast.Return, ast.Raise))]
            run.ob("F6", bool(outs), f"{st}: end of input ends the scan", "end of input neither returns nor raises (endless loop)",
                   module=mod, node=first, func=fn.name, construct=f"{st} end-of-input outcome")
    for a in [s for s in ast.walk(fn) if isinstance(s, ast.Assign) and norm(s.targets[0]) == "state"]:
        run.ob("F6", norm(a.value) in states, f"state = {norm(a.value)} is a defined state", f"state is set to `{norm(a.value)}`",
               module=mod, node=a, func=fn.name, construct=norm(a))
    ys = [y for y in ast.walk(fn) if isinstance(y, ast.Yield)]
    ok = len(ys) == 1
    if ok:
        y = ys[0]
        blk = y._parent._parent
        body = blk.orelse if y._parent in getattr(blk, "orelse", []) else blk.body
        txt = [norm(s) for s in body]
        ok = txt[:2] == ["value += b", "i = int(value, 16)"] and "value = bytes()" in txt and norm(y.value) == "i" and \
            "state = STATE_WANT_HIGH_NIBBLE" in txt
        low = [t for t, b in ch if t is not None and any(y is x for s in b for x in ast.walk(s))]
        ok = ok and len(low) == 1 and norm(low[0].comparators[0]) == "STATE_WANT_LOW_NIBBLE"
    run.ob("F6", ok, "one byte is produced per validated digit pair, in the low-nibble state, and the pair is cleared",
           "the byte-producing step of the scanner changed", module=mod, node=ys[0] if ys else fn, func=fn.name,
           construct="scanner yield")
    hi = [b for t, b in ch if t is not None and norm(t.comparators[0]) == "STATE_WANT_HIGH_NIBBLE"]
    if hi:
        els = if_chain(hi[0][0])[-1]
        ok = els[0] is None and [norm(s) for s in els[1]] == ["value += b", "state = STATE_WANT_LOW_NIBBLE"]
        run.ob("F6", ok, "a validated first digit moves to the low-nibble state", "high-nibble step changed", module=mod,
               node=hi[0][0], func=fn.name, construct="scanner high nibble")
        ws = [t for t, b in if_chain(hi[0][0]) if t is not None and norm(t) == "b in VALID_WS"]
        run.ob("F6", len(ws) == 1, "whitespace between pairs is skipped", "whitespace handling changed", module=mod, node=hi[0][0],
               func=fn.name, construct="scanner whitespace")


def f7(run, project):
    """an input that ends inside a digit pair is rejected: both text scanners have a ValueError exit that is taken
    when the source is exhausted while a first digit is pending (hex: in the StopIteration handler of the second
    pull; swtpm: the `b is None` branch of the low-nibble state)."""
    mod = project.module(HEX)
    fn = mod.function("parse_hex_string")
    ok = False
    for h in [h for h in ast.walk(fn) if isinstance(h, ast.ExceptHandler) and h.type is not None and norm(h.type) == "StopIteration"]:
        if any(isinstance(r, ast.Raise) and r.exc is not None and (call_name(r.exc) or "") == "ValueError" for r in ast.walk(h)):
            ok = True
    # alternative shape: after the pairing loop, a pending digit raises
    for r in [r for r in walk_no_nested(fn) if isinstance(r, ast.Raise) and r.exc is not None and (call_name(r.exc) or "") == "ValueError"]:
        p = r._parent
        if isinstance(p, ast.If) and not any(isinstance(x, (ast.For, ast.While)) for x in _ancestors(r, fn)) and \
                any(isinstance(x, (ast.For, ast.While)) for x in fn.body[:fn.body.index(_top(r, fn))]):
            ok = True
    run.ob("F7", ok, "hex scanner: an unpaired trailing digit raises ValueError",
           "parse_hex_string has no ValueError exit for an input that ends inside a digit pair: text with an odd number of digits is "
           "decoded (the last digit silently dropped) instead of rejected", module=mod, node=fn, func=fn.name,
           construct="unpaired digit exit")
    sm = project.module(SWTPM)
    sf = sm.function("parse_hex_string")
    low = [s_ for s_ in ast.walk(sf) if isinstance(s_, ast.If) and norm(s_.test) == "state == STATE_WANT_LOW_NIBBLE"]
    ok = False
    if len(low) == 1 and low[0].body and isinstance(low[0].body[0], ast.If) and norm(low[0].body[0].test) == "b is None":
        ok = any(isinstance(r, ast.Raise) and (call_name(r.exc) or "") == "ValueError" for r in low[0].body[0].body)
    run.ob("F7", ok, "swtpm scanner: input ending inside a digit pair raises ValueError", "the low-nibble state no longer raises at end of input",
           module=sm, node=low[0] if low else sf, func=sf.name, construct="swtpm unpaired digit exit")


def _ancestors(node, stop):
    p = getattr(node, "_parent", None)
    while p is not None and p is not stop:
        yield p
        p = getattr(p, "_parent", None)


def _top(node, fn):
    while getattr(node, "_parent", None) is not fn:
        node = node._parent
    return node
