"""C15 - hex, swtpm-log, pcapng and auto inputs decode like the bytes they carry.

F1 delegation: each front-end (module function and facade class) forwards tpm_type, root_path,
   command_code and **kwargs unchanged to the next layer down to Binary.marshal, with the byte
   generator of its own scanner as buffer.
F2 sibling agreement: every front-end returns the delegated generator's value.
F3 validated digits: every int(x, 16) on input-derived bytes uses only bytes that were tested for
   membership in a hex alphabet (the failing branch raises ValueError).
F4 laziness = C10-T2 (re-evaluated here).
F5 header constants from L: the pcapng trimming slice and the runt threshold equal the offset /
   width of the size field and the header length computed from Command/Response in L; trimming
   never extends a packet; the auto-detection magic equals the pcapng section-header block type
   prefix and the two look-ahead bytes are re-yielded first.
F6 swtpm scanner shape: four distinct state constants, exhaustively branched; every `state =`
   assigns one of them; each branch tests end-of-input first; the only yield is int(value, 16) of
   two validated bytes; marker / alphabet constants equal the documented format.
Not decided: language equivalence of the two text scanners with the documented formats; dpkt.
"""
from __future__ import annotations

import ast
import re

from .. import ctx, paths
from ..cfg import CFG
from ..fnview import FnView
from ..pattern import canon, match
from ..project import AnalysisError, call_name, kwarg, norm, walk_no_nested
from ..roles import if_chain
from . import c10

HEX = "tpmstream.io.hex.marshal"
SWTPM = "tpmstream.io.swtpm_log.marshal"
PCAP = "tpmstream.io.pcapng.marshal"
AUTO = "tpmstream.io.auto.marshal"
FRONTENDS = [HEX, SWTPM, PCAP, AUTO]
FACADES = [("tpmstream.io.hex", "Hex"), ("tpmstream.io.swtpm_log", "SWTPMLog"), ("tpmstream.io.pcapng", "Pcapng"),
           ("tpmstream.io.auto", "Auto")]
HEXDIGITS = set(b"0123456789abcdefABCDEF")


def module_consts(mod, project=None, depth=0):
    """module-level names bound to literals; with `project`, also names bound to another name that denotes a literal (an
    alias of a constant of this module or of one imported from a project module)"""
    out = {}
    for st in mod.tree.body:
        if isinstance(st, ast.Assign) and isinstance(st.targets[0], ast.Name) and isinstance(st.value, ast.Constant):
            out[st.targets[0].id] = st.value.value
    if project is not None and depth < 3:
        imported = {}
        for st in mod.tree.body:
            if isinstance(st, ast.ImportFrom):
                for a in st.names:
                    r = project.resolve_name(mod, a.asname or a.name)
                    if r is not None and r[1] is not None:
                        v = module_consts(r[0], project, depth + 1).get(r[1])
                        if v is not None:
                            imported[a.asname or a.name] = v
        for st in mod.tree.body:
            if isinstance(st, ast.Assign) and len(st.targets) == 1 and isinstance(st.targets[0], ast.Name) and isinstance(st.value, ast.Name):
                v = out.get(st.value.id, imported.get(st.value.id))
                if v is not None:
                    out.setdefault(st.targets[0].id, v)
        for k_, v_ in imported.items():
            out.setdefault(k_, v_)   # an imported constant is a constant of this module's namespace too
    return out


def check(run, project):
    L = ctx.layout(project)
    run.explanation = ("delegation / return-value agreement of all front-ends (siblings), dominance of hex-alphabet tests over "
                       "int(x, 16), header constants recomputed from L and the pcapng packet loop (def-use, loop exits), transition "
                       "tables of the swtpm and hex scanners over path summaries of one loop iteration (applied to a scanner in the "
                       "form they are stated over), decision table of the format detector, end-of-input defaults, reads of unbound / "
                       "undefined names")
    f1_f2(run, project)
    f3(run, project)
    c10.t2(run, project)
    f7(run, project)
    f5(run, project, L)
    f6(run, project)
    f9(run, project)
    f8(run, project)
    f11(run, project)
    from .shared import unbound_locals
    unbound_locals(run, project, "F10", (HEX, SWTPM, PCAP, AUTO), what="the front-end fails instead of decoding the carried bytes")
    from .shared import undefined_names
    undefined_names(run, project, "F10", (HEX, SWTPM, PCAP, AUTO), what="the front-end fails instead of decoding the carried bytes")
    run.floor("F1", 20)
    run.floor("F2", 6)


# ------------------------------------------------------------------------------ F1 / F2
def receiver_classes(fn, call):
    """classes a `<x>.marshal(...)` call may be bound to: the name itself, or every value a local receiver is assigned"""
    f = call.func
    if not (isinstance(f, ast.Attribute) and isinstance(f.value, ast.Name)):
        return None
    var = f.value.id
    defs = [st for st in walk_no_nested(fn) if isinstance(st, ast.Assign) and any(norm(t) == var for t in st.targets)]
    if not defs:
        return [var]
    if all(isinstance(d.value, ast.Name) for d in defs):
        return [d.value.id for d in defs]
    return None


def delegated_calls(fn, names):
    out = []
    for c in walk_no_nested(fn):
        if not isinstance(c, ast.Call):
            continue
        if call_name(c) in names:
            out.append(c)
        elif isinstance(c.func, ast.Attribute):
            rc = receiver_classes(fn, c)
            if rc and all(f"{r}.{c.func.attr}" in names for r in rc):
                out.append(c)
    return out


def f1_f2(run, project):
    """every path of every front-end (module function and facade) that does not refuse ends by delegating once to the
    next layer with tpm_type / root_path / command_code / **kwargs unchanged and its own byte stream as buffer, and
    returns the delegated generator's value - on path summaries, so it does not matter whether the callee is written
    out, picked through a class variable or through a function variable"""
    sites = []
    for modname in FRONTENDS:
        mod = project.module(modname)
        sites.append((mod, "marshal", mod.function("marshal"), {"Binary.marshal", "Hex.marshal", "Pcapng.marshal"}))
    for modname, cls in FACADES:
        mod = project.module(modname)
        fn = mod.functions().get(f"{cls}.marshal")
        if fn is None:
            raise AnalysisError(f"F1: {modname}.{cls}.marshal not found")
        sites.append((mod, f"{cls}.marshal", fn, {"marshal"}))
    # the decoder's own defaults for the options a front-end may spell out (mode, encryption flag)
    bm = project.module("tpmstream.io.binary.marshal").function("marshal")
    bpar = [a.arg for a in bm.args.args]
    bdef = {k: norm(v) for k, v in zip(bpar[len(bpar) - len(bm.args.defaults):], bm.args.defaults)}
    for mod, q, fn, names in sites:
        fpar = [a.arg for a in fn.args.args] + [a.arg for a in fn.args.kwonlyargs]
        fdefs = dict(zip([a.arg for a in fn.args.args][len(fn.args.args) - len(fn.args.defaults):], fn.args.defaults))
        fdefs.update({a.arg: d for a, d in zip(fn.args.kwonlyargs, fn.args.kw_defaults) if d is not None})
        for opt in ("abort_on_error", "parameter_encryption"):
            if opt in fpar and opt in fdefs:
                run.ob("F1", norm(fdefs[opt]) == bdef.get(opt), f"{mod.name.split('.', 2)[-1]}.{q}: default of {opt} is the decoder's",
                       f"{q} spells out `{opt}={norm(fdefs[opt])}` where the decoder's default is {bdef.get(opt)}: a caller that relies on "
                       "the default gets the other mode through this front-end", module=mod, node=fn, func=q, construct=f"{q} default of {opt}")
        ps = [p for p in paths.Summariser(mod, fn).paths() if p.end != "raise"]
        run.require(bool(ps), f"F1: {mod.name}.{q} has no completing path")
        kwname = fn.args.kwarg.arg if fn.args.kwarg else None
        n_del = 0
        for p in ps:
            lab = " & ".join(("" if v else "not ") + a[-40:] for a, v, _ in p.cond) or "always"
            dels = [(k, e, n) for k, e, n in p.effects if k == "yieldfrom" and isinstance(e, ast.Call) and call_name(e) in names]
            plain = p.end == "return" and isinstance(p.value, ast.Call) and call_name(p.value) in names
            c = dels[0][1] if dels else (p.value if plain else None)
            tagq = f"{mod.name.split('.', 2)[-1]}.{q}"
            if c is None or len(dels) > 1:
                run.ob("F1", False, f"{tagq} [{lab}]: delegates once", f"the path [{lab}] of {q} delegates to "
                       f"{[call_name(e) for _k, e, _n in p.effects if _k == 'yieldfrom' and isinstance(e, ast.Call)]} - not exactly one "
                       f"of {sorted(names)}", module=mod, node=p.node or fn, func=q, construct=f"{q} delegation")
                continue
            n_del += 1
            tag = f"{tagq} -> {call_name(c)}"
            pos = [norm(a) for a in c.args]
            kws = {k.arg: paths.text(k.value) for k in c.keywords if k.arg}
            star = [norm(k.value) for k in c.keywords if k.arg is None]
            tt = kws.get("tpm_type", pos[0] if pos else None)
            run.ob("F1", tt == "tpm_type", f"{tag}: tpm_type forwarded", f"tpm_type is passed as `{tt}`", module=mod, node=p.node or fn,
                   func=q, construct=f"{call_name(c)}(tpm_type)")
            for k in ("root_path", "command_code"):
                run.ob("F1", kws.get(k) == k, f"{tag}: {k} forwarded", f"{k} is {'dropped' if k not in kws else 'passed as ' + kws[k]}",
                       module=mod, node=p.node or fn, func=q, construct=f"{call_name(c)}({k})")
            for opt in ("abort_on_error", "parameter_encryption"):
                if opt in fpar:
                    run.ob("F1", kws.get(opt) == opt, f"{tag}: {opt} forwarded", f"{opt} is {'dropped' if opt not in kws else 'passed as ' + kws[opt]}",
                           module=mod, node=p.node or fn, func=q, construct=f"{call_name(c)}({opt})")
            run.ob("F1", kwname is not None and star == [kwname], f"{tag}: **kwargs forwarded (mode, encryption flag)",
                   f"extra keyword arguments are {'not forwarded' if not star else star}", module=mod, node=p.node or fn, func=q,
                   construct=f"{call_name(c)}(**kwargs)")
            buf = kws.get("buffer", pos[1] if len(pos) > 1 else None)
            binds = {norm(e_.targets[0]): paths.text(e_.value) for k_, e_, _n in p.effects if k_ == "bind" and isinstance(e_, ast.Assign)}
            buf = binds.get(buf, buf)  # a generator object bound to a local: what it was built from
            if q == "marshal":
                ok = buf is not None and buf != "buffer" and "buffer" in buf and "(" in buf
                run.ob("F1", ok, f"{tag}: buffer is this front-end's byte stream", f"buffer is `{buf}`", module=mod, node=p.node or fn,
                       func=q, construct=f"{call_name(c)}(buffer)")
            else:
                run.ob("F1", buf == "buffer", f"{tag}: buffer forwarded", f"buffer is `{buf}`", module=mod, node=p.node or fn, func=q,
                       construct=f"{call_name(c)}(buffer)")
            # F2: the value of the delegated generator is returned
            if plain:
                ok2 = True
            else:
                idx = [i for i, (k, _e, _n) in enumerate(p.effects) if k == "yieldfrom"].index(
                    next(i for i, (k, e, _n) in enumerate(p.effects) if k == "yieldfrom" and e is c))
                ok2 = p.end == "return" and p.value_text() in (f"_yf{idx}", "<value of the delegated generator>")
            run.ob("F2", ok2, f"{tag}: returns the decoded object of the delegated generator",
                   "the front-end drops the return value of the decoder it delegates to (Generator(...).value is None; "
                   "`tpmstream type` and Canonical.object then fail on this input format)", module=mod, node=p.node or fn, func=q,
                   construct=f"return value of {call_name(c)}(...)")
        run.require(n_del >= 1, f"F1: {mod.name}.{q} delegates to nothing")


def all_paths_return(cfg, node, var):
    seen, stack = set(), [s for _, s in node.succ]
    ok = True
    while stack:
        n = stack.pop()
        if n.id in seen:
            continue
        seen.add(n.id)
        if n is cfg.exit:
            return False
        if n.kind == "stmt" and isinstance(n.ast, ast.Return):
            if not (isinstance(n.ast.value, ast.Name) and n.ast.value.id == var):
                return False
            continue
        if n.kind == "stmt" and isinstance(n.ast, ast.Raise):
            continue
        stack.extend(s for _, s in n.succ)
    return ok


# ------------------------------------------------------------------------------ F3
def hex_alphabets(mod, project=None):
    """names that denote a hex alphabet in this module: its own constants and constants imported from project modules"""
    out = {k for k, v in module_consts(mod).items() if isinstance(v, bytes) and v and set(v) <= HEXDIGITS}
    if project is not None:
        for st in mod.tree.body:
            if isinstance(st, ast.ImportFrom):
                for a in st.names:
                    r = project.resolve_name(mod, a.asname or a.name)
                    if r is not None and r[1] is not None:
                        v = module_consts(r[0]).get(r[1])
                        if isinstance(v, bytes) and v and set(v) <= HEXDIGITS:
                            out.add(a.asname or a.name)
    return out


def full_hex_alphabet(mod, project, name):
    """the bytes a name denotes if it is a hex alphabet of this module (own or imported)"""
    v = module_consts(mod).get(name)
    if v is None and project is not None:
        r = project.resolve_name(mod, name)
        if r is not None and r[1] is not None:
            v = module_consts(r[0]).get(r[1])
    return v if isinstance(v, bytes) else None


def f3(run, project):
    """every int(x, 16) only sees bytes that were tested against a hex alphabet on that path (path summaries): an operand
    bound from the input on this path needs `operand in ALPHABET` true on the path; an operand that is scanner state carried
    between iterations must start empty and only ever be reset or extended by a validated byte"""
    n = 0
    for modname in (HEX, SWTPM, AUTO, PCAP):
        mod = project.module(modname)
        alph = hex_alphabets(mod, project)
        for q, fn in mod.functions().items():
            if not any(isinstance(c, ast.Call) and call_name(c) == "int" and len(c.args) == 2 and isinstance(c.args[1], ast.Constant)
                       and c.args[1].value == 16 for c in walk_no_nested(fn)):
                continue
            S = paths.Summariser(mod, fn)
            top = S.paths()
            allp = []

            def collect(ps, depth):
                for p in ps:
                    allp.append((p, depth))
                    for sub in p.loops.values():
                        collect(sub, depth + 1)
            collect(top, 0)

            def valid_on(p, v):
                # (the one-byte text of an input byte, `bytes([v])`, is tested in place of the byte)
                if any(p.truth(f"{v} in {a_}") is True or p.truth(f"bytes([{v}]) in {a_}") is True for a_ in alph):
                    return True
                # every byte of an expression that contains the operand is tested: all(d in ALPHABET for d in <... v ...>)
                for at, tv, _n in p.cond:
                    if not (tv and at.startswith("all(")):
                        continue
                    try:
                        e_ = ast.parse(at, mode="eval").body
                    except SyntaxError:
                        continue
                    g_ = e_.args[0] if isinstance(e_, ast.Call) and e_.args and isinstance(e_.args[0], ast.GeneratorExp) else None
                    if g_ is None or len(g_.generators) != 1 or g_.generators[0].ifs or not isinstance(g_.generators[0].target, ast.Name):
                        continue
                    d_ = g_.generators[0].target.id
                    el = g_.elt
                    if isinstance(el, ast.Compare) and len(el.ops) == 1 and isinstance(el.ops[0], ast.In) and norm(el.left) == d_ \
                            and norm(el.comparators[0]) in alph:
                        src = g_.generators[0].iter
                        parts = []
                        def flat(x):
                            if isinstance(x, ast.BinOp) and isinstance(x.op, ast.Add):
                                flat(x.left), flat(x.right)
                            else:
                                parts.append(norm(x))
                        flat(src)
                        if v in parts:
                            return True
                return False

            def byte_name(x):
                if isinstance(x, ast.Name):
                    return x.id
                if isinstance(x, ast.Call) and norm(x.func) == "bytes" and len(x.args) == 1 and isinstance(x.args[0], ast.List) \
                        and len(x.args[0].elts) == 1 and isinstance(x.args[0].elts[0], ast.Name):
                    return x.args[0].elts[0].id
                return None
            # state discipline of loop-carried operands
            def state_ok(v):
                inits = [paths.text(p.env[v]) for p, d in allp if d == 0 and p.env.get(v) is not None]
                for p, d in allp:
                    if d == 0:
                        continue
                    # bound from input (or anything opaque) inside the loop: not scanner state that is known to be clean
                    if any(k in ("bind", "update", "assign") and norm(e_.targets[0] if isinstance(e_, ast.Assign) else e_.target) == v
                           for k, e_, _n in p.effects if e_ is not None):
                        return False
                    nv = p.env.get(v)
                    if nv is None:
                        continue
                    t = paths.text(nv).replace("b''", "bytes()")
                    if t == "bytes()":
                        continue
                    m = isinstance(nv, ast.BinOp) and isinstance(nv.op, ast.Add) and norm(nv.left) == v and byte_name(nv.right) is not None
                    if m and valid_on(p, byte_name(nv.right)):
                        continue
                    if byte_name(nv) is not None and byte_name(nv) != v and valid_on(p, byte_name(nv)):
                        continue   # the state is replaced by a byte that was validated on this step
                    return False
                # the state starts empty (assigned before the loop)
                pre = [e for p, d in allp if d == 0 for k, e, _ in p.effects if False]
                return True
            seen = set()
            for p, d in allp:
                exprs = [e for _k, e, _n in p.effects if e is not None] + ([p.value] if p.value is not None else [])
                for e in exprs:
                    for c in ast.walk(e):
                        if isinstance(c, ast.Call) and call_name(c) == "int" and len(c.args) == 2 and isinstance(c.args[1], ast.Constant) \
                                and c.args[1].value == 16:
                            key = (paths.text(c), tuple((a_, v_) for a_, v_, _ in p.cond))
                            if key in seen:
                                continue
                            seen.add(key)
                            n += 1
                            names = list(dict.fromkeys(x.id for x in ast.walk(c.args[0]) if isinstance(x, ast.Name)))
                            # digits assembled by an object / function of the package that was not dissolved into the scanner:
                            # what it hands back is not followed (no verdict on this form)
                            opaque = [c_ for c_ in ast.walk(c.args[0]) if isinstance(c_, ast.Call) and isinstance(c_.func, ast.Attribute)
                                      and isinstance(c_.func.value, ast.Call) and isinstance(c_.func.value.func, ast.Name)
                                      and c_.func.value.func.id[:1].isupper() and project.resolve_name(mod, c_.func.value.func.id)]
                            if opaque:
                                raise AnalysisError(f"F3: the operand of `{paths.text(c)[:80]}` is produced by a method of the project class "
                                                    f"`{opaque[0].func.value.func.id}`, which holds the digits between steps: a scanner whose "
                                                    "state lives in such an object is not followed - DESIGN section 7")
                            bad = []
                            for v in names:
                                bound_here = any(k == "bind" and norm(e_.targets[0]) == v for k, e_, _n in p.effects)
                                if valid_on(p, v):
                                    continue
                                if not bound_here and d > 0 and state_ok(v):
                                    continue
                                bad.append(v)
                            run.ob("F3", not bad, f"{modname.split('.')[-2]}.{q}: {paths.text(c)} only sees validated hex digits",
                                   f"`{paths.text(c)}`: {bad} can hold bytes that were never tested against a hex alphabet; int() also accepts "
                                   "signs, underscores and surrounding whitespace, so non-hex text is decoded instead of rejected",
                                   module=mod, node=p.node or fn, func=q, construct=paths.text(c))
    run.require(n >= 2, "F3: int(x, 16) conversion sites not found")


# ------------------------------------------------------------------------------ F5
def f5(run, project, L):
    # header layout from L: tag | size | code
    def header(c):
        off, out = 0, {}
        for name, t in L.fields(c)[:3]:
            w = L.int_size(t)
            out[name] = (off, w)
            off += w
        return out, off
    hc, lc = header(L.Command)
    hr, lr = header(L.Response)
    size_c, size_r = hc["commandSize"], hr["responseSize"]
    run.ob("F5", size_c == size_r and lc == lr, "command and response headers have the same size-field position",
           f"Command size field at {size_c}, Response at {size_r}", construct="header layout")
    mod = project.module(PCAP)
    fn = mod.function("tpm_pkgs_from_pcap_file")
    outer = [s_ for s_ in fn.body if isinstance(s_, ast.For)]
    run.require(len(outer) == 1, "F5: packet loop of the pcapng front-end not found")
    S = paths.Summariser(mod, fn)
    body = {repr(b_): b_ for t_ in S.paths() for b_ in t_.loops.get(id(outer[0]), [])}
    run.require(len(body) >= 2, "F5: paths of the pcapng packet loop not found")
    lo, hi = size_c[0], size_c[0] + size_c[1]
    bases = set()

    def trimmed(y):
        """(base, lower, upper) if y is `B[:int.from_bytes(B[a:b], byteorder='big')]`"""
        if isinstance(y, ast.Subscript) and isinstance(y.slice, ast.Slice) and y.slice.lower is None and y.slice.step is None:
            m = match(y.slice.upper, "int.from_bytes(M_b[M_lo:M_hi], byteorder='big')")
            if m is not None and norm(m["M_b"]) == norm(y.value) and isinstance(m["M_lo"], ast.Constant) and isinstance(m["M_hi"], ast.Constant):
                return norm(y.value), m["M_lo"].value, m["M_hi"].value
        return None
    n_yield = 0
    for bp in body.values():
        label = " & ".join(("" if v else "not ") + a_ for a_, v, _ in bp.cond if not a_.startswith(("try@", "loop@"))) or "always"
        ys = [(e, n_) for k, e, n_ in bp.effects if k == "yield"]
        if bp.end == "raise":
            continue
        if len(ys) > 1:
            run.ob("F5", False, f"pcapng [{label}]", f"{len(ys)} payloads are yielded for one packet", module=mod, node=ys[1][1],
                   func=fn.name, construct="pcapng yield")
            continue
        if not ys:
            # a skipped packet: only empty packets and runts (shorter than the header) may be dropped
            ok = any((a_.startswith("truthy ") and not v) or (a_.startswith("len(") and a_.endswith(f" < {lc}") and v) for a_, v, _ in bp.cond)
            run.ob("F5", ok, f"pcapng [{label}]: packet skipped", f"a packet is dropped although it is neither empty nor shorter than the "
                   f"{lc}-byte header", module=mod, node=bp.node or fn, func=fn.name, construct="pcapng runt threshold")
            continue
        n_yield += 1
        y, yn = ys[0]
        t = trimmed(y)
        base = t[0] if t else norm(y)
        bases.add(base)
        R = f"len({base}) < {lc}"
        runt_known = bp.truth(R) is False
        run.ob("F5", runt_known, f"pcapng [{label}]: packets shorter than the {lc}-byte header are skipped",
               f"a payload is yielded without `{R}` having been excluded first (runt test is "
               f"{[a_ for a_, _v, _ in bp.cond if a_.startswith('len(')]})", module=mod, node=yn, func=fn.name,
               construct="pcapng runt threshold")
        size_atoms = [(i, a_) for i, (a_, _v, _) in enumerate(bp.cond) if "int.from_bytes(" in a_]
        r_idx = [i for i, (a_, _v, _) in enumerate(bp.cond) if a_ == R]
        if size_atoms and r_idx:
            run.ob("F5", r_idx[0] < size_atoms[0][0], "the runt test precedes the size extraction", "size is read before the length test",
                   module=mod, node=yn, func=fn.name, construct="pcapng runt before size")
        if t:
            run.ob("F5", (t[1], t[2]) == (lo, hi), f"packet size is read from bytes [{lo}:{hi}] (the size field per L), big-endian unsigned",
                   f"size is read from `{base}[{t[1]}:{t[2]}]`", module=mod, node=yn, func=fn.name, construct="pcapng size slice")
        else:
            # untrimmed: only when the announced size equals the packet length
            SZ = f"int.from_bytes({base}[{lo}:{hi}], byteorder='big')"
            eq = bp.truth(f"{SZ} == len({base})")
            run.ob("F5", eq is True, "payload is trimmed to its own size field (never extended)",
                   f"on the path [{label}] the whole packet `{norm(y)}` is yielded although its size field may announce fewer bytes "
                   f"(trimming statement changed; size conditions: {[a_ for _i, a_ in size_atoms]})", module=mod, node=yn, func=fn.name,
                   construct="pcapng trimming")
    # every packet of the capture is visited: no step of the packet loop leaves it
    for bp in body.values():
        if bp.end in ("break", "return"):
            label = " & ".join(("" if v else "not ") + a_ for a_, v, _ in bp.cond if not a_.startswith(("try@", "loop@"))) or "always"
            run.ob("F5", False, f"pcapng [{label}]: the packet loop goes on", f"on the step [{label}] the packet loop is left ({bp.end}): "
                   "the packets after this one are not decoded", module=mod, node=bp.node or fn, func=fn.name, construct="pcapng packet loop exit")
    # the payload is this packet's: the yielded name is (transitively) computed from the loop's packet item
    item = {n_.id for n_ in ast.walk(outer[0].target) if isinstance(n_, ast.Name)}
    closure, grew = set(), True
    for b_ in bases:
        closure |= {n_.id for n_ in ast.walk(ast.parse(b_, mode="eval")) if isinstance(n_, ast.Name)}
    defs = [a_ for a_ in ast.walk(outer[0]) if isinstance(a_, ast.Assign) and len(a_.targets) == 1 and isinstance(a_.targets[0], ast.Name)]
    inner_targets = {n_.id: lp_.iter for lp_ in ast.walk(outer[0]) if isinstance(lp_, ast.For) and lp_ is not outer[0]
                     for n_ in ast.walk(lp_.target) if isinstance(n_, ast.Name)}
    while grew:
        grew = False
        for a_ in defs:
            if a_.targets[0].id in closure:
                new_ = {n_.id for n_ in ast.walk(a_.value) if isinstance(n_, ast.Name)} - closure
                if new_:
                    closure |= new_
                    grew = True
    run.ob("F5", bool(item & closure), "pcapng: the payload is computed from the packet at hand",
           f"the yielded payload ({sorted(bases)}) is not computed from the loop's packet item ({sorted(item)}) in this iteration: "
           "it is undefined or left over from an earlier packet", module=mod, node=outer[0], func=fn.name, construct="pcapng payload source")
    # the descent `.data` ... until bytes: the loop that unwraps the parsed packet stops exactly at a bytes payload
    n_unwrap = 0
    tops = {paths.text(e) for t_ in S.paths() for k, e, n_ in t_.effects if k == "loop" and n_ is outer[0]}
    fparam = fn.args.args[0].arg
    run.ob("F5", tops == {f"dpkt.pcapng.Reader({fparam})"}, "pcapng: the packets come from dpkt's pcapng reader over the given file",
           f"the packet loop runs over {sorted(tops)}", module=mod, node=outer[0], func=fn.name, construct="pcapng reader")
    for lp_ in [w_ for w_ in ast.walk(outer[0]) if isinstance(w_, ast.While)]:
        subs = [sp for bp in body.values() for sp in bp.loops.get(id(lp_), [])]
        isb = {a_ for sp in subs for a_, _v, _ in sp.cond if a_.startswith("isinstance(") and a_.endswith(", bytes)")}
        if not subs or len(isb) != 1:
            continue
        atom = isb.pop()
        var = atom[len("isinstance("):-len(", bytes)")]
        seen = set()
        for sp in subs:
            t_ = sp.truth(atom)
            key = (t_, sp.end)
            if key in seen:
                continue
            seen.add(key)
            stay = sp.end in ("fall", "continue")
            unwrap = [paths.text(e_.value) for k_, e_, _n in sp.effects if k_ in ("bind", "store") and isinstance(e_, ast.Assign) and norm(e_.targets[0]) == var]
            stepok = unwrap == [f"{var}.data"] or (sp.env.get(var) is not None and paths.text(sp.env[var]) == f"{var}.data")
            ok = (t_ is True and not stay) or (t_ is False and stay and stepok)
            n_unwrap += 1
            run.ob("F5", ok, f"pcapng: unwrapping {'stops at' if t_ else 'continues below'} {'a bytes payload' if t_ else 'a parsed layer'}",
                   f"the loop that unwraps the parsed packet {'goes on' if stay else 'stops'} when `{atom}` is {t_}"
                   + ("" if not stay or stepok else f" without stepping to `{var}.data`") + ": the payload handed on is not the innermost bytes",
                   module=mod, node=sp.node or lp_, func=fn.name, construct="pcapng unwrap loop")
    run.require(n_unwrap >= 2, "F5: the loop that unwraps the parsed packet down to its bytes payload (`while not isinstance(p, bytes): "
                "p = p.data`) was not found")
    run.ob("F5", n_yield >= 1 and len(bases) == 1, "exactly the (trimmed) payload is yielded per packet",
           f"yield of the packet payload changed: bases {sorted(bases)}", module=mod, node=fn, func=fn.name, construct="pcapng yield")
    bf = mod.function("bytes_from_pcap_file")
    bps = paths.Summariser(mod, bf).paths()
    lps = [(e, n_) for t_ in bps for k, e, n_ in t_.effects if k == "loop"]
    ok = len(bps) == 1 and len(lps) == 1 and isinstance(lps[0][1], ast.For) and isinstance(lps[0][1].target, ast.Name) \
        and paths.text(lps[0][0]) == f"tpm_pkgs_from_pcap_file({bf.args.args[0].arg})" and len(bps[0].effects) == 1
    if ok:
        sub = bps[0].loops[id(lps[0][1])]
        ok = len(sub) == 1 and sub[0].effect_texts() == [("yieldfrom", lps[0][1].target.id)] and not sub[0].cond
    run.ob("F5", ok, "packet payloads are concatenated in capture order", "bytes_from_pcap_file changed", module=mod, node=bf,
           func=bf.name, construct="bytes_from_pcap_file")
    # auto detection
    am = project.module(AUTO)
    det = am.function("detect_format_and_yield_buffer")
    magic = [n for n in walk_no_nested(det) if isinstance(n, ast.Compare) and isinstance(n.comparators[0], ast.Constant)
             and isinstance(n.comparators[0].value, bytes) and isinstance(n.ops[0], ast.Eq)]
    shb = (0x0A0D0D0A).to_bytes(4, "big")
    ok = len(magic) == 1 and magic[0].comparators[0].value == shb[:2]
    run.ob("F5", ok, "pcapng is detected by the first two bytes of the section-header block type 0x0A0D0D0A",
           f"magic is {magic[0].comparators[0].value if magic else None}", module=am, node=magic[0] if magic else det, func=det.name,
           construct="pcapng magic")
    la = [s for s in walk_no_nested(det) if isinstance(s, (ast.AugAssign, ast.Assign)) and "next(" in norm(s.value)]
    ok = len(la) == 1 and norm(la[0].value).count("next(buffer_iter)") == 2
    run.ob("F5", ok, "exactly two bytes of look-ahead decide the format", "look-ahead changed", module=am, node=la[0] if la else det,
           func=det.name, construct="auto look-ahead")
    tail = [norm(s) for s in det.body[-2:]]
    lav = norm(la[0].target if isinstance(la[0], ast.AugAssign) else la[0].targets[0]) if la else "look_ahead"
    run.ob("F5", tail == [canon(f"yield from {lav}"), canon("yield from buffer_iter")], "the two look-ahead bytes are re-yielded first, then the rest",
           f"generator ends with {tail}", module=am, node=det.body[-1], func=det.name, construct="auto re-yield")
    fmts = [y for y in walk_no_nested(det) if isinstance(y, ast.Yield) and isinstance(y.value, ast.Constant)]
    got = sorted(y.value.value for y in fmts)
    run.ob("F5", got == ["binary", "hex", "pcapng"], "detector yields one of pcapng / hex / binary", f"formats: {got}", module=am,
           node=det, func=det.name, construct="auto formats")
    hexre = [c for c in walk_no_nested(det) if isinstance(c, ast.Call) and call_name(c) == "re.match"]
    ok = len(hexre) == 1 and isinstance(hexre[0].args[0], ast.Constant) and hexre[0].args[0].value == b"[0-9a-fA-F]{2}"
    if not hexre:
        # the same test spelled with a table: both look-ahead bytes are in the alphabet of all hex digits (any letter case)
        for c_ in walk_no_nested(det):
            if isinstance(c_, ast.Call) and call_name(c_) == "all" and c_.args and isinstance(c_.args[0], ast.GeneratorExp):
                g_ = c_.args[0]
                el = g_.elt
                if len(g_.generators) == 1 and isinstance(el, ast.Compare) and len(el.ops) == 1 and isinstance(el.ops[0], ast.In) \
                        and isinstance(el.comparators[0], ast.Name):
                    tbl = full_hex_alphabet(am, project, el.comparators[0].id)
                    ok = tbl is not None and set(tbl) == set(b"0123456789abcdefABCDEF")
                    hexre = [c_]
    run.ob("F5", ok, "hex is recognised by two hex digits (any letter case)", "hex detection pattern changed", module=am,
           node=hexre[0] if hexre else det, func=det.name, construct="auto hex pattern")
    mf = am.function("marshal")
    disp = {}
    fvars = set()
    for p in paths.Summariser(am, mf).paths():
        first = [e for k, e, _ in p.effects if k == "bind" and isinstance(e.value, ast.Call) and call_name(e.value) == "next"]
        binds = {norm(e_.targets[0]): paths.text(e_.value) for k_, e_, _n in p.effects if k_ == "bind" and isinstance(e_, ast.Assign)}
        for e in first:
            arg = norm(e.value.args[0]) if e.value.args else ""
            fvars.add((norm(e.targets[0]), f"next({binds.get(arg, arg)})"))
        if p.end == "raise":
            continue
        dels = [e for k, e, _ in p.effects if k == "yieldfrom" and isinstance(e, ast.Call) and (call_name(e) or "").endswith(".marshal")]
        fmts = [a.split(" == ", 1)[1].strip("'") for a, v, _ in p.cond if v and " == '" in a]
        for f_ in fmts:
            for d_ in dels:
                disp.setdefault(f_, call_name(d_))
    want = {"pcapng": "Pcapng.marshal", "hex": "Hex.marshal", "binary": "Binary.marshal"}
    run.ob("F5", disp == want, "auto dispatches each detected format to its front-end", f"dispatch is {disp}", module=am, node=mf,
           func=mf.name, construct="auto dispatch")
    ok = len(fvars) == 1 and list(fvars)[0][1].startswith("next(detect_format_and_yield_buffer(")
    tested = {a.split(" == ", 1)[0] for p in paths.Summariser(am, mf).paths() for a, v, _ in p.cond if " == '" in a}
    run.ob("F5", ok and tested == {list(fvars)[0][0]}, "the format is the detector's first item", "format extraction changed", module=am,
           node=mf, func=mf.name, construct="auto format item")


# ------------------------------------------------------------------------------ F6
def swtpm_table_form(mod):
    """is the swtpm scanner in the form F6's transition table is stated over: one `while` loop, a `state` variable set to
    constants, `marker` and `value` accumulators"""
    fn = mod.function("parse_hex_string")
    loops = [s_ for s_ in fn.body if isinstance(s_, ast.While)]
    assigned = {norm(t_) for a_ in ast.walk(fn) if isinstance(a_, (ast.Assign, ast.AugAssign)) for t_ in (a_.targets if isinstance(a_, ast.Assign) else [a_.target])}
    return len(loops) == 1 and {"state", "marker", "value"} <= assigned


def f11(run, project):
    """a pull with a default (`next(it, D)`) answers D at the end of the input: a character obtained that way may reach
    `int(..., 16)` only on paths that have excluded D - otherwise text that ends inside a digit pair is decoded to a byte of
    its own (or the conversion fails) instead of being rejected; both text scanners, whatever their form"""
    n = 0
    for modname in (HEX, SWTPM):
        mod = project.module(modname)
        for q, fn in mod.functions().items():
            if not any(isinstance(c, ast.Call) and call_name(c) == "next" and len(c.args) == 2 for c in walk_no_nested(fn)):
                continue
            S = paths.Summariser(mod, fn)

            def visit(p, outer):
                nonlocal n
                conds = outer + [(a, v) for a, v, _ in p.cond]
                binds = {}
                for k, e, _n in p.effects:
                    if k in ("bind", "assign") and isinstance(e, ast.Assign) and isinstance(e.value, ast.Call) and call_name(e.value) == "next" \
                            and len(e.value.args) == 2 and isinstance(e.targets[0], ast.Name):
                        binds[e.targets[0].id] = e.value.args[1]
                for k, e, node in p.effects:
                    if k == "yield" and isinstance(e, ast.Call) and call_name(e) == "int" and len(e.args) == 2:
                        for v in {x.id for x in ast.walk(e.args[0]) if isinstance(x, ast.Name)} & set(binds):
                            d = norm(binds[v])
                            c = dict(conds)
                            ok = c.get(f"truthy {v}") is True or c.get(f"{v} == {d}") is False or c.get(f"{v} is {d}") is False \
                                or c.get(f"len({v}) == 0") is False or c.get(f"{v} in ({d},)") is False
                            n += 1
                            run.ob("F11", ok, f"{modname.split('.')[-2]}.{q}: `{v}` is not the end-of-input default where it is converted",
                                   f"`{v}` comes from `next(..., {d})` and reaches `{paths.text(e)}` on a path that has not excluded the "
                                   f"default {d} (conditions: {[(a, t) for a, t in conds if v in a]}): text that ends inside a digit pair is "
                                   "decoded (or the conversion fails) instead of being rejected with ValueError", module=mod, node=node or fn,
                                   func=q, construct=f"end-of-input default of {v}")
                for lp_ in p.loops.values():
                    for sub in lp_:
                        visit(sub, conds)
            for p in S.paths():
                visit(p, [])
    run.ob("F11", True, f"every end-of-input default is excluded before a hex conversion ({n} conversions of defaulted pulls)")


def f6(run, project):
    mod = project.module(SWTPM)
    consts = module_consts(mod, project)
    want = {"CMD_MARKER": b"SWTPM_IO", "CTRL_MARKER": b"Ctrl", "VALID_HEX": b"0123456789ABCDEF", "VALID_WS": b" \r\n"}
    TABLES_ = dict(want)
    for k, v in want.items():
        run.ob("F6", consts.get(k) == v, f"{k} = {v!r} (documented swtpm log layout)", f"{k} is {consts.get(k)!r}", module=mod,
               node=mod.tree, func="<module>", construct=f"{k} constant")
    fn = mod.function("parse_hex_string")
    if not swtpm_table_form(mod):
        run.info("F6/F7: the swtpm scanner is not one `while` loop over a state variable with the marker / value accumulators the "
                 "transition table is stated over; the table is not applied to this form (comparing automata up to their state "
                 "representation would be model checking - DESIGN section 7); F1-F3, F10, F11 and C10-T2/T6 still apply")
        return
    loops = [s_ for s_ in fn.body if isinstance(s_, ast.While)]
    lp = loops[0]
    # the scanner's states: whatever distinct constants `state` is set to / compared with - module-level ints, members of an
    # Enum ... (they are told apart below by their place in the automaton, not by their names)
    sets_ = [s_ for s_ in ast.walk(fn) if isinstance(s_, ast.Assign) and norm(s_.targets[0]) == "state"]
    states = {}
    enum_members = {}
    for c_ in [c_ for c_ in mod.tree.body if isinstance(c_, ast.ClassDef) and any(norm(b_).split(".")[-1] in ("Enum", "IntEnum") for b_ in c_.bases)]:
        for m_ in c_.body:
            if isinstance(m_, ast.Assign) and len(m_.targets) == 1 and isinstance(m_.targets[0], ast.Name):
                enum_members[f"{c_.name}.{m_.targets[0].id}"] = f"{c_.name}.{m_.targets[0].id}"
    for a_ in sets_:
        t_ = norm(a_.value)
        v_ = consts.get(t_) if t_ in consts else enum_members.get(t_)
        run.ob("F6", v_ is not None, f"state = {t_} is a defined state", f"state is set to `{t_}`, which is not a scanner state constant",
               module=mod, node=a_, func=fn.name, construct=norm(a_))
        if v_ is not None:
            states[t_] = v_
    run.ob("F6", len(states) == 4 and len(set(states.values())) == 4, "four distinct scanner states", f"states: {states}", module=mod,
           node=mod.tree, func="<module>", construct="STATE constants")
    # ---- the transition table, extracted from the summaries of one loop iteration
    S = paths.Summariser(mod, fn)
    top = S.paths()
    body = {}
    for t_ in top:
        for b_ in t_.loops.get(id(lp), []):
            body.setdefault(repr(b_), b_)
    run.require(len(body) >= 12, f"F6: only {len(body)} transitions of the scanner found")
    bvars = {norm(e.targets[0]) for b_ in body.values() for k, e, _ in b_.effects if k == "bind" and "next(" in norm(e.value)}
    run.require(len(bvars) == 1, f"F6: the scanner's input byte variable not found ({sorted(bvars)})")
    bv = bvars.pop()
    # roles of the states by their place in the automaton: M = the initial state, ST = where M goes, HI = where ST goes,
    # LO = where HI goes other than back to M
    init = [a_ for a_ in sets_ if not any(a_ is x for x in ast.walk(lp))]
    run.require(len(init) == 1, "F6: initial scanner state not found")

    def goes(src):
        out = []
        for bp_ in body.values():
            if bp_.truth(f"state == {src}") is True and bp_.env.get("state") is not None:
                t_ = paths.text(bp_.env["state"])
                if t_ != src and t_ not in out and t_ != "state":
                    out.append(t_)
        return out
    M = norm(init[0].value)
    g1 = goes(M)
    ST = g1[0] if len(g1) == 1 else None
    g2 = goes(ST) if ST else []
    HI = g2[0] if len(g2) == 1 else None
    g3 = [x for x in (goes(HI) if HI else []) if x != M]
    LO = g3[0] if len(g3) == 1 else None
    if None in (ST, HI, LO) or len({M, ST, HI, LO}) != 4:
        run.ob("F6", False, "scanner states by role", f"the scanner's automaton is not marker -> marker line -> first digit <-> second digit: "
               f"from the initial state {M} the successors are {g1}, then {g2}, then {g3}", module=mod, node=lp, func=fn.name,
               construct="state dispatch")
        return
    RAISE, RET = ("raise", "-", "-", "-", ()), ("return", "-", "-", "-", ())
    EOF = "EOF"

    def nxt(state="-", value="-", marker="-", ys=()):
        return ("next", state, value, marker, tuple(ys))
    b = bv
    spec = {
        M: ([({EOF: True, "truthy marker": True}, RAISE), ({EOF: True}, RET),
             ({f"{b} == CMD_MARKER[len(marker):len(marker) + 1]": True, f"marker + {b} == CMD_MARKER": True}, nxt(ST, marker="bytes()")),
             ({f"{b} == CMD_MARKER[len(marker):len(marker) + 1]": True}, nxt(marker=f"marker + {b}"))], nxt(marker="bytes()")),
        ST: ([({EOF: True}, RAISE), ({f"{b} == b'\\n'": True}, nxt(HI))], nxt()),
        HI: ([({EOF: True}, RET), ({f"{b} in VALID_WS": True}, nxt()), ({f"{b} == CMD_MARKER[0:1]": True}, nxt(M, marker=f"marker + {b}")),
             ({f"{b} in VALID_HEX": False}, RAISE)], nxt(LO, value=f"value + {b}")),
        LO: ([({EOF: True}, RAISE), ({"value == CTRL_MARKER[0:1]": True, f"{b} == CTRL_MARKER[1:2]": True}, nxt(M, value="bytes()")),
             ({f"{b} in VALID_HEX": False}, RAISE)], nxt(HI, value="bytes()", ys=[f"int(value + {b}, 16)"])),
    }
    what = {M: "marker search", ST: "marker line", HI: "first digit", LO: "second digit"}
    covered = set()
    for bp in body.values():
        # canonical atoms: end of input is either the StopIteration handler or `b is None`
        q = paths.Path()
        WRAP = f"bytes([{bv}])"   # `b = next(it, None)` then `b = bytes([b])`: the one-byte text of the input byte is the byte
        infeasible = False
        for a_, v, n_ in bp.cond:
            if a_.startswith("try@") and "StopIteration" in a_:
                a_ = EOF
            elif a_ == f"{bv} is None":
                a_ = EOF
            a_ = a_.replace(WRAP, bv)
            # a table under another name (an alias, a table imported from a shared module) is the table of that value
            for tname_ in ("VALID_WS", "VALID_HEX"):
                for alias_, val_ in consts.items():
                    if alias_ != tname_ and val_ == TABLES_[tname_] and a_ == f"{bv} in {alias_}":
                        a_ = f"{bv} in {tname_}"
            if a_ == f"len({bv}) == 1":
                # the input byte is always one byte of text
                if not v:
                    infeasible = True
                continue
            q.cond.append((a_, v, n_))
        if infeasible:
            continue
        if q.truth(EOF) is None:
            q.cond.append((EOF, False, None))
        cur = [st_ for st_ in spec if q.truth(f"state == {st_}") is True]
        label = " & ".join(("" if v else "not ") + a_ for a_, v, _ in q.cond if not a_.startswith("state == ") or v)
        if not cur and all(q.truth(f"state == {st_}") is False for st_ in spec):
            # none of the defined states: unreachable (every `state =` assigns a defined state); it must at least do nothing
            idle = bp.end in ("fall", "continue") and not bp.effect_texts(("yield", "store", "call")) and \
                all(bp.env.get(k) is None for k in ("state", "value", "marker"))
            run.ob("F6", idle, "no step outside the four states", "a step is taken in an undefined scanner state", module=mod,
                   node=bp.node or lp, func=fn.name, construct="state dispatch")
            continue
        if len(cur) != 1:
            run.ob("F6", False, f"scanner step [{label}]", "a step of the scanner is not guarded by exactly one state (every state has "
                   "exactly one branch)", module=mod, node=bp.node or lp, func=fn.name, construct="state dispatch")
            continue
        cur = cur[0]
        covered.add(cur)

        def envtext(name):
            v = bp.env.get(name)
            if v is None:
                return "-"
            t = paths.text(v).replace("b''", "bytes()").replace(WRAP, bv)
            return "-" if t == name else t
        end = {"fall": "next", "continue": "next", "return": "return"}.get(bp.end)
        if bp.end == "raise":
            end = "raise" if bp.value is not None and (call_name(bp.value) or "") == "ValueError" else "raise-other"
        st_out = envtext("state")
        if st_out == cur:
            st_out = "-"
        ys = tuple(e.replace(WRAP, bv) for k, e in bp.effect_texts(("yield",)))
        got = (end, st_out, envtext("value"), envtext("marker"), ys) if end == "next" else (end, "-", "-", "-", ys)
        rules, default = spec[cur]
        want = paths.decide(rules, default, q)
        kind = "scanner yield" if (ys or any(w[4] for w in want)) else \
            f"{cur} end-of-input outcome" if q.truth(EOF) else \
            "scanner whitespace" if q.truth(f"{b} in VALID_WS") or any(f"{b} in VALID_WS" in str(r) for r in ()) else \
            "scanner high nibble" if cur == HI else f"scanner {what[cur]}"
        run.ob("F6", want == {got}, f"{cur} [{label[:80]}]: {got[0]} -> {got[1]}",
               f"{what[cur]} step: the scanner does (end, state, value, marker, yields) = {got} where the documented log format requires "
               f"{sorted(want)}", module=mod, node=bp.node or (bp.cond[-1][2] if bp.cond else lp), func=fn.name, construct=kind)
    run.ob("F6", covered == set(spec), "every state has a branch", f"states without a branch: {sorted(set(spec) - covered)}", module=mod,
           node=lp, func=fn.name, construct="state dispatch")
    # before the loop: start in the marker search with nothing pending
    pre = paths.Summariser(mod, fn).run(fn.body[: fn.body.index(lp)])[1]
    ok = len(pre) == 1 and all(pre[0].env.get(k) is not None and paths.text(pre[0].env[k]).replace("b''", "bytes()") == v
                               for k, v in (("state", M), ("value", "bytes()"), ("marker", "bytes()")))
    run.ob("F6", ok, "the scan starts in the marker search with no pending digit", "initial scanner state changed", module=mod, node=fn,
           func=fn.name, construct="scanner start")


def f7(run, project):
    """an input that ends inside a digit pair is rejected: both text scanners have a ValueError exit that is taken
    when the source is exhausted while a first digit is pending (hex: in the StopIteration handler of the second
    pull; swtpm: the `b is None` branch of the low-nibble state)."""
    mod = project.module(HEX)
    fn = mod.function("parse_hex_string")
    ok = False
    for h in [h for h in ast.walk(fn) if isinstance(h, ast.ExceptHandler) and h.type is not None and norm(h.type) == "StopIteration"]:
        if any(isinstance(r, ast.Raise) and r.exc is not None and (call_name(r.exc) or "") == "ValueError" for r in ast.walk(h)):
            ok = True
    # alternative shape: after the pairing loop, a pending digit raises
    for r in [r for r in walk_no_nested(fn) if isinstance(r, ast.Raise) and r.exc is not None and (call_name(r.exc) or "") == "ValueError"]:
        p = r._parent
        if isinstance(p, ast.If) and not any(isinstance(x, (ast.For, ast.While)) for x in _ancestors(r, fn)) and \
                any(isinstance(x, (ast.For, ast.While)) for x in fn.body[:fn.body.index(_top(r, fn))]):
            ok = True
    # third shape: the pairing loop pulls the two digits through a helper that answers "empty" at the end of the input; the
    # second pull being empty (while a first digit is held) raises
    if not ok:
        bparam = fn.args.args[0].arg
        for lp_ in [n_ for n_ in walk_no_nested(fn) if isinstance(n_, (ast.While, ast.For))]:
            def pulls(node):
                return isinstance(node, ast.Call) and any(isinstance(a_, ast.Name) and a_.id == bparam for a_ in node.args) \
                    and call_name(node) not in ("iter", "len", "bytes", "list")
            first = [n_ for n_ in ast.walk(lp_.test if isinstance(lp_, ast.While) else lp_.iter) if isinstance(n_, ast.NamedExpr) and pulls(n_.value)] + \
                [s_ for s_ in lp_.body if isinstance(s_, ast.Assign) and pulls(s_.value)]
            for i_, s_ in enumerate(lp_.body):
                if isinstance(s_, ast.Assign) and pulls(s_.value) and isinstance(s_.targets[0], ast.Name) and first and first[0] is not s_:
                    v2 = s_.targets[0].id
                    for t_ in lp_.body[i_ + 1:i_ + 3]:
                        if isinstance(t_, ast.If) and norm(t_.test) in (f"not {v2}", f"{v2} is None", f"{v2} == b''", f"len({v2}) == 0") and \
                                any(isinstance(r, ast.Raise) and r.exc is not None and (call_name(r.exc) or "") == "ValueError" for r in t_.body):
                            ok = True
    run.ob("F7", ok, "hex scanner: an unpaired trailing digit raises ValueError",
           "parse_hex_string has no ValueError exit for an input that ends inside a digit pair: text with an odd number of digits is "
           "decoded (the last digit silently dropped) instead of rejected", module=mod, node=fn, func=fn.name,
           construct="unpaired digit exit")
    # a pending digit is a number (0..15) or "none": it must never be tested by truthiness (the digit 0 is a digit)
    for smod, sfn in ((mod, fn), (project.module(SWTPM), project.module(SWTPM).function("parse_hex_string"))):
        numeric, none = set(), set()
        for a_ in walk_no_nested(sfn):
            if isinstance(a_, ast.Assign) and len(a_.targets) == 1 and isinstance(a_.targets[0], ast.Name):
                v = a_.value
                if isinstance(v, ast.Constant) and v.value is None:
                    none.add(a_.targets[0].id)
                elif (isinstance(v, ast.Call) and call_name(v) in ("int", "ord", "int.from_bytes")) or \
                        (isinstance(v, ast.BinOp) and isinstance(v.op, (ast.LShift, ast.BitOr, ast.Mult, ast.BitAnd))) or \
                        (isinstance(v, ast.Constant) and isinstance(v.value, int) and not isinstance(v.value, bool)):
                    numeric.add(a_.targets[0].id)
        for n_ in walk_no_nested(sfn):
            ops = []
            if isinstance(n_, (ast.If, ast.While, ast.IfExp, ast.Assert)):
                ops = [n_.test]
            elif isinstance(n_, ast.BoolOp):
                ops = list(n_.values)
            elif isinstance(n_, ast.UnaryOp) and isinstance(n_.op, ast.Not):
                ops = [n_.operand]
            for o in ops:
                if isinstance(o, ast.Name) and o.id in numeric & none:
                    run.ob("F7", False, f"{smod.name.split('.')[-2]} scanner: `{o.id}` in boolean context",
                           f"`{o.id}` holds a digit value (0..15) or None and is tested by truthiness: the digit 0 counts as 'no digit "
                           "pending', so text whose unpaired last digit is 0 is accepted (the digit dropped) instead of rejected",
                           module=smod, node=n_, func=sfn.name, construct=f"truthiness of {o.id}")
    # swtpm: the low-nibble state at end of input raises - part of the transition table checked by F6
    sm = project.module(SWTPM)
    if not swtpm_table_form(sm):
        return
    sf = sm.function("parse_hex_string")
    S = paths.Summariser(sm, sf)
    ok = False
    for t_ in S.paths():
        for lp_paths in t_.loops.values():
            for bp in lp_paths:
                eof = any((a_.startswith("try@") and "StopIteration" in a_ and v_) or (a_.endswith(" is None") and v_) for a_, v_, _ in bp.cond)
                if eof and any(a_.startswith("state == ") and a_.endswith("LOW_NIBBLE") and v_ for a_, v_, _ in bp.cond):
                    ok = bp.end == "raise" and (call_name(bp.value) or "") == "ValueError"
        for bp in [t_]:
            eof = any((a_.startswith("try@") and "StopIteration" in a_ and v_) or (a_.endswith(" is None") and v_) for a_, v_, _ in bp.cond)
            if eof and any(a_.startswith("state == ") and a_.endswith("LOW_NIBBLE") and v_ for a_, v_, _ in bp.cond) and bp.end == "raise" \
                    and (call_name(bp.value) or "") == "ValueError":
                ok = True
    run.ob("F7", ok, "swtpm scanner: input ending inside a digit pair raises ValueError", "the low-nibble state no longer raises at end of input",
           module=sm, node=sf, func=sf.name, construct="swtpm unpaired digit exit")


def _blank_bytes(e):
    """a bytes value without a visible character: b"", b" ", bytes()"""
    return (isinstance(e, ast.Constant) and isinstance(e.value, bytes) and not e.value.strip()) or \
        (isinstance(e, ast.Call) and call_name(e) == "bytes" and not e.args and not e.keywords)


def f8(run, project):
    """the hex scanner in its two-pending-characters form (each character is held as a bytes object; blank = none held /
    whitespace) as a transition table over the path summaries of one loop iteration:
      first blank           -> pull one byte into it, nothing emitted, next iteration; input exhausted: end silently
      first held, 2nd blank -> pull one byte into the second;                          input exhausted: ValueError
      both held             -> both in the alphabet: emit int(first + second, 16) once, both blank again; else ValueError
    A scanner written in another form (helpers that skip whitespace, a digit accumulator, a for loop) is not judged by this
    table (F3 / F7 and the delegation rules still apply); the table says so in the evidence."""
    from .outcomes import View, label
    mod = project.module(HEX)
    fn = mod.function("parse_hex_string")
    S = paths.Summariser(mod, fn)
    top = S.paths()
    body = None
    for t in top:
        for lp in t.loops.values():
            if any(k == "yield" for b in lp for k, _e, _n in b.effects):
                body = lp
        if body:
            break
    # the same tests spelled with tables: `X in <whitespace table>` is "X is blank" (the table must hold exactly the ASCII
    # whitespace that bytes.strip() strips - "arbitrary whitespace between and inside pairs"); `all(d in HEX for d in h + l)`
    # (with the vacuous `len(h + l) == 2`) is "both are in the alphabet"
    WS_ALL = set(b" \t\n\r\x0b\x0c")
    mconsts = module_consts(mod, project)
    alph_names = hex_alphabets(mod, project)
    rewritten = []
    for b in body or []:
        conds, feasible = [], True
        for a_, v_, n_ in b.cond:
            m_ = re.fullmatch(r"(\w+) in (\w+)", a_)
            if m_ and isinstance(mconsts.get(m_.group(2)), bytes) and m_.group(2) not in alph_names:
                tbl = mconsts[m_.group(2)]
                run.ob("F8", set(tbl) == WS_ALL, "hex scanner: the blank test knows all ASCII whitespace",
                       f"`{a_}`: the table {m_.group(2)} = {tbl!r} is not the ASCII whitespace (blank, \\t, \\n, \\r, \\x0b, \\x0c): hex text "
                       "with the missing whitespace characters between its digits is rejected instead of decoded", module=mod, node=n_ or fn,
                       func=fn.name, construct="hex whitespace table")
                conds.append((f"{m_.group(1)}.strip()", not v_, n_))
                continue
            m_ = re.fullmatch(r"len\((\w+) \+ (\w+)\) == 2", a_)
            if m_:
                if not v_:
                    feasible = False
                continue
            m_ = re.fullmatch(r"all\(\((\w+) in (\w+) for (\w+) in (\w+) \+ (\w+)\)\)", a_)
            if m_ and m_.group(1) == m_.group(3) and m_.group(2) in alph_names:
                A_ = sorted(hex_alphabets(mod))[0] if hex_alphabets(mod) else m_.group(2)
                if v_:
                    conds += [(f"{m_.group(4)} in {m_.group(2)}", True, n_), (f"{m_.group(5)} in {m_.group(2)}", True, n_)]
                else:
                    conds.append((f"{m_.group(4)} in {m_.group(2)}", False, n_))
                continue
            conds.append((a_, v_, n_))
        if feasible:
            b.cond = conds
            rewritten.append(b)
    if body is not None:
        body = rewritten
    # the two pending characters: the names whose blankness (`X.strip()`) the steps branch on, in the order they are tested
    order_ = []
    for b in body or []:
        for a_, _v, _n in b.cond:
            if a_.endswith(".strip()") and a_[:-len(".strip()")].isidentifier() and a_[:-len(".strip()")] not in order_:
                order_.append(a_[:-len(".strip()")])
    pair = tuple(order_) if len(order_) == 2 else None
    if pair is None and len(order_) == 1:
        # one of the two blank tests is gone: still this form (the emitting statement names both)
        for y in [y for y in walk_no_nested(fn) if isinstance(y, ast.Yield) and isinstance(y.value, ast.Call) and call_name(y.value) == "int"]:
            a0 = y.value.args[0] if y.value.args else None
            if isinstance(a0, ast.BinOp) and isinstance(a0.left, ast.Name) and isinstance(a0.right, ast.Name) and order_[0] in (a0.left.id, a0.right.id):
                pair = (a0.left.id, a0.right.id)
    if not pair:
        run.info("F8: the hex scanner is not in the two-pending-characters form; the transition table is not applied to this form")
        return
    h, l = pair
    alph = sorted(hex_alphabets(mod, project))
    used = sorted({a_.split(" in ", 1)[1] for b in body for a_, _v, _n in b.cond if " in " in a_ and a_.split(" in ", 1)[1] in alph})
    if len(used) != 1:
        raise AnalysisError(f"F8: hex alphabets used by the scanner of {mod.relpath}: {used} (of {alph})")
    A = used[0]
    tblA = full_hex_alphabet(mod, project, A)
    run.ob("F8", tblA is not None and set(tblA) == set(b"0123456789abcdefABCDEF"), "hex scanner: digits of either letter case",
           f"the scanner's alphabet {A} = {tblA!r} is not the hex digits in both letter cases", module=mod, node=fn, func=fn.name,
           construct="hex alphabet")
    # which pull a protected block makes: try@<line> -> the pending character it fills
    pull_of = {}
    for t_ in [n_ for n_ in walk_no_nested(fn) if isinstance(n_, ast.Try)]:
        tg = {norm(a_.targets[0]) for a_ in ast.walk(t_) if isinstance(a_, ast.Assign) and "next(" in norm(a_.value) and a_ in list(ast.walk(ast.Module(body=t_.body, type_ignores=[])))}
        if len(tg) == 1:
            pull_of[f"try@{t_.lineno} raises StopIteration"] = tg.pop()
    loopnode = next((n_ for n_ in walk_no_nested(fn) if isinstance(n_, ast.While)), None)
    run.ob("F8", loopnode is not None and isinstance(loopnode.test, ast.Constant) and bool(loopnode.test.value),
           "hex scanner: the scan loop runs until the input is exhausted", "the scan loop's test is no longer constant true: the scanner "
           "stops (or never starts) independently of the input", module=mod, node=loopnode or fn, func=fn.name, construct="hex scan loop")
    # initial state: both blank
    for v in (h, l):
        init = [a_ for a_ in fn.body if isinstance(a_, ast.Assign) and norm(a_.targets[0]) == v]
        ok = len(init) == 1 and _blank_bytes(init[0].value)
        run.ob("F8", ok, f"hex scanner: `{v}` starts blank", f"`{v}` is not initialised to a blank bytes constant before the loop",
               module=mod, node=init[0] if init else fn, func=fn.name, construct=f"hex initial {v}")

    def blank(b, v):
        return _blank_bytes(b.env.get(v))

    def pulled(b):
        return {norm(e.targets[0]): paths.text(e.value) for k, e, _n in b.effects if k == "bind" and isinstance(e, ast.Assign) and "next(" in norm(e.value)}

    n = 0
    for b in body or []:
        c = {a: v for a, v, _ in b.cond}
        ys = [paths.text(e) for k, e, _n in b.effects if k in ("yield", "yieldfrom")]
        eofs = [pull_of.get(a) for a, v in c.items() if a.startswith("try@") and v]
        pl = pulled(b)
        nxt = b.end in ("continue", "fall")
        if eofs:
            if eofs == [h]:
                want, got = "ends silently", ("ends silently" if b.end == "return" and b.value is None and not ys else f"{b.end} {b.value_text()} after {ys}")
            elif eofs == [l]:
                want = "ValueError"
                got = "ValueError" if b.end == "raise" and (call_name(b.value) or "") == "ValueError" and not ys else f"{b.end} {b.value_text()} after {ys}"
            else:
                raise AnalysisError(f"F8: end of input in an unknown pull on the path [{label(b)}]")
        else:
            hs, ls = c.get(f"{h}.strip()"), c.get(f"{l}.strip()")
            if hs is False:
                want = f"pull into {h}"
            elif hs is True and ls is False:
                want = f"pull into {l}"
            elif hs is True and ls is True:
                va, vb = c.get(f"{h} in {A}"), c.get(f"{l} in {A}")
                want = f"emit int({h} + {l}, 16), both blank" if va is True and vb is True else "ValueError" if False in (va, vb) else "?"
            else:
                want = "?"
            if want == "?":
                run.ob("F8", False, f"hex scanner step [{label(b)}]", f"a step of the hex scanner [{label(b)}] is not decided by the two "
                       f"blank tests and the two alphabet tests", module=mod, node=b.node or fn, func=fn.name, construct="hex scanner step")
                n += 1
                continue
            if b.end == "raise":
                got = "ValueError" if (call_name(b.value) or "") == "ValueError" and not ys else f"raise {b.value_text()} after {ys}"
            elif ys:
                got = f"emit {ys[0]}, both blank" if len(ys) == 1 and nxt and blank(b, h) and blank(b, l) and not pl else \
                    f"emit {ys}, then {h}={paths.text(b.env[h]) if isinstance(b.env.get(h), ast.AST) else 'kept'}, " \
                    f"{l}={paths.text(b.env[l]) if isinstance(b.env.get(l), ast.AST) else 'kept'}, {b.end}"
            elif len(pl) == 1 and nxt and list(pl.values())[0].replace(" ", "") in ("bytes([next(buffer)])", "bytes((next(buffer),))") \
                    and not [v for v in (h, l) if v in b.env and v not in pl]:
                got = f"pull into {list(pl)[0]}"
            else:
                got = f"{b.end} with pulls {pl}"
        n += 1
        run.ob("F8", want == got, f"hex scanner step [{label(b)}]: {got[:50]}",
               f"on the step [{label(b)}] the hex scanner does `{got}`; the text-to-bytes correspondence requires `{want}`",
               module=mod, node=b.node or fn, func=fn.name, construct="hex scanner step")
    run.require(n >= 6, f"F8: only {n} steps of the hex scanner found")


def f9(run, project):
    """the detector as a decision table over its path summaries: which format is announced (or which input is refused)
    under which outcome of the three tests, and that the announcement is followed by the two look-ahead bytes and then the
    rest of the input - however the branches are written"""
    from .outcomes import View, label
    am = project.module(AUTO)
    det = am.function("detect_format_and_yield_buffer")
    ps = paths.summarise(am, det)
    atoms = {a for p in ps for a in View(p).conds()}
    magic = sorted(a for a in atoms if " == b'" in a)
    hexa = sorted(a for a in atoms if a.startswith("re.match(") or a.startswith("re.fullmatch("))
    if not hexa:
        # table form: `len(la) == 2 and all(d in HEX for d in la)`; the look-ahead always holds two bytes (F5), so the length
        # test cannot fail: paths on which it does are dropped, the atom is forgotten
        lens = sorted(a for a in atoms if a.startswith("len(") and a.endswith(") == 2"))
        hexa = sorted(a for a in atoms if a.startswith("all(") and " in " in a)
        if lens:
            ps = [p for p in ps if not any(a == lens[0] and not v for a, v, _ in p.cond)]
            for p in ps:
                p.cond = [c_ for c_ in p.cond if c_[0] != lens[0]]
    mode = sorted(a for a in atoms if a.startswith("truthy ") and a[7:] in [x.arg for x in det.args.args])
    eof = sorted(a for a in atoms if a.startswith("try raises StopIteration"))
    if not (len(magic) == 1 and len(hexa) == 1 and len(mode) == 1 and len(eof) == 1):
        raise AnalysisError(f"F9: the detector's tests are not (magic, hex pattern, strictness, end of input): {sorted(atoms)}")
    M, H, S_, E = magic[0], hexa[0], mode[0], eof[0]
    rows = [({E: True}, "refused"), ({M: True}, "pcapng"), ({H: True, S_: False}, "hex"), ({H: True, S_: True}, "refused")]
    srcs = set()
    for p in ps:
        for k, e, _ in p.effects:
            if k in ("bind", "update") and isinstance(e, (ast.Assign, ast.AugAssign)) and "next(" in norm(e.value):
                srcs.add(norm(e.target if isinstance(e, ast.AugAssign) else e.targets[0]))
    for p in ps:
        for k, e, _ in p.effects:
            if k == "update" and isinstance(e, ast.AugAssign) and "next(" in norm(e.value):
                run.ob("F9", isinstance(e.op, ast.Add), "the look-ahead bytes are collected by concatenation",
                       f"`{norm(e)[:70]}`: the two look-ahead bytes are not appended to the look-ahead", module=am, node=e, func=det.name,
                       construct="auto look-ahead update")
    n = 0
    for p in ps:
        want = paths.decide(rows, "binary", View(p, closed=(E,)))
        ys = [(k, paths.text(e)) for k, e, _ in p.effects if k in ("yield", "yieldfrom")]
        if p.end == "raise":
            got = "refused" if not ys else f"raise after {ys}"
        else:
            first = ys[0] if ys else None
            tail = ys[1:]
            its = {norm(e.targets[0]) for k, e, _ in p.effects if k == "bind" and isinstance(e, ast.Assign) and call_name(e.value) == "iter"}
            okt = len(tail) == 2 and tail[0] in {("yieldfrom", v) for v in srcs} and tail[1][0] == "yieldfrom" \
                and (tail[1][1] in its or tail[1][1].startswith("iter("))
            got = first[1].strip("'") if first and first[0] == "yield" and okt else f"{ys}"
        n += 1
        run.ob("F9", want == {got}, f"detector [{label(p)}]: {got[:40]}",
               f"on the path [{label(p)}] the detector gives {got}; required: {' or '.join(sorted(want))} (announcement, then the two "
               "look-ahead bytes, then the rest of the input)", module=am, node=p.node or det, func=det.name, construct="auto decision")
    run.require(n >= 5, f"F9: only {n} detector paths")
    # hex is only announced in the lenient mode: that is the mode auto decoding runs in unless the caller asks otherwise
    mf = am.function("marshal")
    mpar = [a.arg for a in mf.args.args]
    mdef = dict(zip(mpar[len(mpar) - len(mf.args.defaults):], mf.args.defaults))
    mdef.update({a.arg: d for a, d in zip(mf.args.kwonlyargs, mf.args.kw_defaults) if d is not None})
    dcalls = [c for c in walk_no_nested(mf) if isinstance(c, ast.Call) and call_name(c) == det.name]
    dpar = [a.arg for a in det.args.args]
    sname = S_[len("truthy "):]
    for c in dcalls:
        arg = kwarg(c, sname) or (c.args[dpar.index(sname)] if sname in dpar and dpar.index(sname) < len(c.args) else None)
        if arg is None:
            dd = dict(zip(dpar[len(dpar) - len(det.args.defaults):], det.args.defaults)).get(sname)
            val = dd.value if isinstance(dd, ast.Constant) else "?"
        elif isinstance(arg, ast.Constant):
            val = arg.value
        elif isinstance(arg, ast.Name) and arg.id in mdef and isinstance(mdef[arg.id], ast.Constant):
            val = mdef[arg.id].value
        else:
            val = "?"
        run.ob("F9", val != "?" and not val, "auto decoding detects leniently by default (hex text is accepted as hex)",
               f"`{norm(c)[:80]}`: by default the detector runs with {sname}={val!r}: every hex text is refused as ambiguous instead of "
               "being decoded like the bytes it carries", module=am, node=c, func=mf.name, construct="auto default strictness")
    run.require(len(dcalls) == 1, f"F9: auto.marshal calls the detector {len(dcalls)} times")


def _ancestors(node, stop):
    p = getattr(node, "_parent", None)
    while p is not None and p is not stop:
        yield p
        p = getattr(p, "_parent", None)


def _top(node, fn):
    while getattr(node, "_parent", None) is not fn:
        node = node._parent
    return node
