"""C07 - warn mode and strict mode agree up to the first problem (mode non-interference).

NI-1  every read of the mode parameter `abort_on_error` in the decode core (io/binary/marshal.py,
      common/constraints.py) is (i) a keyword pass-through `abort_on_error=abort_on_error` or
      (ii) the condition of a *mode test* `if abort_on_error [or <cond>]:` whose true branch is
      exactly `raise e`, e an error object bound on every path to the test.  It is never stored,
      compared, negated or copied.
NI-2  every call to a function that has an `abort_on_error` parameter passes
      `abort_on_error=abort_on_error` (never omitted - the default is strict - never a constant).
NI-3  on the false continuation of each mode test the next thing yielded on every path is
      `WarningEvent(error=e)` with the same e, before any return; the only event allowed in
      between is the offending primitive's own MarshalEvent (the carve-out the property states).
      WarningEvent is constructed nowhere else.
Consequence: up to the construction of the first error object both modes execute the same
statements on the same data; there strict raises e and warn wraps the same e.
"""
from __future__ import annotations

import ast

from ..cfg import CFG
from ..flow import ReachingDefs, yields_in
from ..project import AnalysisError, call_name, kwarg, norm, qualname_of, walk_no_nested, order
from ..roles import CONSTRAINTS, MARSHAL

MODE = "abort_on_error"


def functions_with_mode(project):
    """qualname -> (module, fn) for every function in the decode core that has the mode parameter."""
    out = {}
    for modname in (MARSHAL, CONSTRAINTS):
        mod = project.module(modname)
        for q, fn in mod.functions().items():
            params = [a.arg for a in fn.args.args + fn.args.kwonlyargs]
            if MODE in params:
                out[(modname, q)] = (mod, fn)
    return out


def class_of_receiver(fn, call, project):
    """For `x.m(...)`: the repo class x was constructed from in this function (or None)."""
    recv = call.func.value
    if isinstance(recv, ast.Name):
        if recv.id == "self":
            p = fn
            while p is not None and not isinstance(p, ast.ClassDef):
                p = getattr(p, "_parent", None)
            return p.name if p is not None else None
        for n in walk_no_nested(fn):
            if isinstance(n, ast.Assign) and isinstance(n.targets[0], ast.Name) and n.targets[0].id == recv.id \
                    and isinstance(n.value, ast.Call) and isinstance(n.value.func, ast.Name):
                return n.value.func.id
    return None


def check(run, project):
    fm = functions_with_mode(project)
    if len(fm) < 12:
        raise AnalysisError(f"C07: only {len(fm)} functions with an abort_on_error parameter found")
    run.explanation = ("information-flow (non-interference) check of the mode flag: every read is classified; mode tests "
                       "are validated on the CFG (error bound on all paths, true branch = raise e, false continuation "
                       "reaches WarningEvent(error=e) first on every path)")
    by_name = {}
    for (modname, q), (mod, fn) in fm.items():
        by_name.setdefault(fn.name, []).append((modname, q, fn))
    mode_tests = []
    warning_sites = []
    reached_warnings = set()
    for modname in (MARSHAL, CONSTRAINTS):
        mod = project.module(modname)
        for q, fn in mod.functions().items():
            params = [a.arg for a in fn.args.args + fn.args.kwonlyargs]
            loads = [n for n in walk_no_nested(fn) if isinstance(n, ast.Name) and n.id == MODE and isinstance(n.ctx, ast.Load)]
            stores = [n for n in walk_no_nested(fn) if isinstance(n, ast.Name) and n.id == MODE and not isinstance(n.ctx, ast.Load)]
            for s in stores:
                run.ob("NI-1", False, f"{q}: store to the mode flag", "the mode flag is re-bound inside the decoder",
                       module=mod, node=s, func=q, construct=norm(s._parent).splitlines()[0])
            if loads and MODE not in params:
                run.ob("NI-1", False, f"{q}: reads a mode flag it does not receive",
                       "abort_on_error is read in a function that has no such parameter (hidden channel)", module=mod,
                       node=loads[0], func=q, construct=norm(loads[0]._parent).splitlines()[0][:100])
                continue
            # default value must be strict (True) so that an omitted argument cannot silently switch to warn
            if MODE in params:
                d = default_of(fn, MODE)
                if d is not None:
                    run.ob("NI-1", isinstance(d, ast.Constant) and d.value is True, f"{q}: default mode is strict",
                           f"default of abort_on_error is {norm(d)}", module=mod, node=fn, func=q,
                           construct=f"{q}(abort_on_error={norm(d)})")
            cfg = None
            for n in loads:
                p = n._parent
                if isinstance(p, ast.keyword) and p.arg == MODE and p.value is n:
                    run.ob("NI-1", True, f"{q} L{n.lineno}: pass-through")
                    continue
                # mode test?
                stmt = n
                while not isinstance(stmt, ast.stmt):
                    stmt = stmt._parent
                is_test = isinstance(stmt, ast.If) and (stmt.test is n or (
                    isinstance(stmt.test, ast.BoolOp) and isinstance(stmt.test.op, ast.Or) and any(v is n for v in stmt.test.values)))
                # `if <there is an error e> and abort_on_error: raise e` - the same mode test with the error's existence
                # folded into it
                conj_form = False
                if not is_test and isinstance(stmt, ast.If) and isinstance(stmt.test, ast.BoolOp) and isinstance(stmt.test.op, ast.And) \
                        and any(v is n for v in stmt.test.values) and len(stmt.body) == 1 and isinstance(stmt.body[0], ast.Raise) \
                        and isinstance(stmt.body[0].exc, ast.Name):
                    en = stmt.body[0].exc.id
                    if all(v is n or error_test(v, en) is True for v in stmt.test.values):
                        is_test = conj_form = True
                if not is_test:
                    run.ob("NI-1", False, f"{q} L{n.lineno}: mode flag used in `{norm(stmt).splitlines()[0][:60]}`",
                           "the mode flag is read outside a pass-through or a raise-vs-wrap mode test (it is stored, negated, "
                           "compared or steers other behaviour): the two modes no longer execute the same statements",
                           module=mod, node=stmt, func=q, construct=norm(stmt).splitlines()[0][:120])
                    continue
                body_ok = len(stmt.body) == 1 and isinstance(stmt.body[0], ast.Raise) and isinstance(stmt.body[0].exc, ast.Name) \
                    and stmt.body[0].cause is None
                run.ob("NI-1", body_ok, f"{q} L{n.lineno}: strict branch is exactly `raise e`",
                       "the strict branch of a mode test does more than raise the already built error object",
                       module=mod, node=stmt, func=q, construct=norm(stmt.test) + " [strict branch]")
                if not body_ok:
                    continue
                e = stmt.body[0].exc.id
                if cfg is None:
                    cfg = CFG(fn)
                    rd = ReachingDefs(cfg)
                tnode = next((x for x in cfg.nodes if x.kind == "test" and x.ast is stmt.test), None)
                if tnode is None:
                    raise AnalysisError(f"C07: mode test at {mod.relpath}:{stmt.lineno} not found in the CFG")
                bound = e in rd.must_defined()[tnode.id]
                # (the mode test may stand under a test that the error exists: `if e is not None: if strict: raise e ...`)
                anc, child = stmt._parent, stmt
                while anc is not None and anc is not fn and not conj_form:
                    if isinstance(anc, ast.If) and child in anc.body and error_test(anc.test, e) is True:
                        conj_form = "guarded"
                    anc, child = getattr(anc, "_parent", None), anc
                kinds = set()
                for r in rd.value_exprs(tnode, e):
                    if r[0] == "handler":
                        kinds.add("handler")
                    elif r[0] == "expr" and isinstance(r[1], ast.Call) and (call_name(r[1]) or "").endswith("Error"):
                        kinds.add("built")
                    elif conj_form and r[0] == "expr" and isinstance(r[1], ast.Constant) and r[1].value is None:
                        pass  # "no error": excluded by the conjunct that tests the error's existence
                    else:
                        kinds.add("other")
                run.ob("NI-1", bound and kinds <= {"handler", "built"} and kinds,
                       f"{q} L{n.lineno}: error object `{e}` is bound on every path to the mode test",
                       f"`{e}` is not an already constructed / caught error on every path to the test ({sorted(kinds)})",
                       module=mod, node=stmt, func=q, construct=norm(stmt.test) + " [error binding]")
                other = [v for v in (stmt.test.values if isinstance(stmt.test, ast.BoolOp) and conj_form is not True else []) if v is not n]
                # the extra disjunct may only inspect the caught error (ownership test), not input or mode
                for v in other:
                    names = {x.id for x in ast.walk(v) if isinstance(x, ast.Name)}
                    run.ob("NI-1", e in names, f"{q} L{n.lineno}: extra disjunct inspects the caught error",
                           f"`{norm(v)}` does not refer to the error `{e}`", module=mod, node=stmt, func=q,
                           construct=norm(stmt.test) + " [disjunct]")
                mode_tests.append((mod, q, fn, stmt, e))
                ni3(run, mod, q, fn, cfg, tnode, stmt, e, reached_warnings)
            # WarningEvent construction sites
            for c in walk_no_nested(fn):
                if isinstance(c, ast.Call) and call_name(c) == "WarningEvent":
                    warning_sites.append((mod, q, c))
            # NI-2
            for c in walk_no_nested(fn):
                if not isinstance(c, ast.Call):
                    continue
                cands = []
                if isinstance(c.func, ast.Name) and c.func.id in by_name:
                    cands = [x for x in by_name[c.func.id] if "." not in x[1]]
                elif isinstance(c.func, ast.Attribute) and c.func.attr in by_name:
                    meths = [x for x in by_name[c.func.attr] if "." in x[1]]
                    if meths:
                        rc = class_of_receiver(fn, c, project)
                        all_classes = classes_defining(project, c.func.attr)
                        if rc is not None and rc in all_classes:
                            cands = [x for x in meths if x[1].split(".")[0] == rc]
                        else:
                            cands = meths  # receiver unknown: over-approximate
                if not cands:
                    continue
                k = kwarg(c, MODE)
                pos = None
                if k is None:
                    tfn = cands[0][2]
                    pnames = [a.arg for a in tfn.args.args]
                    off = 1 if pnames and pnames[0] in ("self", "cls") and isinstance(c.func, ast.Attribute) else 0
                    idx = pnames.index(MODE) - off if MODE in pnames else None
                    if idx is not None and idx < len(c.args):
                        pos = c.args[idx]
                v = k if k is not None else pos
                if MODE not in params:
                    # caller has no mode of its own (e.g. a helper): nothing to thread
                    continue
                ok = isinstance(v, ast.Name) and v.id == MODE
                why = "omitted (callee falls back to strict)" if v is None else f"passed as `{norm(v)}`"
                run.ob("NI-2", ok, f"{q} L{c.lineno}: {norm(c.func)}(... abort_on_error=abort_on_error)",
                       f"the mode flag is {why} in the call to {norm(c.func)}: below this call the two modes diverge",
                       module=mod, node=c, func=q, construct=f"{norm(c.func)}(...) at call #{call_index(fn, c)}")
    # who constructs warnings
    for mod, q, c in warning_sites:
        run.ob("NI-3", id(c) in reached_warnings, f"{q} L{c.lineno}: WarningEvent is the warn branch of a mode test",
               "a WarningEvent is constructed outside the false continuation of a mode test (a warning strict mode has no error for)",
               module=mod, node=c, func=q, construct=norm(c))
    # (each site is the warn branch of a mode test and each mode test reaches a warning - above; two tests of the same
    # decision may share one site, e.g. an early strict raise and a late report of the same error)
    run.ob("NI-3", len(warning_sites) <= len(mode_tests), "no more WarningEvent sites than mode tests",
           f"{len(warning_sites)} WarningEvent construction sites vs {len(mode_tests)} mode tests")
    run.cover(mode_tests=len(mode_tests), warning_sites=len(warning_sites), functions_with_mode=len(fm))
    run.floor("NI-2", 30, "threaded call sites")
    run.require(len(mode_tests) >= 9, f"C07: only {len(mode_tests)} mode tests found (9 confirmed by hand)")
    # NI-4 "for an out-of-range value the offending event is emitted first, then the warning": the primitive walker's own
    # event precedes any warning on every completed path (the path-summary rule of C02-B3, judged here for this clause)
    from ..roles import MarshalRoles
    from .c02 import primitive_event_once
    primitive_event_once(run, MarshalRoles(project), "NI-4")
    # NI-5 (= C08-Y2): where strict mode raises an overrun of a region, warn mode's first warning wraps that same error: the
    # owner of the region recovers (warning, resume at the region's end) exactly from overruns of its own regions and hands
    # on the others - an ownership test the wrong way round lets the error leave warn mode as an exception instead
    from ..report import RuleView
    from . import c08
    try:
        c08.y2(RuleView(run, "Y2", "NI-5"), c08.WarnLedger(RuleView(run, "-", "-"), project, "warn"))
    except AnalysisError as ex:
        run.info(f"NI-5: the owners' recovery handlers could not be followed ({ex}); not judged here (C08 reports it)")


def check_threading(run, project, rule="NI-2"):
    """NI-2 as a stand-alone rule (also used by C08: warn mode must reach every callee)."""
    fm = functions_with_mode(project)
    by_name = {}
    for (modname, q), (mod, fn) in fm.items():
        by_name.setdefault(fn.name, []).append((modname, q, fn))
    n = 0
    for modname in (MARSHAL, CONSTRAINTS):
        mod = project.module(modname)
        for q, fn in mod.functions().items():
            params = [a.arg for a in fn.args.args + fn.args.kwonlyargs]
            if MODE not in params:
                continue
            for c in walk_no_nested(fn):
                if not isinstance(c, ast.Call):
                    continue
                cands = []
                if isinstance(c.func, ast.Name) and c.func.id in by_name:
                    cands = [x for x in by_name[c.func.id] if "." not in x[1]]
                elif isinstance(c.func, ast.Attribute) and c.func.attr in by_name:
                    meths = [x for x in by_name[c.func.attr] if "." in x[1]]
                    if meths:
                        rc = class_of_receiver(fn, c, project)
                        all_classes = classes_defining(project, c.func.attr)
                        cands = [x for x in meths if x[1].split(".")[0] == rc] if rc is not None and rc in all_classes else meths
                if not cands:
                    continue
                k = kwarg(c, MODE)
                v = k
                if v is None:
                    tfn = cands[0][2]
                    pnames = [a.arg for a in tfn.args.args]
                    off = 1 if pnames and pnames[0] in ("self", "cls") and isinstance(c.func, ast.Attribute) else 0
                    idx = pnames.index(MODE) - off if MODE in pnames else None
                    if idx is not None and idx < len(c.args):
                        v = c.args[idx]
                ok = isinstance(v, ast.Name) and v.id == MODE
                why = "omitted (callee falls back to strict)" if v is None else f"passed as `{norm(v)}`"
                n += 1
                run.ob(rule, ok, f"{q} L{c.lineno}: {norm(c.func)}(... abort_on_error=abort_on_error)",
                       f"the mode flag is {why} in the call to {norm(c.func)}: everything decoded below this call runs in the "
                       "wrong mode (in warn mode a problem there aborts decoding instead of being reported)",
                       module=mod, node=c, func=q, construct=f"{norm(c.func)}(...) at call #{call_index(fn, c)}")
    return n


def default_of(fn, name):
    args = fn.args.args
    defaults = [None] * (len(args) - len(fn.args.defaults)) + list(fn.args.defaults)
    for a, d in zip(args, defaults):
        if a.arg == name:
            return d
    for a, d in zip(fn.args.kwonlyargs, fn.args.kw_defaults):
        if a.arg == name:
            return d
    return None


def classes_defining(project, meth):
    out = set()
    for modname in (MARSHAL, CONSTRAINTS):
        for q in project.module(modname).functions():
            if "." in q and q.split(".")[-1] == meth:
                out.add(q.split(".")[0])
    return out


def call_index(fn, call):
    calls = sorted((c for c in walk_no_nested(fn) if isinstance(c, ast.Call) and norm(c.func) == norm(call.func)),
                   key=order)
    return calls.index(call) + 1


def error_test(t, e):
    """outcome of a test on the error variable `e` where it is known to hold an exception object, else None"""
    if isinstance(t, ast.UnaryOp) and isinstance(t.op, ast.Not):
        v = error_test(t.operand, e)
        return None if v is None else not v
    if isinstance(t, ast.Name) and t.id == e:
        return True
    if isinstance(t, ast.Compare) and len(t.ops) == 1 and isinstance(t.left, ast.Name) and t.left.id == e \
            and isinstance(t.comparators[0], ast.Constant) and t.comparators[0].value is None:
        if isinstance(t.ops[0], (ast.IsNot, ast.NotEq)):
            return True
        if isinstance(t.ops[0], (ast.Is, ast.Eq)):
            return False
    return None


def ni3(run, mod, q, fn, cfg, tnode, stmt, e, reached):
    """From the false edge of the mode test: on every path the first yield is WarningEvent(error=e);
    a MarshalEvent yield is tolerated once if it is built from the value that failed validation."""
    starts = [s for lab, s in tnode.succ if lab == "false"]
    bad = []
    seen = set()
    stack = [(s, 0, frozenset()) for s in starts]   # (node, the primitive's own event seen, names holding WarningEvent(error=e))
    ok_paths = 0
    while stack:
        n, carve, held = stack.pop()
        if (n.id, carve, held) in seen:
            continue
        seen.add((n.id, carve, held))
        if n is cfg.exit or n is cfg.raise_exit:
            bad.append(("exit", n))
            continue
        if n.kind == "test":
            t = n.ast
            # `if e:` / `if e is not None:` / `if not e:` ... - on this path e is the error object (truthy, not None); the same
            # holds for a name the warning was stored in
            known = error_test(t, e)
            for w in held:
                if known is None:
                    known = error_test(t, w)
            if known is not None:
                stack.extend((s, carve, held) for lab, s in n.succ if lab == ("true" if known else "false"))
                continue
            stack.extend((s, carve, held) for _, s in n.succ)
            continue
        if n.kind == "stmt":
            a = n.ast
            if isinstance(a, ast.Return):
                bad.append(("return", n))
                continue
            if isinstance(a, ast.Raise):
                continue
            ys = yields_in(a)
            if ys:
                y = ys[0]
                v = y.value
                if isinstance(y, ast.Yield) and isinstance(v, ast.Name) and v.id in held:
                    ok_paths += 1
                    continue
                if isinstance(y, ast.Yield) and isinstance(v, ast.Call) and call_name(v) == "WarningEvent":
                    arg = kwarg(v, "error") or (v.args[0] if v.args else None)
                    if isinstance(arg, ast.Name) and arg.id == e:
                        reached.add(id(v))
                        ok_paths += 1
                    else:
                        bad.append(("wraps-other", n))
                    continue
                if isinstance(y, ast.Yield) and carve == 0 and fn.name == "process_primitive" and \
                        (isinstance(v, ast.Name) or (isinstance(v, ast.Call) and call_name(v) == "MarshalEvent")):
                    stack.extend((s, 1, held) for _, s in n.succ)  # the offending primitive's own event
                    continue
                bad.append(("other-yield", n))
                continue
            # rebinding e before the warning would wrap a different object
            if isinstance(a, ast.Assign) and any(isinstance(t_, ast.Name) and t_.id == e for t_ in a.targets):
                bad.append(("rebinds-error", n))
                continue
            # the warning may be built now and yielded later: `w = WarningEvent(error=e)`
            if isinstance(a, ast.Assign) and len(a.targets) == 1 and isinstance(a.targets[0], ast.Name):
                v = a.value
                if isinstance(v, ast.Call) and call_name(v) == "WarningEvent":
                    arg = kwarg(v, "error") or (v.args[0] if v.args else None)
                    if isinstance(arg, ast.Name) and arg.id == e:
                        reached.add(id(v))
                        stack.extend((s, carve, held | {a.targets[0].id}) for _, s in n.succ)
                        continue
                if a.targets[0].id in held:
                    held = held - {a.targets[0].id}
        stack.extend((s, carve, held) for _, s in n.succ)
    if bad:
        kind, node = bad[0]
        why = {"exit": "falls off the end", "return": "returns", "wraps-other": "wraps a different error object",
               "other-yield": "yields something else first", "rebinds-error": "re-binds the error variable"}[kind]
        run.ob("NI-3", False, f"{q} L{stmt.lineno}: warn branch",
               f"in warn mode the continuation of this mode test {why} (line {node.lineno}) before yielding "
               f"WarningEvent(error={e}): the warning strict mode's error corresponds to is lost or altered",
               module=mod, node=stmt, func=q, construct=norm(stmt.test) + " [warn branch]")
    else:
        run.ob("NI-3", ok_paths > 0, f"{q} L{stmt.lineno}: warn branch yields WarningEvent(error={e}) first on every path",
               "no path from the mode test reaches a warning", module=mod, node=stmt, func=q,
               construct=norm(stmt.test) + " [warn branch]")
