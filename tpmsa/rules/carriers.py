"""Error carriers: the detail attributes of the decoder's exceptions are the constructor arguments.

Every property that speaks about what an error *carries* (surplus bytes, command code, region, violator, value ...)
relies on the exception classes of common/error.py storing what they are given.  On the path summaries of every
`__init__` (and of set_bytes_remaining) each detail attribute named like a parameter is stored exactly once per path
with that parameter's value - `bytes(x)` is accepted for the remaining bytes, which may arrive as an iterator.
"""
from __future__ import annotations

import ast

from .. import paths
from ..project import AnalysisError, norm

ERRORS = "tpmstream.common.error"


def check_carriers(run, project, rule, attrs):
    """attrs: detail attribute names this property relies on"""
    mod = project.module(ERRORS)
    n = 0
    for q, fn in sorted(mod.functions().items()):
        if "." not in q:
            continue
        cls, meth = q.rsplit(".", 1)
        if meth not in ("__init__", "set_bytes_remaining"):
            continue
        params = [a.arg for a in fn.args.args[1:]] + [a.arg for a in fn.args.kwonlyargs]
        mine = [p for p in params if p in attrs] if meth == "__init__" else []
        if meth == "set_bytes_remaining":
            if "bytes_remaining" not in attrs:
                continue
            mine = ["bytes_remaining"]
        if not mine:
            continue
        for p in paths.summarise(mod, fn):
            if p.end == "raise":
                continue
            stores = {}
            for k, e, node in p.effects:
                if k == "store" and isinstance(e, ast.Assign) and isinstance(e.targets[0], ast.Attribute) \
                        and norm(e.targets[0].value) == "self":
                    stores.setdefault(e.targets[0].attr, []).append((paths.text(e.value), node))
            # details handed to the base class constructor under the same name are stored there (checked on that class)
            handed = set()
            cdef = next((c for c in mod.tree.body if isinstance(c, ast.ClassDef) and c.name == cls), None)
            base = norm(cdef.bases[0]) if cdef is not None and cdef.bases else None
            binit = mod.functions().get(f"{base}.__init__") if base else None
            if binit is not None:
                bparams = [x.arg for x in binit.args.args[1:]]
                for k, e, node in p.effects:
                    if k == "call" and isinstance(e, ast.Call) and norm(e.func) == "super().__init__":
                        for i, x in enumerate(e.args):
                            if isinstance(x, ast.Name) and i < len(bparams) and bparams[i] == x.id:
                                handed.add(x.id)
                        for kw in e.keywords:
                            if kw.arg and isinstance(kw.value, ast.Name) and kw.value.id == kw.arg:
                                handed.add(kw.arg)
                            if kw.arg is None and fn.args.kwarg is not None and norm(kw.value) == fn.args.kwarg.arg:
                                handed.add("**")
            for a in mine:
                src = a if meth == "__init__" else params[0]
                got = stores.get(a, [])
                if not got and a in handed:
                    continue
                ok_vals = {src, f"bytes({src})"} if a == "bytes_remaining" else {src}
                n += 1
                lab = " & ".join(("" if v else "not ") + c for c, v, _ in p.cond) or "always"
                run.ob(rule, len(got) == 1 and got[0][0] in ok_vals, f"{q}: self.{a} is the given {src}",
                       f"{cls} stores {[g[0] for g in got]} as `{a}` on the path [{lab}] instead of the `{src}` it was given: "
                       "the error no longer carries exactly what the decoder attached", module=mod,
                       node=got[0][1] if got else fn, func=q, construct=f"{q} self.{a}")
    if n == 0:
        raise AnalysisError(f"carriers: no error class stores any of {sorted(attrs)}")
