"""C02 - re-encoding the events of a decodable input reproduces the input bytes.

B1 reader/writer agreement: the decoder reads `_int_size` bytes big-endian with signedness
   `_signed` (primitive walker); the encoder's defaults resolve to the same three sources and are
   passed unchanged down the delegation chain _INT.to_bytes -> value.to_bytes -> int.to_bytes.
B2 to_bytes(event) is b"" for every InfoEvent and every `...`-valued event and
   `event.value.to_bytes()` (no overriding arguments) otherwise.
B3 unmarshal maps the events one-to-one and in order.
B4 only _INT and AlgValue define to_bytes (no per-type override in any layout module).
B5 every valid-value set in L lies inside the representable range of its width/signedness
   (else to_bytes raises OverflowError on a value decoding accepted).
Not decided: byte-for-byte equality on concrete inputs.
"""
from __future__ import annotations

import ast

from .. import ctx
from ..fnview import FnView
from .. import paths
from ..pattern import match
from ..project import AnalysisError, call_name, kwarg, norm, order, walk_no_nested
from ..roles import MarshalRoles

BASE = "tpmstream.spec.common.base_type"
CONSTANTS = "tpmstream.spec.structures.constants"
UNMARSHAL = "tpmstream.io.binary.unmarshal"


def reader_triple(run, roles, emit=True):
    """(count source, byteorder constant, signed source) of the primitive walker + obligations."""
    fn = roles.walkers.get("process_primitive")
    if fn is None:
        raise AnalysisError("primitive walker not found")
    V = FnView(roles.mod, fn)
    mod = roles.mod
    t = fn.args.args[0].arg
    conv = [c for c in walk_no_nested(fn) if isinstance(c, ast.Call) and norm(c.func) == "int.from_bytes"]
    if not conv:
        R = manual_reader(run if emit else None, roles, fn, V, t)
        if R is not None:
            return R
    if len(conv) != 1:
        raise AnalysisError(f"{len(conv)} int.from_bytes calls in the primitive walker")
    c = conv[0]
    bo = kwarg(c, "byteorder") or (c.args[1] if len(c.args) > 1 else None)
    sg = kwarg(c, "signed")
    bo_r = V.resolve(bo, c) if bo is not None else None
    sg_r = V.resolve(sg, c) if sg is not None else None
    # the data list is filled by exactly one byte request per loop iteration, loop count = _int_size
    # int.from_bytes(<data>): <data> is the accumulator, possibly through value-preserving conversions and single-definition names
    data = c.args[0] if c.args else None
    aliases = set()
    for _ in range(6):
        if isinstance(data, ast.Call) and call_name(data) in ("bytes", "bytearray", "list", "tuple") and len(data.args) == 1 and not data.keywords:
            data = data.args[0]
            continue
        if isinstance(data, ast.Name):
            defs = [a for a in walk_no_nested(fn) if isinstance(a, ast.Assign) and len(a.targets) == 1 and norm(a.targets[0]) == data.id]
            if len(defs) == 1 and isinstance(defs[0].value, ast.Call) and call_name(defs[0].value) in ("bytes", "bytearray", "list", "tuple") \
                    and len(defs[0].value.args) == 1:
                data = defs[0].value.args[0]
                continue
            # a plain alias of the accumulator (`data = acc` - e.g. what an inlined reader helper returned)
            if len(defs) == 1 and isinstance(defs[0].value, ast.Name):
                aliases.add(data.id)
                data = defs[0].value
                continue
        break
    loops = [n for n in walk_no_nested(fn) if isinstance(n, ast.For)]
    okloop, count_src = False, None
    for lp in loops:
        ys = [y for y in ast.walk(lp) if isinstance(y, ast.Yield)]
        if len(ys) != 1:
            continue
        y = ys[0]
        isreq = y.value is None or (isinstance(y.value, ast.Constant) and y.value.value is None)
        it = lp.iter
        if not (isreq and isinstance(it, ast.Call) and call_name(it) == "range" and len(it.args) == 1):
            continue
        count_src = V.resolve(it.args[0], lp)
        asg = y._parent
        appended = [a for a in ast.walk(lp) if isinstance(a, ast.Call) and isinstance(a.func, ast.Attribute)
                    and a.func.attr == "append" and data is not None and norm(a.func.value) == norm(data)]
        # the requested byte is appended: `b = yield None; data.append(b)` or `data.append((yield None))`
        direct = len(appended) == 1 and len(appended[0].args) == 1 and appended[0].args[0] is y and len(lp.body) == 1
        named = isinstance(asg, ast.Assign) and len(appended) == 1 and norm(appended[0].args[0]) == norm(asg.targets[0]) and len(lp.body) == 2
        # ... to an accumulator that starts empty and is written nowhere else
        inits = [a for a in walk_no_nested(fn) if isinstance(a, ast.Assign) and data is not None and
                 any(norm(t_) == norm(data) for t_ in a.targets)]
        empty = len(inits) == 1 and order(inits[0]) < order(lp) and (
            (isinstance(inits[0].value, (ast.List,)) and not inits[0].value.elts) or
            (isinstance(inits[0].value, ast.Call) and call_name(inits[0].value) in ("list", "bytearray") and not inits[0].value.args
             and not inits[0].value.keywords))
        others = [a for a in walk_no_nested(fn) if isinstance(a, ast.Call) and isinstance(a.func, ast.Attribute) and data is not None
                  and (norm(a.func.value) == norm(data) or norm(a.func.value) in aliases) and a not in appended and a.func.attr in
                  ("append", "extend", "insert", "pop", "remove", "clear", "reverse", "sort", "__setitem__")]
        okloop = (direct or named) and empty and not others
    return dict(V=V, call=c, byteorder=bo_r, signed=sg_r, count=count_src, loop_ok=okloop, tparam=t, mod=mod, fn=fn,
                is_decoded=lambda e, at: V.resolve(e, at) is c)


def manual_reader(run, roles, fn, V, t):
    """The second recognised reader idiom: in-place big-endian accumulation
        acc = 0; for _ in range(N): b = yield None; acc = (acc << 8) | b        (or acc * 256 + b)
        if <T>._signed: if acc >= 1 << (8 * N - 1): acc -= 1 << (8 * N)          (two's complement)
    It is translated into the same (count, byte order, signedness) triple; the threshold of the sign correction is
    checked exactly (a value is negative iff its top bit is set).  Anything else is not recognised (None)."""
    mod = roles.mod
    for lp in [n for n in walk_no_nested(fn) if isinstance(n, ast.For)]:
        it = lp.iter
        if not (isinstance(it, ast.Call) and call_name(it) == "range" and len(it.args) == 1 and len(lp.body) == 2):
            continue
        rd, upd = lp.body
        if not (isinstance(rd, ast.Assign) and isinstance(rd.value, ast.Yield) and isinstance(rd.targets[0], ast.Name)
                and (rd.value.value is None or (isinstance(rd.value.value, ast.Constant) and rd.value.value.value is None))):
            continue
        b = rd.targets[0].id
        if not (isinstance(upd, ast.Assign) and isinstance(upd.targets[0], ast.Name)):
            continue
        acc = upd.targets[0].id
        big = any(match(upd.value, pat) is not None for pat in (f"{acc} << 8 | {b}", f"({acc} << 8) + {b}", f"{acc} * 256 + {b}",
                                                              f"{b} | {acc} << 8", f"{b} + {acc} * 256", f"{acc} * 256 | {b}"))
        little = False
        if not big:
            continue
        init = [a for a in walk_no_nested(fn) if isinstance(a, ast.Assign) and norm(a.targets[0]) == acc and a is not upd
                and order(a) < order(lp)]
        if not (len(init) == 1 and isinstance(init[0].value, ast.Constant) and init[0].value.value == 0):
            continue
        n_expr = V.resolve(it.args[0], lp)
        n_txt = {norm(it.args[0]), norm(n_expr)}
        # sign correction
        signed_src, thr_ok, found = None, None, False
        for st in [x for x in walk_no_nested(fn) if isinstance(x, ast.If) and order(x) > order(lp)]:
            if "_signed" not in norm(st.test):
                continue
            inner = [x for x in st.body if isinstance(x, ast.If)]
            tests = []
            if inner:
                signed_src = st.test
                tests = [(inner[0].test, inner[0].body)]
            elif isinstance(st.test, ast.BoolOp) and isinstance(st.test.op, ast.And) and len(st.test.values) == 2:
                signed_src = st.test.values[0]
                tests = [(st.test.values[1], st.body)]
            for test, body in tests:
                found = True
                sub = [x for x in body if isinstance(x, ast.AugAssign) and isinstance(x.op, ast.Sub) and norm(x.target) == acc]
                full = {f"1 << 8 * {n}" for n in n_txt} | {f"2 ** (8 * {n})" for n in n_txt} | {f"256 ** {n}" for n in n_txt}
                half = {f"1 << 8 * {n} - 1" for n in n_txt} | {f"2 ** (8 * {n} - 1)" for n in n_txt}
                sub_ok = len(sub) == 1 and norm(V.resolve(sub[0].value, sub[0])) in full

                def R_(e):
                    return norm(V.resolve(e, st)) if isinstance(e, ast.Name) else norm(e)
                tt = None
                if isinstance(test, ast.Compare) and len(test.ops) == 1 and norm(test.left) == acc:
                    rhs = R_(test.comparators[0])
                    if isinstance(test.ops[0], ast.GtE) and rhs in half:
                        tt = True
                    elif isinstance(test.ops[0], ast.Gt) and rhs in {f"({h}) - 1" for h in half} | {f"{h} - 1" for h in half}:
                        tt = True
                    elif isinstance(test.ops[0], (ast.Gt, ast.GtE)) and any(h in rhs for h in half):
                        tt = False
                elif isinstance(test, ast.BinOp) and isinstance(test.op, ast.BitAnd) and norm(test.left) == acc and R_(test.right) in half:
                    tt = True
                if tt is None:
                    return None
                thr_ok = tt and sub_ok
                if run is not None:
                    run.ob("B1", thr_ok, "reader: two's-complement correction exactly when the top bit is set",
                           f"the sign correction `{norm(test)}` / `{norm(sub[0]) if sub else None}` is off: the minimum value "
                           f"-2^(8n-1) (bit pattern 0x80..00) decodes as +2^(8n-1), or the wrong modulus is subtracted", module=mod,
                           node=test, func=fn.name, construct="int.from_bytes signed")
        if not found:
            signed_src = None
        call = ast.Call(func=ast.Attribute(value=ast.Name(id="int", ctx=ast.Load()), attr="from_bytes", ctx=ast.Load()),
                        args=[ast.Name(id=acc, ctx=ast.Load())], keywords=[])
        ast.copy_location(call, upd)
        ast.fix_missing_locations(call)
        call._parent = upd
        sg = signed_src if (signed_src is not None and thr_ok is not False) else (signed_src if signed_src is not None else None)
        return dict(V=V, call=call, byteorder=ast.Constant(value="big"), signed=sg, count=n_expr, loop_ok=True, tparam=t, mod=mod, fn=fn,
                    is_decoded=lambda e, at: isinstance(e, ast.Name) and e.id == acc or (isinstance(V.resolve(e, at), ast.Name)
                                                                                         and V.resolve(e, at).id == acc),
                    manual=True)
    return None


def primitive_event_once(run, roles, rule):
    """every completed decode of a primitive emits that field's own event exactly once, before any warning about it -
    in both modes (path summaries of the primitive walker)"""
    fn = roles.walkers.get("process_primitive")
    if fn is None:
        raise AnalysisError("primitive walker not found")
    mod = roles.mod
    t, pth = fn.args.args[0].arg, fn.args.args[1].arg
    ps = [p for p in paths.summarise(mod, fn) if p.end == "return"]
    if not ps:
        raise AnalysisError("primitive walker: no returning path")
    for p in ps:
        ys = [(i, e) for i, (k, e, _n) in enumerate(p.effects) if k == "yield" and e is not None and isinstance(e, ast.Call)]
        evs = [(i, e) for i, e in ys if call_name(e) == "MarshalEvent"]
        warns = [(i, e) for i, e in ys if call_name(e) == "WarningEvent"]
        lab = " & ".join(("" if v else "not ") + a for a, v, _ in p.cond if "size_constraints" not in a) or "always"
        own = [(i, e) for i, e in evs if len(e.args) == 3 and norm(e.args[0]) == pth and norm(e.args[1]) == t]
        ok = len(own) == 1 and len(evs) == 1 and all(i > own[0][0] for i, _ in warns)
        run.ob(rule, ok, f"primitive walker [{lab}]: the field's own event is emitted exactly once, before any warning",
               f"on the path [{lab}] a completed primitive emits {len(own)} events of its own and {len(warns)} warning(s)"
               f"{' before its event' if own and any(i < own[0][0] for i, _ in warns) else ''}: " +
               ("the warning about a value precedes the event carrying that value (the offending event must come first)"
                if len(own) == 1 and len(evs) == 1 else
                f"a decoded field {'disappears from' if not own else 'is duplicated in'} the event stream (its bytes are then missing from / "
                "doubled in the re-encoding, and every later field is misaligned)"), module=mod, node=p.node or fn, func=fn.name,
               construct="primitive event once")


def check(run, project):
    roles = MarshalRoles(project)
    L = ctx.layout(project)
    run.explanation = ("def-use comparison of the decoder's (width, byte order, signedness) sources with the encoder's "
                       "defaults and delegation chain; shape of to_bytes(event)/unmarshal; who-defines-to_bytes over all "
                       "layout modules; range containment of every valid set (exhaustive over L)")
    # B9 (= C07-NI-1): an input strict mode ACCEPTS re-encodes to itself only if strict mode never swallows a size error: every
    # handler re-raises in strict mode (else a region is skipped, its bytes appear in no event, and the decode still succeeds)
    from ..report import RuleView as _RVm
    from . import c07 as _c07
    try:
        _c07.check(_RVm(run, "NI-1", "B9"), project)
    except AnalysisError as ex:
        run.info(f"B9: the mode tests could not be followed ({ex}); not judged here (C07 reports it)")
    b1(run, project, roles)
    primitive_event_once(run, roles, "B3")
    b2_b3(run, project)
    b4(run, project)
    b5(run, L)
    b6(run, project)
    # B7 (= C04-V4 / C16-O4): what is re-encoded is the member a handle-range value was decoded to - its value must be the
    # number that was decoded (`NamedRange.by_number(n)` = the member with value n), else the bytes change on the way back
    from . import namedrange
    namedrange.check(run, "B7", project.module("tpmstream.spec.common.values"))
    # B8 (= C01-W12): a generator of the decode core that is created and thrown away stands for bytes that are consumed
    # (or an error that should stop the decode) without any event - the events no longer add up to the input
    from .shared import discarded_generators
    discarded_generators(run, project, "B8")
    # B10 (= C01-W0): a field re-encodes to the bytes at its own offset only if it was decoded with the width the layout
    # declares for it at that position: the decode facets (field order and declared types) of all types equal the snapshot
    from . import c20 as _c20
    try:
        _c20.t6(run, project, L, facets={"decode"}, rule="B10")
    except AnalysisError as ex:
        run.info(f"B10: the layout tables could not be compared ({ex}); not judged here (C01 / C20 report it)")
    run.floor("B5", 100, "primitive types")


def b1(run, project, roles):
    R = reader_triple(run, roles)
    mod, fn, t = R["mod"], R["fn"], R["tparam"]
    run.ob("B1", R["loop_ok"], "reader: one byte request per loop iteration, appended in order",
           "the read loop of the primitive walker no longer appends exactly the requested byte per iteration",
           module=mod, node=R["call"], func=fn.name, construct="read loop")
    run.ob("B1", R["count"] is not None and norm(R["count"]) == f"{t}._int_size", "reader: width = tpm_type._int_size",
           f"the number of bytes read is `{norm(R['count']) if R['count'] is not None else None}`", module=mod,
           node=R["call"], func=fn.name, construct="read width")
    bo = R["byteorder"]
    run.ob("B1", isinstance(bo, ast.Constant) and bo.value == "big", "reader: byte order is the constant 'big'",
           f"byteorder is `{norm(bo) if bo is not None else None}`", module=mod, node=R["call"], func=fn.name,
           construct="int.from_bytes byteorder")
    sg = R["signed"]
    run.ob("B1", sg is not None and norm(sg) == f"{t}._signed", "reader: signedness = tpm_type._signed",
           f"signed is `{norm(sg) if sg is not None else None}`", module=mod, node=R["call"], func=fn.name,
           construct="int.from_bytes signed")
    # what is re-encoded is the event's value: it must be the typed value (a plain int has int.to_bytes' defaults:
    # one byte, unsigned)
    from .c04 import find_event_yield
    for y, ev in find_event_yield(R["V"]):
        tv = R["V"].resolve(ev.args[2], y) if len(ev.args) == 3 else None
        okv = isinstance(tv, ast.Call) and norm(tv.func) == t
        run.ob("B1", okv, f"event at L{y.lineno} carries the typed value (so to_bytes() knows width and signedness)",
               f"the event carries `{norm(tv) if tv is not None else None}`: re-encoding it uses int.to_bytes' defaults (1 byte, unsigned) "
               "instead of the declared width", module=mod, node=ev, func=fn.name, construct="event value class")
    # writer
    base = project.module(BASE)
    f = base.functions().get("_INT.to_bytes")
    if f is None:
        raise AnalysisError("B1: _INT.to_bytes not found")
    W = FnView(base, f)
    params = [a.arg for a in f.args.args]
    defaults = dict(zip(params[len(params) - len(f.args.defaults):], f.args.defaults))
    rets = [s for s in ast.walk(f) if isinstance(s, ast.Return)]
    if len(rets) != 1 or not isinstance(rets[0].value, ast.Call):
        raise AnalysisError("B1: _INT.to_bytes has no single `return <call>`")
    call = rets[0].value
    run.ob("B1", norm(call.func) == "self._value.to_bytes", "writer: delegates to the wrapped value's to_bytes",
           f"returns `{norm(call.func)}(...)`", module=base, node=call, func="_INT.to_bytes", construct="delegation")

    def source(arg, want_attr):
        """value passed for an argument: param with default None replaced by self.<attr> under `if p is None`"""
        if arg is None:
            return None
        if isinstance(arg, ast.Name) and arg.id in params:
            recs = W.defs_at(call, arg.id)
            vals = set()
            for r in recs:
                if r[0] == "param":
                    vals.add("param:" + (norm(defaults[arg.id]) if arg.id in defaults else "<required>"))
                elif r[0] == "expr":
                    vals.add(norm(r[1]))
            return vals
        return {norm(arg)}

    size_arg = call.args[0] if call.args else kwarg(call, "length")
    s = source(size_arg, "_int_size")
    run.ob("B1", s == {"param:None", "self._int_size"}, "writer: width defaults to self._int_size",
           f"size argument sources: {sorted(s) if s else None}", module=base, node=call, func="_INT.to_bytes", construct="to_bytes width")
    s = source(kwarg(call, "signed"), "_signed")
    run.ob("B1", s == {"param:None", "self._signed"}, "writer: signedness defaults to self._signed",
           f"signed argument sources: {sorted(s) if s else None}", module=base, node=call, func="_INT.to_bytes", construct="to_bytes signed")
    s = source(kwarg(call, "byteorder") or (call.args[1] if len(call.args) > 1 else None), None)
    want = {"param:" + norm(R["byteorder"])} if R["byteorder"] is not None else None
    run.ob("B1", s == want, "writer: byte order default equals the reader's constant",
           f"byteorder argument sources: {sorted(s) if s else None}; reader uses {norm(R['byteorder']) if R['byteorder'] is not None else None}",
           module=base, node=call, func="_INT.to_bytes", construct="to_bytes byteorder")
    # the guards, as a decision table over the path summaries: which width / signedness reaches int.to_bytes under which
    # truth value of `<param> is None` (reaching definitions alone do not see the polarity of the guards)
    pw, ps_ = (params[1] if len(params) > 1 else "size"), ("signed" if "signed" in params else None)
    n_tab = 0
    for p in paths.summarise(base, f):
        if p.end != "return" or not isinstance(p.value, ast.Call):
            continue
        c = p.value
        a_w = c.args[0] if c.args else kwarg(c, "length")
        a_s = kwarg(c, "signed")
        for par, attr, got in ((pw, "self._int_size", a_w), (ps_, "self._signed", a_s)):
            if par is None or got is None:
                continue
            t = p.truth(f"{par} is None")
            gt = paths.text(got)
            if t is None:
                # the argument is chosen without a test on this path: both readings must be offered by a conditional value
                ok = gt in (f"{attr} if {par} is None else {par}", f"{par} if {par} is not None else {attr}")
            else:
                ok = gt == (attr if t else par)
            n_tab += 1
            lab = " & ".join(("" if v else "not ") + a for a, v, _ in p.cond) or "always"
            run.ob("B1", ok, f"_INT.to_bytes [{lab}]: {par} reaches int.to_bytes as {attr if t else par}",
                   f"on the path [{lab}] int.to_bytes receives `{gt}` for {par}: required is the type's own {attr} exactly when the caller "
                   f"passed none (`{par} is None`), the caller's value otherwise - a re-encoded value gets a wrong width / signedness",
                   module=base, node=p.node or call, func="_INT.to_bytes", construct=f"to_bytes {par} guard")
    run.require(n_tab >= 2, f"B1: only {n_tab} guard obligations for _INT.to_bytes")
    # AlgValue.to_bytes passes everything through
    cm = project.module(CONSTANTS)
    a = cm.functions().get("AlgValue.to_bytes")
    if a is None:
        raise AnalysisError("B1: AlgValue.to_bytes not found")
    rets = [s_ for s_ in ast.walk(a) if isinstance(s_, ast.Return)]
    ok = len(rets) == 1 and a.args.vararg is not None and a.args.kwarg is not None and \
        norm(rets[0].value) == f"self._value.to_bytes(*{a.args.vararg.arg}, **{a.args.kwarg.arg})"
    if not ok and len(rets) == 1 and a.args.vararg is None and a.args.kwarg is None:
        # the same forwarding with int.to_bytes' own signature spelled out: (length=1, byteorder='big', *, signed=False)
        pos = [x.arg for x in a.args.args][1:]
        dfl = [norm(d) for d in a.args.defaults]
        kwo = [(x.arg, norm(d) if d is not None else None) for x, d in zip(a.args.kwonlyargs, a.args.kw_defaults)]
        if pos == ["length", "byteorder"] and dfl == ["1", "'big'"] and kwo == [("signed", "False")]:
            c = rets[0].value
            if isinstance(c, ast.Call) and norm(c.func) == "self._value.to_bytes":
                got = {"length": None, "byteorder": None, "signed": None}
                for p_, x in zip(("length", "byteorder"), c.args):
                    got[p_] = norm(x)
                for k in c.keywords:
                    if k.arg in got:
                        got[k.arg] = norm(k.value)
                ok = got == {"length": "length", "byteorder": "byteorder", "signed": "signed"} and len(c.args) <= 2
    run.ob("B1", ok, "AlgValue.to_bytes forwards all arguments to int.to_bytes",
           f"returns `{norm(rets[0].value) if rets else '?'}`", module=cm, node=a, func="AlgValue.to_bytes")


def b2_b3(run, project):
    mod = project.module(UNMARSHAL)
    f = mod.functions().get("to_bytes")
    u = mod.functions().get("unmarshal")
    if f is None or u is None:
        raise AnalysisError("B2: io/binary/unmarshal.py: to_bytes/unmarshal not found")
    ev = f.args.args[0].arg
    # path summaries of to_bytes: outcome as a function of the two guards, however the branches are written
    A, B = f"isinstance({ev}, InfoEvent)", f"{ev}.value is ..."
    enc = f"{ev}.value.to_bytes()"
    spec = [({A: True}, "b''"), ({B: True}, "b''")]
    ps = paths.summarise(mod, f)
    run.require(len(ps) >= 1, "B2: no path through to_bytes")
    for p in ps:
        got = p.value_text() if p.end == "return" else f"<{p.end}>"
        want = paths.decide(spec, enc, p)
        label = " & ".join(("" if v else "not ") + a for a, v, _ in p.cond) or "always"
        what = {"b''": "encode to nothing"}.get(got, "encode as " + str(got))
        if want == {"b''"} and got != "b''":
            kind = "InfoEvent guard" if p.truth(A) else "ellipsis guard"
            why = ("an info event" if p.truth(A) else "a structural (`...`) event") + f" is encoded as `{got}` instead of b\"\""
        elif want == {enc} and got != enc:
            kind, why = "encode return", f"a primitive event is encoded as `{got}` instead of `{enc}`"
        else:
            kind, why = "returns", f"outcome `{got}` does not follow from the two guards alone (expected {sorted(want)})"
        run.ob("B2", want == {got}, f"to_bytes [{label}]: {what}", why, module=mod, node=p.node or f, func="to_bytes",
               construct=kind)
        # `event.value` is only read once the event is known not to be an InfoEvent (which has no value)
        seen_a = None
        for a_, v_, n_ in p.cond:
            if a_ == A:
                seen_a = v_
            elif f"{ev}.value" in a_ and seen_a is not False:
                run.ob("B2", False, f"to_bytes [{label}]: guard order", f"`{a_}` is evaluated before the event is known not to be an "
                       "InfoEvent (AttributeError on info events)", module=mod, node=n_, func="to_bytes", construct="guard dominance")
        if got == enc:
            run.ob("B2", p.truth(A) is False and p.truth(B) is False, f"to_bytes [{label}]: both guards decided before encoding",
                   "a guard does not dominate the encoding return", module=mod, node=p.node or f, func="to_bytes",
                   construct="guard dominance")
    # B3
    evs = u.args.args[0].arg
    ys = [y for y in walk_no_nested(u) if isinstance(y, (ast.Yield, ast.YieldFrom))]
    ok = False
    if len(ys) == 1:
        y = ys[0]
        if isinstance(y, ast.YieldFrom) and isinstance(y.value, ast.GeneratorExp):
            g = y.value
            ok = len(g.generators) == 1 and not g.generators[0].ifs and norm(g.generators[0].iter) in (evs, f"iter({evs})") \
                and isinstance(g.elt, ast.Call) and call_name(g.elt) == "to_bytes" and len(g.elt.args) == 1 \
                and norm(g.elt.args[0]) == norm(g.generators[0].target)
        elif isinstance(y, ast.Yield) and isinstance(y._parent._parent, ast.For):
            lp = y._parent._parent
            ok = norm(lp.iter) in (evs, f"iter({evs})") and len(lp.body) == 1 and isinstance(y.value, ast.Call) and \
                call_name(y.value) == "to_bytes" and norm(y.value.args[0]) == norm(lp.target)
    if not ok:
        # the same statement in another spelling (map(to_bytes, events), a helper): decided on the path summary
        ups = paths.summarise(mod, u)
        if len(ups) == 1 and ups[0].end in ("fall", "return") and (ups[0].value is None or ups[0].value_text() == "None"):
            fx = [(k, e) for k, e, _n in ups[0].effects if k in ("yield", "yieldfrom", "loop", "call", "store")]
            if len(fx) == 1 and fx[0][0] == "yieldfrom" and isinstance(fx[0][1], ast.GeneratorExp):
                g = fx[0][1]
                ok = len(g.generators) == 1 and not g.generators[0].ifs and paths.text(g.generators[0].iter) in (evs, f"iter({evs})") \
                    and isinstance(g.elt, ast.Call) and call_name(g.elt) == "to_bytes" and len(g.elt.args) == 1 and not g.elt.keywords \
                    and paths.text(g.elt.args[0]) == paths.text(g.generators[0].target)
    run.ob("B3", ok, "unmarshal maps events to chunks one-to-one, in order",
           "unmarshal no longer yields exactly to_bytes(e) for each event in order (filtering, reordering or merging)",
           module=mod, node=u, func="unmarshal", construct="unmarshal mapping")
    # Binary.unmarshal facade returns it
    b = project.module("tpmstream.io.binary")
    bu = b.functions().get("Binary.unmarshal")
    if bu is not None:
        rets = [s for s in ast.walk(bu) if isinstance(s, ast.Return)]
        run.ob("B3", len(rets) == 1 and norm(rets[0].value) == f"unmarshal({bu.args.args[0].arg})", "Binary.unmarshal delegates unchanged",
               "Binary.unmarshal no longer returns unmarshal(events)", module=b, node=bu, func="Binary.unmarshal")


def b4(run, project):
    n = 0
    for modname, mod in project.modules.items():
        if not (modname.startswith("tpmstream.spec") or modname.startswith("tpmstream.common")):
            continue
        for q, fn in mod.functions().items():
            if q.split(".")[-1] == "to_bytes" and "." in q:
                n += 1
                ok = (modname == BASE and q == "_INT.to_bytes") or (modname == CONSTANTS and q == "AlgValue.to_bytes")
                run.ob("B4", ok, f"{q} defines to_bytes", f"{q} overrides the byte form of a protocol integer "
                       "(width/order no longer come from the reader's sources)", module=mod, node=fn, func=q)
    run.require(n >= 2, "B4: the two to_bytes definitions were not found")


def b5(run, L):
    for k, c in L.all.items():
        if not L.is_primitive(c):
            continue
        w, s = 8 * L.int_size(c), L.signed(c)
        lo, hi = (-(1 << (w - 1)), (1 << (w - 1)) - 1) if s else (0, (1 << w) - 1)
        iv = L.valid_intervals(c)
        bad = [x for x in iv if x[0] < lo or x[1] > hi]
        run.ob("B5", not bad, f"{k}: valid values fit {w}-bit {'signed' if s else 'unsigned'}",
               f"allowed values {bad[:3]} do not fit the declared width (decode accepts them, to_bytes raises OverflowError)",
               module=c.module, node=c.node, func=k, construct=f"{k} valid range vs width")


def b6(run, project):
    """the re-encoding path has no failure sites of its own: int.to_bytes is the only place where a width
    overflow may be reported, and B5 shows that no allowed value overflows (any other raise/assert on this path
    is either dead or rejects a value that decoding accepted)."""
    sites = [(BASE, "_INT.to_bytes"), (CONSTANTS, "AlgValue.to_bytes"), (UNMARSHAL, "to_bytes"), (UNMARSHAL, "unmarshal")]
    for modname, q in sites:
        mod = project.module(modname)
        fn = mod.functions().get(q)
        if fn is None:
            raise AnalysisError(f"B6: {modname}.{q} not found")
        bad = [n for n in walk_no_nested(fn) if isinstance(n, (ast.Raise, ast.Assert))]
        run.ob("B6", not bad, f"{q}: no failure site of its own on the encode path",
               f"`{norm(bad[0]).splitlines()[0][:90]}`: the encoder can reject a value that decoding accepted (the only legitimate width "
               "check is int.to_bytes itself, and by B5 no allowed value overflows its declared width)" if bad else "",
               module=mod, node=bad[0] if bad else fn, func=q, construct=f"{q} raise/assert")
