"""NamedRange as an abstract data type: constructor composed with its observers.

The class stores its bounds in private attributes; how (half-open start/end, inclusive first/last, a range object ...)
is its own business.  What the properties need is the *composition*: for an object built by `NamedRange(type, basename, a, b)`
(or `(type, basename, a)` = [0, a)), under either choice of `index_nibbles`,
  * `item in r`          is true exactly for  LO <= item < HI,
  * `r.by_number(n)`     gives `type(value=n, name=f"{basename}{sep}{n - LO:0{NIB}x}")` for LO <= n < HI and no member else,
                         with NIB = index_nibbles if given, else ceil((HI - LO - 1).bit_length() / 4.0).
The rule takes every path summary of `__init__` (what each attribute is bound to, as an expression over the constructor's
parameters), substitutes those bindings for `self.<attr>` in the conditions and results of the observers' path summaries,
brings the arithmetic to the linear normal form (integers: `x <= y - 1` is `x < y`) and compares with the table above.
Nothing is evaluated on concrete numbers; attribute names and the stored representation do not matter."""
from __future__ import annotations

import ast

from .. import paths
from ..normalise import _Linear
from ..project import AnalysisError, call_name, norm
from .outcomes import label


class _Subst(ast.NodeTransformer):
    def __init__(self, bindings):
        self.b = bindings

    def visit_Attribute(self, node):
        self.generic_visit(node)
        if isinstance(node.value, ast.Name) and node.value.id == "self" and node.attr in self.b:
            return paths.clone(self.b[node.attr])
        return node


def _canon(e):
    e = _Linear().visit(ast.fix_missing_locations(paths.clone(e)))
    return ast.fix_missing_locations(e)


def _subst_text(S, text_or_ast, bindings):
    e = ast.parse(text_or_ast, mode="eval").body if isinstance(text_or_ast, str) else paths.clone(text_or_ast)
    e = _Subst(bindings).visit(e)
    return _canon(ast.fix_missing_locations(e))


def _atoms_after(S, p, bindings):
    """the path's condition with the constructor's bindings substituted: {canonical atom: truth}"""
    out = {}
    for a, v, node in p.cond:
        if node is None:
            continue
        src = a[len("truthy "):] if a.startswith("truthy ") else a
        try:
            e = _subst_text(S, src, bindings)
        except SyntaxError:
            out[a] = v
            continue
        if a.startswith("truthy "):
            out["truthy " + paths.text(e)] = v
            continue
        t, pol = S.atom(e)
        f = S.fold(e)
        if f is not None:
            if f != v:
                return None  # contradiction: the path is infeasible for this constructor variant
            continue
        out[t] = (v == pol)
    return out


class _V:
    def __init__(self, c):
        self._c = c

    def conds(self):
        return self._c


def check(run, rule, vals):
    fns = vals.functions()
    ini, con, byn = fns.get("NamedRange.__init__"), fns.get("NamedRange.__contains__"), fns.get("NamedRange.by_number")
    if None in (ini, con, byn):
        raise AnalysisError("NamedRange.__init__ / __contains__ / by_number not found")
    params = [a.arg for a in ini.args.args]
    if len(params) < 5:
        raise AnalysisError("NamedRange.__init__ signature changed")
    p_type, p_base, pa, pb = params[1:5]
    p_sep = "sep" if "sep" in params else None
    p_nib = "index_nibbles" if "index_nibbles" in params else None
    variants = []
    for p in paths.summarise(vals, ini):
        if p.end == "raise":
            continue
        bnone = p.truth(f"{pb} is None")
        nnone = p.truth(f"{p_nib} is None") if p_nib else True
        if bnone is None or nnone is None:
            raise AnalysisError(f"NamedRange.__init__: the path [{label(p)}] does not decide `{pb} is None` / `{p_nib} is None`")
        binds = {}
        for k, e, _n in p.effects:
            if k == "store" and isinstance(e, ast.Assign) and len(e.targets) == 1 and isinstance(e.targets[0], ast.Attribute) \
                    and isinstance(e.targets[0].value, ast.Name) and e.targets[0].value.id == "self":
                binds[e.targets[0].attr] = _Subst(binds).visit(paths.clone(e.value))
        lo, hi = ("0", pa) if bnone else (pa, pb)
        variants.append((p, binds, lo, hi, nnone))
    run.require(len(variants) >= 2, "NamedRange.__init__ has fewer than two constructor variants")
    # ---- membership
    it = con.args.args[1].arg
    SC = paths.Summariser(vals, con, predicate=True)
    cps = SC.paths()
    n = 0
    for ip, binds, lo, hi, _nn in variants:
        A, B = paths.text(_canon(ast.parse(f"{it} < {lo}", mode="eval").body)), paths.text(_canon(ast.parse(f"{it} < {hi}", mode="eval").body))
        A, polA = SC.atom(ast.parse(A, mode="eval").body)
        B, polB = SC.atom(ast.parse(B, mode="eval").body)
        for p in cps:
            c = _atoms_after(SC, p, binds)
            if c is None:
                continue
            rng_atoms = [a for a in c if a.startswith(f"{it} in range(")]
            rows = [({A: not polA, B: polB}, "True")]
            for ra in rng_atoms:   # `item in range(LO, HI)` is the same statement
                if ra == f"{it} in range({lo}, {hi})":
                    rows = [({ra: True}, "True")]
            want = paths.decide(rows, "False", _V(c))
            got = p.value_text()
            n += 1
            run.ob(rule, want == {got}, f"NamedRange({lo}, {hi}): `{it} in r` [{label(p)}] is {got}",
                   f"for a NamedRange built to span [{lo}, {hi}) the membership test answers {got} on the path [{label(p)}] (with the "
                   f"constructor's bindings: {sorted((k, v) for k, v in c.items())}), required: {' or '.join(sorted(want))}: membership is "
                   "not exactly start <= item < end", module=vals, node=p.node or con, func="NamedRange.__contains__",
                   construct="NamedRange.__contains__")
    run.require(n >= 4, f"NamedRange: only {n} membership obligations")
    # ---- by_number
    num = byn.args.args[1].arg
    SB = paths.Summariser(vals, byn)
    bps = SB.paths()
    n = 0
    for ip, binds, lo, hi, nib_none in variants:
        nib = f"ceil(({hi} - {lo} - 1).bit_length() / 4.0)" if nib_none else p_nib
        nib = paths.text(_canon(ast.parse(nib, mode="eval").body))
        sep = p_sep or "'.'"
        off = paths.text(_canon(ast.parse(f"int({num}) - {lo}", mode="eval").body))
        off2 = paths.text(_canon(ast.parse(f"{num} - {lo}", mode="eval").body))
        # (the member's value is the number looked up - as given, or as a plain int: the same number)
        members = [f"{p_type}(value={v_}, name=f'{{{p_base}}}{{{sep}}}{{{o}:0{{{nib}}}x}}')" for o in (off, off2) for v_ in (num, f"int({num})")]
        A, polA = SB.atom(_canon(ast.parse(f"{num} < {lo}", mode="eval").body))
        B, polB = SB.atom(_canon(ast.parse(f"{num} < {hi}", mode="eval").body))
        for p in bps:
            c = _atoms_after(SB, p, binds)
            if c is None:
                continue
            # `number in self`: the membership test decided above
            inself = f"{num} in self"
            rows = [({inself: True}, "member")] if inself in c else [({A: not polA, B: polB}, "member")]
            want = paths.decide(rows, "no member", _V(c))
            if p.end in ("return", "raise") and p.value is not None:
                v = _subst_text(SB, p.value, binds)
                t = paths.text(v)
                got = "member" if t in members else "no member" if (call_name(v) or "") == "ValueError" else t
            else:
                got = p.end
            n += 1
            run.ob(rule, want == {got}, f"NamedRange({lo}, {hi}).by_number [{label(p)}]: {got[:40]}",
                   f"for a NamedRange built to span [{lo}, {hi}) by_number gives `{got}` on the path [{label(p)}], required: "
                   f"{' or '.join(sorted(want))} (member = {members[0]})", module=vals, node=p.node or byn, func="NamedRange.by_number",
                   construct="by_number member")
    run.require(n >= 4, f"NamedRange: only {n} by_number obligations")
